#!/bin/sh
# re-run every claimed check (quick) against /repo itself so that the committed evidence comes from the unchanged tree
cd "$(dirname "$0")"
git -C /repo diff --quiet || { echo "/repo has uncommitted changes"; exit 1; }
for id in $(python3 -c "import json; print(' '.join(c['property_id'] for c in json.load(open('MANIFEST.json'))['checks']))"); do
  ./vf check $id --tier quick 2>&1 | grep -v conda | tail -1
done
