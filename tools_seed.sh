#!/bin/sh
# usage: tools_seed.sh <seed dir with patch.diff + demo.py> <PID> [more PIDs]
# confirms a seeded change in a scratch worktree (tests pass, demo fails with / passes without), then runs the checks on it
SEED="$1"; shift
WT=${VFSEED_WT:-/tmp/vfseed}
T0=/tmp/$(basename $WT)
git -C /repo worktree remove --force $WT >/dev/null 2>&1; rm -rf $WT
git -C /repo worktree add -q --detach $WT HEAD || exit 9
cd $WT
/venv/bin/python "$SEED/demo.py" >${T0}_demo0.txt 2>&1; D0=$?
git apply "$SEED/patch.diff" || { echo "PATCH DOES NOT APPLY"; exit 9; }
/venv/bin/python -m pytest -q -p no:cacheprovider -x >${T0}_tests.txt 2>&1; T=$?
/venv/bin/python "$SEED/demo.py" >${T0}_demo1.txt 2>&1; D1=$?
echo "seed=$SEED tests_exit=$T demo_unpatched=$D0 demo_patched=$D1 ($(tail -1 ${T0}_tests.txt))"
cd /verif
for P in "$@"; do
  VF_REPO=$WT timeout 1500 ./vf check $P > ${T0}_check_$P.txt 2>&1; C=$?
  echo "  check $P exit=$C violations=$(grep -c '^VIOLATION' ${T0}_check_$P.txt) confirmed=$(grep '^VIOLATION' ${T0}_check_$P.txt | grep -vc no-failing) undecided=$(grep -c '^UNDECIDED' ${T0}_check_$P.txt) failures=$(grep -c '^CHECKER-FAILURE' ${T0}_check_$P.txt)"
  grep '^VIOLATION\|^UNDECIDED\|^CHECKER' ${T0}_check_$P.txt | head -3 | cut -c1-220
done
git -C /repo worktree remove --force $WT >/dev/null 2>&1; rm -rf $WT
