#!/usr/bin/env python3
"""updates the obligation counts of table 7.1 in DESIGN.md from the committed evidence files"""
import glob
import json
import re

s = open("DESIGN.md").read()
for f in sorted(glob.glob("evidence/C*.json")):
    d = json.load(open(f))
    pid, lvl, n = d["property_id"], d["level"], d["coverage"]["obligations"]
    s, k = re.subn(r"^\| %s \| \w+ \| \d+ \|" % pid, "| %s | %s | %d |" % (pid, lvl, n), s, count=1, flags=re.M)
    if not k:
        print("row not found for", pid)
open("DESIGN.md", "w").write(s)
print("table 7.1 updated")
