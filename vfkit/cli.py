import argparse
import json
import os
import sys


def main():
    ap = argparse.ArgumentParser(prog="vf")
    sub = ap.add_subparsers(dest="cmd", required=True)
    c = sub.add_parser("check")
    c.add_argument("pid")
    c.add_argument("--tier", default=os.environ.get("VERIF_TIER", "quick"), choices=["quick", "thorough"])
    r = sub.add_parser("replay")
    r.add_argument("path")
    st = sub.add_parser("selftest")
    st.add_argument("what", nargs="*")
    a = ap.parse_args()
    seed = int(os.environ.get("VERIF_SEED", "0") or 0)
    if a.cmd == "check":
        try:
            from . import check
            code, lines, ev = check.run_property(a.pid.upper(), a.tier, seed)
        except BaseException as e:  # noqa: BLE001
            import traceback
            traceback.print_exc()
            print("CHECKER-FAILURE property=%s :: %r" % (a.pid, e))
            sys.exit(3)
        for ln in lines:
            print(ln)
        cov = ev["coverage"]
        print("%s tier=%s level=%s obligations=%d discharged=%d paths=%d bounded_evals=%d wall=%.1fs exit=%d" % (
            a.pid.upper(), a.tier, ev["level"], cov["obligations"], cov["discharged"], cov["paths_explored"],
            sum(b.get("evaluations", 0) for b in cov["bounded_standins"]), ev["wall_s"], code))
        sys.exit(code)
    if a.cmd == "replay":
        from . import check
        with open(a.path) as f:
            rp = json.load(f)
        print(json.dumps({k: rp.get(k) for k in ("property", "obligation", "status", "model")}, indent=1, default=str))
        req = None
        if rp.get("native_replay"):
            req = rp["native_replay"]["request"]
        elif rp.get("native_attempts"):
            req = rp["native_attempts"][0]["request"]
        elif rp.get("failure", {}).get("request"):
            req = rp["failure"]["request"]
        if req is None and rp.get("failure"):
            # found natively by a bounded check on the real code: the record is the failing input and what was observed on it
            print(json.dumps({"failing_input": rp["failure"], "tree": rp.get("repo")}, indent=1, default=str, ensure_ascii=False))
            print("recorded by the bounded part of the check on the real code; `./vf check %s` re-runs it on the current tree" % rp.get("property"))
            sys.exit(1)
        if req is None:
            print("no native input recorded for this obligation (no-failing-input-found)")
            if rp.get("solver") or rp.get("pc"):
                print(json.dumps({k: rp.get(k) for k in ("solver", "pc", "extra") if rp.get(k)}, indent=1, default=str)[:4000])
            sys.exit(0)
        out = check.native(req)
        print(json.dumps({"request": req, "result": out}, indent=1))
        sys.exit(1 if out.get("violated") else 0)
    if a.cmd == "selftest":
        from . import selftest
        sys.exit(selftest.main(a.what))


if __name__ == "__main__":
    main()
