"""Mechanical redirects: the only difference between the verified text and the running text.

An ast.NodeTransformer redirects a fixed list of operator sites to hook functions.  Every hook is the
identity on concrete operands (it calls the native operation) and builds terms on proxies.  Line
numbers, docstrings (PLY reads them as grammar) and names are preserved.  REDIRECTS documents the list;
it is copied into every evidence file.
"""
import ast
import re
import builtins
import decimal as _decimal

import z3

from . import sym
from .sym import EngineUnsupported, Proxy, SymBool, SymInt, SymStr, S, ctx

REDIRECTS = [
    "a % b -> __vf_mod__(a, b)  (native % unless a proxy is involved; then %s/%d/%r as concatenation)",
    "f-string -> __vf_fstr__(parts) (native format() unless a proxy is involved)",
    "x.join(it) -> __vf_join__(x, it)",
    "len(x) -> __vf_len__(x)",
    "isinstance(x, T) -> __vf_isinstance__(x, T); type(x) -> __vf_type__(x); x.__class__ -> __vf_class__(x)",
    "set() -> __vf_set__ (a set subclass that turns symbolic when an index path proxy is added)",
    "str/int/float/repr/Decimal/format(x) -> __vf_str__/__vf_int__/__vf_float__/__vf_repr__/__vf_Decimal__/"
    "__vf_format__",
    "enumerate/zip/sum/any/all/tuple/list/sorted(x) -> run-aware hooks, identity otherwise",
    "c[k] (load), c.get(k, d), k in c, k not in c -> __vf_getitem__/__vf_get__/__vf_contains__: exhaustive "
    "fork over the concrete keys of a real container when k is a proxy",
    "a or <falsy constant of a's type> -> __vf_or_const__ (value-identical, avoids a fork)",
    "import re -> re = __vf_wrap_re__(re) (facade: native on concrete strings)",
    "for loops with a registered cut-point invariant -> loop-cut hook (identity when none is registered)",
    "while loops -> __vf_while_enter__/__vf_while_step__ probes around the loop (no effect unless a cut-point "
    "invariant is registered for the loop)",
]


class Rewrite(ast.NodeTransformer):
    CALL_NAMES = {
        "len": "__vf_len__", "isinstance": "__vf_isinstance__", "type": "__vf_type__",
        "str": "__vf_str__", "int": "__vf_int__", "float": "__vf_float__", "repr": "__vf_repr__",
        "Decimal": "__vf_Decimal__", "enumerate": "__vf_enumerate__", "zip": "__vf_zip__",
        "sum": "__vf_sum__", "any": "__vf_any__", "all": "__vf_all__", "tuple": "__vf_tuple__",
        "list": "__vf_list__", "sorted": "__vf_sorted__", "issubclass": "__vf_issubclass__",
        "format": "__vf_format__", "set": "__vf_set__",
    }

    def __init__(self, modname):
        self.modname = modname
        self.count = {}
        self.func_stack = []
        self.loop_ordinals = {}

    def _c(self, k):
        self.count[k] = self.count.get(k, 0) + 1

    def _call(self, name, args, node):
        return ast.copy_location(ast.Call(func=ast.Name(name, ast.Load()), args=args, keywords=[]), node)

    # ---- scopes (to key loops by function qualname + ordinal)
    def visit_FunctionDef(self, node):
        self.func_stack.append(node.name)
        a = node.args
        local = {x.arg for x in a.posonlyargs + a.args + a.kwonlyargs}
        if a.vararg:
            local.add(a.vararg.arg)
        if a.kwarg:
            local.add(a.kwarg.arg)
        local |= {t.id for t in ast.walk(node) if isinstance(t, ast.Name) and isinstance(t.ctx, ast.Store)}
        self.local_stack = getattr(self, "local_stack", []) + [local]
        self.generic_visit(node)
        self.local_stack.pop()
        self.func_stack.pop()
        return node

    visit_AsyncFunctionDef = visit_FunctionDef

    def visit_ClassDef(self, node):
        self.func_stack.append(node.name)
        self.generic_visit(node)
        self.func_stack.pop()
        return node

    def visit_For(self, node):
        qual = ".".join(self.func_stack)
        n = self.loop_ordinals.get(qual, 0)
        self.loop_ordinals[qual] = n + 1
        self.generic_visit(node)
        key = "%s.%s#%d" % (self.modname, qual, n)
        self._c("for")
        node.iter = self._call("__vf_loop_iter__", [ast.Constant(key), node.iter], node.iter)
        local = self.local_stack[-1] if getattr(self, "local_stack", None) else None
        if local is None or node.orelse or any(isinstance(x, (ast.Break, ast.Yield, ast.YieldFrom, ast.Return)) for x in ast.walk(node)):
            return node
        # cut-point probes (no effect unless a cut is registered for the key): state may be replaced at the loop
        # head, and the end of every iteration (also after `continue`) is observable
        names = sorted({t.id for t in ast.walk(node) if isinstance(t, ast.Name) and t.id in local})
        enter = ast.Assign(targets=[ast.Name("__vf_st", ast.Store())],
                           value=ast.Call(func=ast.Name("__vf_while_enter__", ast.Load()),
                                          args=[ast.Constant(key), ast.Call(func=ast.Name("locals", ast.Load()), args=[], keywords=[]),
                                                ast.Constant(tuple(names))],
                                          keywords=[]))
        rebinding = [ast.If(test=ast.Compare(left=ast.Constant(v), ops=[ast.In()], comparators=[ast.Name("__vf_st", ast.Load())]),
                            body=[ast.Assign(targets=[ast.Name(v, ast.Store())],
                                             value=ast.Subscript(value=ast.Name("__vf_st", ast.Load()), slice=ast.Constant(v), ctx=ast.Load()))],
                            orelse=[])
                     for v in names]
        guard = ast.If(test=ast.Compare(left=ast.Name("__vf_st", ast.Load()), ops=[ast.IsNot()], comparators=[ast.Constant(None)]),
                       body=rebinding or [ast.Pass()], orelse=[])
        step = ast.Expr(ast.Call(func=ast.Name("__vf_while_step__", ast.Load()),
                                 args=[ast.Constant(key), ast.Call(func=ast.Name("locals", ast.Load()), args=[], keywords=[])],
                                 keywords=[]))
        node.body = [ast.Try(body=node.body, handlers=[], orelse=[], finalbody=[step])]
        out = [enter, guard, node]
        for x in out:
            ast.copy_location(x, node)
            for y in ast.walk(x):
                if not hasattr(y, "lineno"):
                    ast.copy_location(y, node)
        return out

    def visit_While(self, node):
        """cut-point instrumentation (identity unless a cut is registered for the loop's key)"""
        qual = ".".join(self.func_stack)
        n = self.loop_ordinals.get(qual + "/while", 0)
        self.loop_ordinals[qual + "/while"] = n + 1
        self.generic_visit(node)
        if node.orelse or any(isinstance(x, (ast.Continue, ast.Break)) for x in ast.walk(node)):
            return node
        key = "%s.%s#while%d" % (self.modname, qual, n)
        self._c("while")
        local = self.local_stack[-1] if getattr(self, "local_stack", None) else set()
        assigned = sorted({t.id for t in ast.walk(node) if isinstance(t, ast.Name) and t.id in local})
        loc = ast.Call(func=ast.Name("locals", ast.Load()), args=[], keywords=[])
        enter = ast.Assign(targets=[ast.Name("__vf_st", ast.Store())],
                           value=ast.Call(func=ast.Name("__vf_while_enter__", ast.Load()),
                                          args=[ast.Constant(key), loc, ast.Constant(tuple(assigned))], keywords=[]))
        rebinding = [ast.If(test=ast.Compare(left=ast.Constant(v), ops=[ast.In()], comparators=[ast.Name("__vf_st", ast.Load())]),
                            body=[ast.Assign(targets=[ast.Name(v, ast.Store())],
                                             value=ast.Subscript(value=ast.Name("__vf_st", ast.Load()), slice=ast.Constant(v), ctx=ast.Load()))],
                            orelse=[])
                     for v in assigned]
        guard = ast.If(test=ast.Compare(left=ast.Name("__vf_st", ast.Load()), ops=[ast.IsNot()], comparators=[ast.Constant(None)]),
                       body=rebinding or [ast.Pass()], orelse=[])
        step = ast.Expr(ast.Call(func=ast.Name("__vf_while_step__", ast.Load()),
                                 args=[ast.Constant(key), ast.Call(func=ast.Name("locals", ast.Load()), args=[], keywords=[])],
                                 keywords=[]))
        node.body = node.body + [step]
        out = [enter, guard, node]
        for x in out:
            ast.copy_location(x, node)
            for y in ast.walk(x):
                if not hasattr(y, "lineno"):
                    ast.copy_location(y, node)
        return out

    def visit_BinOp(self, node):
        self.generic_visit(node)
        if isinstance(node.op, ast.Mod):
            self._c("mod")
            return self._call("__vf_mod__", [node.left, node.right], node)
        return node

    def visit_JoinedStr(self, node):
        self.generic_visit(node)
        self._c("fstr")
        parts = []
        for v in node.values:
            if isinstance(v, ast.Constant):
                parts.append(v)
            else:
                spec = v.format_spec if v.format_spec is not None else ast.Constant(None)
                parts.append(ast.Tuple([v.value, ast.Constant(v.conversion), spec], ast.Load()))
        return self._call("__vf_fstr__", parts, node)

    def visit_FormattedValue(self, node):
        self.generic_visit(node)
        return node

    def visit_Call(self, node):
        self.generic_visit(node)
        f = node.func
        if isinstance(f, ast.Name) and f.id in self.CALL_NAMES and not node.keywords \
                and not any(isinstance(a, ast.Starred) for a in node.args):
            self._c(f.id)
            node.func = ast.copy_location(ast.Name(self.CALL_NAMES[f.id], ast.Load()), f)
            return node
        if isinstance(f, ast.Attribute) and not node.keywords \
                and not any(isinstance(a, ast.Starred) for a in node.args):
            if f.attr == "join" and len(node.args) == 1:
                self._c("join")
                return self._call("__vf_join__", [f.value, node.args[0]], node)
            if f.attr == "get" and 1 <= len(node.args) <= 2:
                self._c("get")
                return self._call("__vf_get__", [f.value] + node.args, node)
        return node

    def visit_Attribute(self, node):
        self.generic_visit(node)
        if node.attr == "__class__" and isinstance(node.ctx, ast.Load):
            self._c("__class__")
            return self._call("__vf_class__", [node.value], node)
        return node

    def visit_Subscript(self, node):
        self.generic_visit(node)
        if isinstance(node.ctx, ast.Load):
            self._c("getitem")
            sl = node.slice
            if isinstance(sl, ast.Slice):
                sl = ast.copy_location(ast.Call(
                    func=ast.Name("slice", ast.Load()),
                    args=[sl.lower or ast.Constant(None), sl.upper or ast.Constant(None),
                          sl.step or ast.Constant(None)], keywords=[]), node)
            return self._call("__vf_getitem__", [node.value, sl], node)
        return node

    def visit_AugAssign(self, node):
        # target must stay a plain target; only rewrite inside its value parts
        node.value = self.visit(node.value)
        t = node.target
        if isinstance(t, ast.Attribute):
            t.value = self.visit(t.value)
        elif isinstance(t, ast.Subscript):
            t.value = self.visit(t.value)
            t.slice = self.visit(t.slice)
        if isinstance(node.op, ast.Mod):
            raise EngineUnsupported("%= not supported by the rewriter")
        return node

    def visit_Compare(self, node):
        self.generic_visit(node)
        if len(node.ops) == 1 and isinstance(node.ops[0], (ast.In, ast.NotIn)):
            self._c("in")
            call = self._call("__vf_in__", [node.left, node.comparators[0]], node)
            if isinstance(node.ops[0], ast.NotIn):
                return ast.copy_location(ast.UnaryOp(ast.Not(), call), node)
            return call
        return node

    def visit_BoolOp(self, node):
        self.generic_visit(node)
        if isinstance(node.op, ast.Or) and len(node.values) == 2 and isinstance(node.values[1], ast.Constant) \
                and type(node.values[1].value) in (str, int) and node.values[1].value in ("", 0):
            self._c("or_const")
            return self._call("__vf_or_const__", node.values, node)
        return node

    def visit_Import(self, node):
        out = [node]
        for a in node.names:
            if a.name == "re" and a.asname is None:
                self._c("re")
                out.append(ast.copy_location(ast.Assign(
                    targets=[ast.Name("re", ast.Store())],
                    value=self._call("__vf_wrap_re__", [ast.Name("re", ast.Load())], node)), node))
        return out


# ------------------------------------------------------------------------------------------------
# hooks
# ------------------------------------------------------------------------------------------------

def _is_sym(x):
    return isinstance(x, Proxy) or hasattr(type(x), "__vf_symbolic__")


def vf_str(x):
    """str(x) that lets Item.__str__ return a SymStr"""
    if isinstance(x, (str, SymStr)):
        return x
    h = getattr(type(x), "__vf_str__", None)
    if h is not None:
        return h(x)
    if isinstance(x, SymInt):
        return vf_int_to_str(x)
    if isinstance(x, Proxy):
        raise EngineUnsupported("str() of %s" % type(x).__name__)
    m = getattr(type(x), "__str__", None)
    if m is not None and m is not object.__str__ and getattr(m, "__module__", "") != "builtins" \
            and not isinstance(x, (int, float, _decimal.Decimal, BaseException, type)):
        r = x.__str__()
        if isinstance(r, (str, SymStr)):
            return r
        raise EngineUnsupported("__str__ returned %s" % type(r).__name__)
    return builtins.str(x)


def _has_proxy_str(x):
    """would converting x to a string involve a proxy?  (cheap conservative test: try it)"""
    return not isinstance(x, (str, int, float, bool, type(None), _decimal.Decimal))


def _concat_parts(t):
    """flatten a z3 string term into literal / symbolic pieces"""
    if z3.is_app(t) and t.decl().kind() == z3.Z3_OP_SEQ_CONCAT:
        out = []
        for c in t.children():
            out.extend(_concat_parts(c))
        return out
    if z3.is_string_value(t):
        return [t.as_string()]
    return [t]


def vf_mod(a, b):
    if isinstance(a, SymStr):
        # a template built from symbolic text: CPython scans every character of it for conversions.  The literal
        # pieces are formatted as usual; a symbolic piece either contains no '%' (then it is plain text) or it
        # does, and then the conversion is malformed or consumes arguments: the format operation raises
        # (ValueError / TypeError) or silently rewrites the text -- modelled as ValueError.
        pieces = _concat_parts(a.t)
        for pc in pieces:
            if not isinstance(pc, str):
                if ctx().decide(z3.Contains(pc, z3.StringVal("%"))):
                    raise ValueError("unsupported format character in a template built from input text")
        out = ""
        args = b if isinstance(b, tuple) else (b,)
        k = 0
        for pc in pieces:
            if isinstance(pc, str):
                n = len([m for m in __import__("re").finditer(r"%[^%]", pc)])
                piece = vf_mod(pc, tuple(args[k:k + n]) if n != 1 else args[k]) if n or "%%" in pc else pc
                k += n
                out = out + piece
            else:
                out = out + SymStr(pc)
        if k != len(args):
            raise TypeError("not all arguments converted during string formatting")
        return out
    if not isinstance(a, str):
        return a % b
    args = b if isinstance(b, tuple) else (b,)
    if all(isinstance(x, (str, int, float, bool, type(None), _decimal.Decimal)) for x in args):
        return a % b
    if isinstance(b, dict):
        raise EngineUnsupported("% with mapping and non-trivial values")
    # parse template: only %s %d %r %%
    out = ""
    i = 0
    k = 0
    n = len(a)
    lit = ""
    while i < n:
        ch = a[i]
        if ch != "%":
            lit += ch
            i += 1
            continue
        if i + 1 >= n:
            raise EngineUnsupported("bad format %r" % a)
        conv = a[i + 1]
        i += 2
        if conv == "%":
            lit += "%"
            continue
        if conv not in "sdr":
            raise EngineUnsupported("format conversion %%%s with non-scalar argument" % conv)
        if k >= len(args):
            raise TypeError("not enough arguments for format string")
        x = args[k]
        k += 1
        if conv == "s":
            piece = vf_str(x)
        elif conv == "r":
            piece = vf_repr(x)
        else:
            piece = vf_int_to_str(x)
        out = out + lit + piece
        lit = ""
    if k != len(args):
        raise TypeError("not all arguments converted during string formatting")
    return out + lit


def vf_int_to_str(x):
    if isinstance(x, SymInt):
        return SymStr(z3.If(x.t >= 0, z3.IntToStr(x.t), z3.Concat(z3.StringVal("-"), z3.IntToStr(-x.t))))
    h = getattr(type(x), "__vf_pct_d__", None)
    if h is not None:
        return h(x)
    return "%d" % x


def vf_repr(x):
    if isinstance(x, Proxy):
        if isinstance(x, SymStr):
            return SymStr(z3.Function("py_repr", z3.StringSort(), z3.StringSort())(x.t))
        raise EngineUnsupported("repr of %s" % type(x).__name__)
    h = getattr(type(x), "__vf_repr__", None)
    if h is not None:
        return h(x)
    m = getattr(type(x), "__repr__", None)
    if m is not None and getattr(m, "__module__", "") != "builtins" and hasattr(m, "__code__"):
        r = x.__repr__()
        if isinstance(r, (str, SymStr)):
            return r
        raise EngineUnsupported("__repr__ returned %s" % type(r).__name__)
    return builtins.repr(x)


def vf_fstr(*parts):
    out = ""
    for p in parts:
        if isinstance(p, str):
            out = out + p
            continue
        value, conv, spec = p
        if conv == -1 and spec in (None, ""):
            if isinstance(value, (str, SymStr)):
                piece = value
            elif isinstance(value, (int, float, bool, type(None), _decimal.Decimal)):
                piece = format(value, "")
            else:
                piece = vf_format_default(value)
        elif conv == ord("r") and spec in (None, ""):
            piece = vf_repr(value)
        elif conv == ord("s") and spec in (None, ""):
            piece = vf_str(value)
        elif conv == -1 and spec == "d" and isinstance(value, SymInt):
            piece = vf_int_to_str(value)          # format(int, "d") is what "%d" % int prints
        else:
            if _is_sym(value):
                raise EngineUnsupported("f-string conversion/spec on a proxy")
            v = value
            if conv == ord("r"):
                v = builtins.repr(v)
            elif conv == ord("s"):
                v = builtins.str(v)
            elif conv == ord("a"):
                v = builtins.ascii(v)
            piece = format(v, spec or "")
        out = out + piece
    return out


def vf_format_default(value):
    if isinstance(value, Proxy):
        raise EngineUnsupported("f-string of %s" % type(value).__name__)
    if type(value).__format__ is object.__format__:
        return vf_str(value)
    return format(value, "")


def vf_join(sep, it):
    if not isinstance(sep, (str, SymStr)):
        return sep.join(it)
    items = builtins.list(it)
    if isinstance(sep, str) and all(isinstance(x, str) for x in items):
        return sep.join(items)
    out = None
    for x in items:
        h = getattr(type(x), "__vf_join_piece__", None)
        if h is not None:
            x = h(x, sep)
        elif not isinstance(x, (str, SymStr)):
            raise TypeError("sequence item: expected str instance, %s found" % type(x).__name__)
        out = x if out is None else out + sep + x
    return "" if out is None else out


def vf_len(x):
    if isinstance(x, SymStr):
        return SymInt(z3.Length(x.t))
    h = getattr(type(x), "__vf_len__", None)
    if h is not None:
        return h(x)
    if type(x) in (list, tuple) and any(getattr(type(e), "__vf_run__", False) for e in x):
        # a plain sequence that holds a run of operands: its length is that of the operands it stands for, not of the pseudo-elements
        n, total = 0, None
        for e in x:
            if getattr(type(e), "__vf_run__", False):
                c = getattr(e, "count", None)
                if c is None:
                    raise EngineUnsupported("len() of a sequence holding a run of unknown length")
                total = c if total is None else total + c
            else:
                n += 1
        return total + n
    return builtins.len(x)


def vf_isinstance(x, T):
    h = getattr(type(x), "__vf_isinstance__", None)
    if h is not None:
        return h(x, T)
    if isinstance(x, Proxy):
        ts = T if isinstance(T, tuple) else (T,)
        conc = {SymStr: str, SymInt: int, SymBool: bool}.get(type(x))
        if conc is None:
            raise EngineUnsupported("isinstance on %s" % type(x).__name__)
        return any(isinstance(t, type) and issubclass(conc, t) for t in ts)
    return builtins.isinstance(x, T)


def vf_issubclass(c, T):
    return builtins.issubclass(c, T)


def vf_type(*a):
    if len(a) != 1:
        return builtins.type(*a)
    x = a[0]
    h = getattr(type(x), "__vf_type__", None)
    if h is not None:
        return h(x)
    if isinstance(x, Proxy):
        raise EngineUnsupported("type() of %s" % type(x).__name__)
    return builtins.type(x)


def vf_class(x):
    h = getattr(type(x), "__vf_type__", None)
    if h is not None:
        return h(x)
    if isinstance(x, Proxy):
        raise EngineUnsupported("__class__ of %s" % type(x).__name__)
    return x.__class__


def vf_int(*a):
    if len(a) == 1:
        x = a[0]
        h = getattr(type(x), "__vf_int__", None)
        if h is not None:
            return h(x)
        if isinstance(x, SymInt):
            return x
        if isinstance(x, Proxy):
            from . import ext
            return ext.int_of(x)
    return builtins.int(*a)


def vf_float(*a):
    if len(a) == 1:
        x = a[0]
        h = getattr(type(x), "__vf_float__", None)
        if h is not None:
            return h(x)
        if isinstance(x, Proxy):
            from . import ext
            return ext.float_of(x)
    return builtins.float(*a)


def vf_Decimal(*a):
    if len(a) == 1:
        x = a[0]
        h = getattr(type(x), "__vf_Decimal__", None)
        if h is not None:
            return h(x)
        if isinstance(x, Proxy):
            from . import ext
            return ext.decimal_of(x)
    return _decimal.Decimal(*a)


def vf_format(x, *spec):
    h = getattr(type(x), "__vf_format__", None)
    if h is not None:
        return h(x, *spec)
    if isinstance(x, Proxy):
        raise EngineUnsupported("format() of %s" % type(x).__name__)
    return builtins.format(x, *spec)


class FlexSet(set):
    """the result of `set()` in instrumented code: an ordinary set until a symbolic member (an index path) or a
    symbolic set is added; from then on a z3 set term (vfkit.paths)"""
    __vf_symbolic__ = True
    _sym = None

    def _to_sym(self):
        if self._sym is None:
            from . import paths
            t = paths.S_(builtins.set(self))
            self._sym = paths.SymSet(t)
        return self._sym

    def add(self, k):
        if self._sym is None and not isinstance(k, Proxy):
            return set.add(self, k)
        self._to_sym().add(k)

    def update(self, *others):
        for o in others:
            if self._sym is None and not _is_sym(o):
                set.update(self, o)
            else:
                self._to_sym().update(o if _is_sym(o) else builtins.set(o))

    @property
    def t(self):
        return self._to_sym().t

    def __vf_contains__(self, k):
        if self._sym is None and not isinstance(k, Proxy):
            return set.__contains__(self, k)
        return self._to_sym().__vf_contains__(k)

    def __iter__(self):
        if self._sym is not None:
            raise EngineUnsupported("iteration over a symbolic set")
        return set.__iter__(self)

    def __len__(self):
        if self._sym is not None:
            raise EngineUnsupported("len of a symbolic set")
        return set.__len__(self)

    def __eq__(self, o):
        if self._sym is not None:
            raise EngineUnsupported("== on a symbolic set")
        return set.__eq__(self, o)

    __hash__ = None


def vf_set(*a):
    if not a:
        return FlexSet()
    if _is_sym(a[0]):
        raise EngineUnsupported("set(%s)" % type(a[0]).__name__)
    return builtins.set(*a)


def vf_enumerate(x, *a):
    h = getattr(type(x), "__vf_enumerate__", None)
    if h is not None:
        return h(x, *a)
    return builtins.enumerate(x, *a)


def vf_zip(*xs):
    for x in xs:
        h = getattr(type(x), "__vf_zip__", None)
        if h is not None:
            return h(*xs)
    return builtins.zip(*xs)


def vf_sum(x, *a):
    return builtins.sum(x, *a)


def vf_any(it):
    """any() over possibly symbolic booleans: same short-circuit order as the builtin"""
    for x in it:
        if x:
            return True
    return False


def vf_all(it):
    for x in it:
        if not x:
            return False
    return True


RUN_TUPLE = [None]     # set by model: tuple subclass for operand tuples that contain a Run


def vf_tuple(*a):
    if a:
        h = getattr(type(a[0]), "__vf_tuple__", None)
        if h is not None:
            return h(a[0])
    t = builtins.tuple(*a)
    if RUN_TUPLE[0] is not None and any(getattr(type(x), "__vf_run__", False) for x in t):
        return RUN_TUPLE[0](t)
    return t


def vf_list(*a):
    if a:
        h = getattr(type(a[0]), "__vf_list__", None)
        if h is not None:
            return h(a[0])
    return builtins.list(*a)


def vf_sorted(x, **k):
    return builtins.sorted(x, **k)


def _fork_over(container_items, k, on_hit, on_miss):
    """exhaustive fork: k == item_1, ..., k == item_n, none"""
    c = ctx()
    for item in container_items:
        if isinstance(item, Proxy):
            raise EngineUnsupported("symbolic key inside a container")
        if isinstance(k, SymStr):
            if not isinstance(item, str):
                continue
            cond = k.t == z3.StringVal(item)
        elif isinstance(k, sym.SymCase):
            if not isinstance(item, str):
                continue
            cond = k._matches(item)
        elif isinstance(k, SymInt):
            if not isinstance(item, int) or isinstance(item, bool):
                continue
            cond = k.t == z3.IntVal(item)
        elif isinstance(k, SymBool):
            # True == 1 and False == 0 as dict keys
            if item is True or (item == 1 and not isinstance(item, str)):
                cond = k.t
            elif item is False or (item == 0 and not isinstance(item, str)):
                cond = z3.Not(k.t)
            else:
                continue
        else:
            raise EngineUnsupported("fork over %s" % type(k).__name__)
        if c.decide(cond):
            return on_hit(item)
    return on_miss()


def vf_getitem(c, k):
    if isinstance(c, SymStr):
        return c[k]
    h = getattr(type(c), "__vf_getitem__", None)
    if h is not None:
        return h(c, k)
    if isinstance(k, Proxy):
        if isinstance(c, dict):
            def miss():
                raise KeyError(k)
            return _fork_over(builtins.list(c.keys()), k, lambda item: c[item], miss)
        if isinstance(c, (str, list, tuple)) and isinstance(k, SymInt) and not hasattr(type(c), "__vf_symbolic__"):
            def miss2():
                raise IndexError("index out of range")
            idx = builtins.list(range(len(c)))
            return _fork_over(idx + [i - len(c) for i in idx], k, lambda item: c[item], miss2)
        raise EngineUnsupported("subscript %s[%s]" % (type(c).__name__, type(k).__name__))
    if isinstance(k, slice) and any(isinstance(v, Proxy) for v in (k.start, k.stop, k.step)):
        raise EngineUnsupported("symbolic slice of %s" % type(c).__name__)
    return c[k]


def vf_get(c, k, *d):
    h = getattr(type(c), "__vf_get__", None)
    if h is not None:
        return h(c, k, *d)
    if isinstance(k, Proxy) and isinstance(c, dict):
        return _fork_over(builtins.list(c.keys()), k, lambda item: c[item], lambda: (d[0] if d else None))
    if isinstance(k, Proxy):
        raise EngineUnsupported(".get on %s with symbolic key" % type(c).__name__)
    return c.get(k, *d)


def vf_in(k, c):
    return vf_contains(c, k)


def vf_contains(c, k):
    h = getattr(type(c), "__vf_contains__", None)
    if h is not None:
        return h(c, k)
    if isinstance(c, SymStr):
        return SymBool(z3.Contains(c.t, S(k)))
    if isinstance(k, Proxy):
        if isinstance(c, str) and isinstance(k, SymStr):
            return SymBool(z3.Contains(z3.StringVal(c), k.t))
        if isinstance(c, (dict, set, frozenset, list, tuple)):
            return _fork_over(builtins.list(c), k, lambda item: True, lambda: False)
        raise EngineUnsupported("symbolic `in` on %s" % type(c).__name__)
    if isinstance(c, (list, tuple)) and any(_is_sym(x) for x in c):
        # membership by ==, element by element, as the native operation does
        for x in c:
            if x is k:
                return True
            r = (x == k)
            if r is True or (isinstance(r, SymBool) and bool(r)):
                return True
        return False
    return k in c


def vf_or_const(a, c):
    """`a or c` where c is the falsy constant "" or 0: equal to `a` whenever a has c's type"""
    if isinstance(a, SymStr) and c == "" and isinstance(c, str):
        return a
    if isinstance(a, SymInt) and type(c) is int and c == 0:
        return a
    return a or c


# loop cut registry: key -> handler(iterable) -> iterable
LOOP_CUTS = {}
# loops shown stateless (uniform.check): a Run met by such a loop is processed through its generic member
UNIFORM_LOOPS = set()


def _with_generic(it):
    for x in it:
        if getattr(type(x), "__vf_run__", False):
            yield x.generic_member()
        else:
            yield x


def vf_loop_iter(key, it):
    h = LOOP_CUTS.get(key)
    if h is not None:
        return h(it)
    if key in UNIFORM_LOOPS and isinstance(it, (list, tuple)) and any(getattr(type(x), "__vf_run__", False) for x in it):
        return _with_generic(it)
    hh = getattr(type(it), "__vf_iter__", None)
    if hh is not None:
        return hh(it, key)
    return it


# while-loop cut registry: key -> object with enter(locals) -> dict|None and step(locals)
WHILE_CUTS = {}


# cuts registered for every loop whose key matches a pattern (a loop may move to a helper when code is refactored): [(compiled regex, handler)]
WHILE_CUT_PATTERNS = []


def _cut_for(key):
    h = WHILE_CUTS.get(key)
    if h is None:
        for rx, hh in WHILE_CUT_PATTERNS:
            if rx.fullmatch(key):
                return hh
    return h


def vf_while_enter(key, loc, rebindable=None):
    h = _cut_for(key)
    if h is None:
        c = sym.Ctx.cur
        if c is not None:
            c.loop_steps[key] = 0          # the unfolding limit is per execution of the loop, not per path
        return None
    # the locals the loop assigns (only these are re-bound from the returned state): lets a cut find its state variables by what
    # they hold at the loop head instead of by name
    try:
        h.rebindable = tuple(rebindable or ())
    except Exception:  # noqa: BLE001
        pass
    return h.enter(loc)


def state_variable(loc, names, pred, what):
    """the unique re-bindable local whose value at the loop head satisfies pred (cut-point contracts name roles, not variables)"""
    hits = [n for n in names if n in loc and pred(loc[n])]
    if len(hits) != 1:
        raise EngineUnsupported("cut-point contract: cannot identify %s among the loop's variables %r" % (what, list(names)))
    return hits[0]


LOOP_UNFOLD_LIMIT = 64


def vf_while_step(key, loc):
    h = _cut_for(key)
    if h is None:
        # a loop without a registered invariant is unfolded; over symbolic data that may never end: give up loudly
        c = sym.Ctx.cur
        if c is not None:
            n = c.loop_steps[key] = c.loop_steps.get(key, 0) + 1
            if n > LOOP_UNFOLD_LIMIT:
                raise EngineUnsupported("loop %s has no registered invariant and was unfolded more than %d times on one path" % (key, LOOP_UNFOLD_LIMIT))
    if h is not None:
        import sys as _sys
        if _sys.exc_info()[1] is not None:
            return          # an exception is propagating through the loop body (the probe sits in a `finally`)
        h.step(loc)


def vf_wrap_re(real_re):
    from . import ext
    return ext.ReFacade(real_re)


HOOKS = {
    "__vf_mod__": vf_mod, "__vf_fstr__": vf_fstr, "__vf_join__": vf_join, "__vf_len__": vf_len,
    "__vf_isinstance__": vf_isinstance, "__vf_issubclass__": vf_issubclass, "__vf_type__": vf_type,
    "__vf_class__": vf_class,
    "__vf_str__": vf_str, "__vf_int__": vf_int, "__vf_float__": vf_float, "__vf_repr__": vf_repr,
    "__vf_Decimal__": vf_Decimal, "__vf_format__": vf_format, "__vf_set__": vf_set, "__vf_enumerate__": vf_enumerate, "__vf_zip__": vf_zip,
    "__vf_sum__": vf_sum, "__vf_any__": vf_any, "__vf_all__": vf_all, "__vf_tuple__": vf_tuple,
    "__vf_list__": vf_list, "__vf_sorted__": vf_sorted, "__vf_getitem__": vf_getitem, "__vf_get__": vf_get,
    "__vf_in__": vf_in, "__vf_or_const__": vf_or_const, "__vf_loop_iter__": vf_loop_iter,
    "__vf_wrap_re__": vf_wrap_re, "__vf_while_enter__": vf_while_enter, "__vf_while_step__": vf_while_step,
}
