"""Concretisation of counter-models to real trees (python source building luqum.tree objects) for native replay."""
from fractions import Fraction

from . import model as M


def _num(v, integer=False):
    """python source of a numeric model value ('1/2', '3', '-1/4', 2.0 ...)"""
    try:
        fr = Fraction(str(v))
    except (ValueError, ZeroDivisionError):
        fr = Fraction(1, 2)
    if integer:
        return repr(int(fr))
    if fr.denominator == 1:
        return "Decimal(%d)" % fr.numerator
    return "(Decimal(%d) / Decimal(%d))" % (fr.numerator, fr.denominator)


def fp_code(fp, depth=0):
    """source for a tree whose fingerprint is the model value `fp` ({'cls':..., 'args': [...]})"""
    if not isinstance(fp, dict) or "cls" not in fp or depth > 6:
        return "T.Word('w')"
    cname = fp["cls"]
    args = fp.get("args", [])
    spec = M.SPEC.get(cname)
    if spec is None or cname == "NoneItem":
        return "T.Word('w')"     # a real tree has no placeholder child
    vals = {}
    for (f, k), a in zip(spec, args):
        if k == "str":
            vals[f] = repr(a if isinstance(a, str) else "")
        elif k == "bool":
            vals[f] = repr(bool(a))
        elif k == "num":
            vals[f] = _num(a, integer=(cname == "Proximity"))
        elif k == "child":
            vals[f] = fp_code(a, depth + 1)
        else:
            vals[f] = [fp_code(x, depth + 1) for x in (a if isinstance(a, list) else [])]
    return _ctor(cname, vals)


def _ctor(cname, vals, layout=""):
    if cname in ("Word", "Regex", "Term"):
        v = vals["value"]
        return "T.%s(%s%s)" % (cname, v, layout) if cname != "Regex" else "T.Regex('/' + %s.strip('/') + '/'%s)" % (v, layout)
    if cname == "Phrase":
        return "T.Phrase('\"' + %s.strip('\"') + '\"'%s)" % (vals["value"], layout)
    if cname == "SearchField":
        return "T.SearchField(%s, %s%s)" % (vals["name"], vals["expr"], layout)
    if cname in ("Group", "FieldGroup", "BaseGroup"):
        return "T.%s(%s%s)" % (cname, vals["expr"], layout)
    if cname == "Range":
        return "T.Range(%s, %s, %s, %s%s)" % (vals["low"], vals["high"], vals["include_low"], vals["include_high"], layout)
    if cname in ("Fuzzy", "Proximity"):
        return "T.%s(%s, %s%s)" % (cname, vals["term"], vals["degree"], layout)
    if cname == "Boost":
        return "T.Boost(%s, %s%s)" % (vals["expr"], vals["force"], layout)
    if cname in ("Plus", "Not", "Prohibit"):
        return "T.%s(%s%s)" % (cname, vals["a"], layout)
    if cname in ("From", "To"):
        return "T.%s(%s, %s%s)" % (cname, vals["a"], vals["include"], layout)
    if cname in ("BoolOperation", "UnknownOperation", "OrOperation", "AndOperation"):
        ops = vals["operands"]
        inner = ", ".join(ops) + layout
        return "T.%s(%s)" % (cname, inner.lstrip(", "))
    return "T.Word('w')"


def _layout_src(prefix, model, layout):
    if layout != "sym":
        return ""
    def g(k, d):
        v = model.get("%s_%s" % (prefix, k), d)
        return d if v is None else v
    return ", pos=%r, size=%r, head=%r, tail=%r" % (g("pos", 0), g("size", 0), g("head", "") or " ", g("tail", "") or "  ")


def child_code(prefix, model, layout="sym"):
    """source for an abstract child arranged as AbsNode(prefix): built from its fingerprint, with its layout"""
    src = fp_code(model.get(prefix + "_fp"))
    if layout == "sym":
        def g(k, d):
            v = model.get("%s_%s" % (prefix, k), d)
            return d if v is None else v
        return "_lay(%s, %r, %r, %r, %r)" % (src, g("pos", 0), g("size", 0), g("head", ""), g("tail", ""))
    return src


def instance_code(label, prefix, model, layout="sym"):
    """source for a node arranged by treecases/make_instance (label like 'Range', 'Fuzzy.implicit',
    'OrOperation.ops2+run')"""
    model = model or {}
    bits = label.split(".")
    cname = bits[0]
    spec = M.SPEC.get(cname, [])
    if cname == "NoneItem":
        return "T.NONE_ITEM"
    vals = {}
    for f, k in spec:
        key = "%s_%s" % (prefix, f)
        if k == "str":
            vals[f] = repr(model.get(key) or "")
        elif k == "bool":
            vals[f] = repr(bool(model.get(key)))
        elif k == "num":
            if "parsed" in bits:
                vals[f] = repr(str(model.get(key) or "0"))
            else:
                vals[f] = "None" if "implicit" in bits else _num(model.get(key, 1), integer=(cname == "Proximity"))
        elif k == "child":
            vals[f] = child_code(key, model, layout)
        else:
            shape = [b for b in bits if b.startswith(("ops", "run"))]
            shape = shape[0] if shape else "ops2"
            n = {"ops0": 0, "ops1": 1, "ops2": 2, "ops2+run": 2, "run+ops2": 2}[shape]
            ops = [child_code("%s_x%d" % (prefix, i), model, layout) for i in range(n)]
            if "run" in shape:
                seq = model.get("%s_run_fpseq" % prefix)
                run = [fp_code(x) for x in seq] if isinstance(seq, list) and seq else ["T.Word('r')"]
                ops = ops + run if shape == "ops2+run" else run + ops
            vals[f] = ops
    return _ctor(cname, vals, _layout_src(prefix, model, layout))


PRELUDE = '''
from decimal import Decimal
import luqum.tree as T

def _lay(n, pos, size, head, tail):
    if n is not T.NONE_ITEM:
        n.pos, n.size, n.head, n.tail = pos, size, head, tail
    return n

def fingerprint(n):
    """independent structural fingerprint (C09 statement): type, meaning-bearing attributes, children in order"""
    attrs = {"Word": ["value"], "Phrase": ["value"], "Regex": ["value"], "Term": ["value"], "SearchField": ["name"],
             "Range": ["include_low", "include_high"], "Fuzzy": ["degree"], "Proximity": ["degree"],
             "Boost": ["force"], "From": ["include"], "To": ["include"]}.get(type(n).__name__, [])
    return (type(n).__name__, tuple((a, getattr(n, a)) for a in attrs), tuple(fingerprint(c) for c in n.children))

def layout(n):
    return (n.pos, n.size, n.head, n.tail, tuple(layout(c) for c in n.children))

def nodes(n):
    yield n
    for c in n.children:
        yield from nodes(c)
'''
