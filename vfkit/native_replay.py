"""Native replay: evaluates the TOP-LEVEL property statement on the unmodified code, in a fresh process of the
repository's own interpreter (no instrumentation, no proxies).  Input: a JSON request on stdin; output: JSON.

  {"kind": "C01", "query": "..."}  ->  {"violated": bool, "observation": "..."}
"""
import json
import re
import sys
import traceback
from decimal import Decimal, InvalidOperation


def _norm_numerals(s):
    """C01's permitted difference: a numeral after ~ or ^ may be re-spelled as a numerically equal plain
    decimal literal"""
    def rep(m):
        try:
            d = Decimal(m.group(2))
        except InvalidOperation:
            return m.group(0)
        t = format(d.normalize(), "f")
        return m.group(1) + t
    return re.sub(r"([~^])([0-9.]+)", rep, s)


def walk(node, path=()):
    yield path, node
    for i, c in enumerate(node.children):
        yield from walk(c, path + (i,))


def c01(req):
    from luqum.parser import parser
    q = req["query"]
    try:
        t = parser.parse(q)
    except Exception as e:  # noqa: BLE001
        return {"violated": False, "observation": "not accepted: %s: %s" % (type(e).__name__, e)}
    out = t.__str__(head_tail=True)
    if out == q:
        return {"violated": False, "observation": "printed identically"}
    if _norm_numerals(out) == _norm_numerals(q):
        try:
            t2 = parser.parse(out)
            if t2 == t and t2.__str__(head_tail=True) == out:
                return {"violated": False, "observation": "printed identically up to numeral re-spelling: %r" % out}
        except Exception:  # noqa: BLE001
            pass
    return {"violated": True, "observation": "parse(%r) prints %r" % (q, out)}


def c02(req):
    from luqum.parser import parser
    q = req["query"]
    try:
        t = parser.parse(q)
    except Exception as e:  # noqa: BLE001
        return {"violated": False, "observation": "not accepted: %s: %s" % (type(e).__name__, e)}
    problems = []
    s, e = t.span(head_tail=True)
    if (s, e) != (0, len(q)):
        problems.append("root widened span %r != (0, %d)" % ((s, e), len(q)))
    for path, n in walk(t):
        if n.pos is None or n.size is None:
            problems.append("%s %r has no pos/size" % (path, n))
            continue
        body = n.__str__()
        full = n.__str__(head_tail=True)
        a, b = n.span()
        if _norm_numerals(q[a:b]) != _norm_numerals(body):
            problems.append("%s: q[%d:%d]=%r but node prints %r" % (path, a, b, q[a:b], body))
        a2, b2 = n.span(head_tail=True)
        if _norm_numerals(q[a2:b2]) != _norm_numerals(full):
            problems.append("%s: widened q[%d:%d]=%r but node prints %r" % (path, a2, b2, q[a2:b2], full))
        prev = a2
        for c in n.children:
            if c.pos is None:
                continue
            c0, c1 = c.span(head_tail=True)
            if c0 < prev or c1 > b2:
                problems.append("%s: child span (%d,%d) outside/overlapping in (%d,%d)" % (path, c0, c1, a2, b2))
            prev = c1
    return {"violated": bool(problems), "observation": "; ".join(problems[:4]) or "all nodes located"}


def c04(req):
    from luqum.parser import parser
    from luqum.exceptions import ParseError
    from luqum import tree
    q = req["query"]
    try:
        t = parser.parse(q)
    except ParseError as e:
        return {"violated": False, "observation": "ParseError: %s" % e}
    except Exception as e:  # noqa: BLE001
        return {"violated": True, "observation": "parse(%r) raised %s: %s" % (q, type(e).__name__, e)}
    if not isinstance(t, tree.Item):
        return {"violated": True, "observation": "parse(%r) returned %r" % (q, t)}
    return {"violated": False, "observation": "returned a tree"}


def c04seq(req):
    """history independence: each query parsed after the others must give what a first parse gives"""
    import subprocess, os
    from luqum.parser import parser
    import luqum.thread as TH

    def outcome(fn, q):
        try:
            t = fn(q)
        except Exception as e:  # noqa: BLE001
            return "%s: %s" % (type(e).__name__, e)
        return "%r / %r / %r" % (t, t.__str__(head_tail=True) if t is not None else None,
                                 [(n.pos, n.size) for _, n in walk(t)] if t is not None else None)
    qs = req["queries"]
    ref = {}
    for q in qs:
        r = subprocess.run([sys.executable, "-c",
                            "import sys,json\nsys.path.insert(0, %r)\nimport native_replay as n\n"
                            "from luqum.parser import parser\n"
                            "q=json.load(sys.stdin)\n"
                            "def f(q):\n"
                            "    try:\n        t=parser.parse(q)\n"
                            "    except Exception as e:\n        return '%%s: %%s' %% (type(e).__name__, e)\n"
                            "    return '%%r / %%r / %%r' %% (t, t.__str__(head_tail=True) if t is not None else None, "
                            "[(m.pos, m.size) for _, m in n.walk(t)] if t is not None else None)\n"
                            "print(json.dumps(f(q)))" % os.path.dirname(os.path.abspath(__file__))],
                           input=json.dumps(q), capture_output=True, text=True, env=os.environ)
        ref[q] = json.loads(r.stdout)
    for fn_name, fn in (("parser.parse", parser.parse), ("thread.parse", TH.parse)):
        for pre in ["  ", "x  ", "(a ", "a^.", "\\"] + qs:
            for q in qs:
                outcome(fn, pre)
                o = outcome(fn, q)
                if o != ref[q]:
                    return {"violated": True, "observation": "%s(%r) after %s(%r) gave %s; a first parse gives %s"
                            % (fn_name, q, fn_name, pre, o, ref[q])}
    return {"violated": False, "observation": "same outcomes as first parses"}


def script(req):
    """generic: run a python snippet that sets `violated` and `observation`"""
    ns = {}
    try:
        exec(req["code"], ns)
    except Exception as e:  # noqa: BLE001  the statement was not even evaluable: the library raised
        tb = traceback.extract_tb(e.__traceback__)
        where = [f for f in tb if "luqum" in (f.filename or "")]
        if not where:
            raise
        return {"violated": True, "observation": "raised %s: %s (at %s:%d)" % (type(e).__name__, e, where[-1].filename, where[-1].lineno)}
    return {"violated": bool(ns.get("violated")), "observation": str(ns.get("observation"))}


KINDS = {"C01": c01, "C02": c02, "C04": c04, "C04seq": c04seq, "script": script}


def main():
    req = json.load(sys.stdin)
    try:
        out = KINDS[req["kind"]](req)
    except Exception as e:  # noqa: BLE001
        out = {"violated": None, "observation": "replay harness error: %r\n%s" % (e, traceback.format_exc())}
    json.dump(out, sys.stdout)


if __name__ == "__main__":
    main()
