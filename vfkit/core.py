"""Case runner, obligation discharge (z3 primary, cvc5 CLI second opinion), verdicts, evidence."""
import json
import multiprocessing as mp
import os
import subprocess
import sys
import tempfile
import time
import traceback

import z3

from . import sym
from .sym import EngineUnsupported, SymBool

VERIF = os.path.dirname(os.path.dirname(os.path.abspath(__file__)))
Z3_TIMEOUT_MS = int(os.environ.get("VF_Z3_TIMEOUT_MS", "30000"))
CVC5_TIMEOUT_S = int(os.environ.get("VF_CVC5_TIMEOUT_S", "60"))
CVC5 = "/usr/bin/cvc5"

PROVED, REFUTED, UNDECIDED, KNOWN = "proved", "refuted", "undecided", "known-finding"


def exc_desc(e):
    """printable description of an exception whose message may be symbolic"""
    a = e.args[0] if e.args else ""
    return "%s: %s" % (type(e).__name__, a if isinstance(a, str) else "<symbolic message>")


class Case:
    """one arranged pre-state family of one function under contract.
    run(ctx) executes the real code on it and returns [(obligation name, goal)]."""

    def __init__(self, key, run, functions=(), group=None, info=None, expect_paths_min=1, canary=False,
                 fallback=None):
        self.key = key
        self.run = run
        self.functions = list(functions)
        self.group = group or key.split("/")[0]
        self.info = info or {}
        self.expect_paths_min = expect_paths_min
        self.canary = canary
        # fallback(): cases that together cover this one with abstract sub-terms unfolded one level (each class of
        # the typing set, children abstract); used only when this case is outside the engine's reach
        self.fallback = fallback


def _structured(v, depth=0):
    """z3 value -> JSON-able python value (datatype values as {'cls', 'args'}, sequences as lists)"""
    if depth > 12:
        return None
    if z3.is_string_value(v):
        return _decode_z3_string(v.as_string())
    if z3.is_int_value(v):
        return v.as_long()
    if z3.is_true(v):
        return True
    if z3.is_false(v):
        return False
    if z3.is_rational_value(v):
        return str(v)
    if z3.is_app(v):
        k = v.decl().kind()
        if k == z3.Z3_OP_SEQ_EMPTY:
            return []
        if k == z3.Z3_OP_SEQ_UNIT:
            return [_structured(v.arg(0), depth + 1)]
        if k == z3.Z3_OP_SEQ_CONCAT:
            out = []
            for i in range(v.num_args()):
                x = _structured(v.arg(i), depth + 1)
                out.extend(x if isinstance(x, list) else [x])
            return out
        name = v.decl().name()
        if name.startswith("FP_"):
            return {"cls": name[3:], "args": [_structured(v.arg(i), depth + 1) for i in range(v.num_args())]}
    return str(v)


def _model_value(m, term):
    try:
        v = m.eval(term, model_completion=True)
    except z3.Z3Exception:
        return None
    try:
        if z3.is_app(v) and (v.decl().name().startswith("FP_") or z3.is_seq(v)) and not z3.is_string(v):
            return _structured(v)
    except Exception:
        pass
    try:
        if z3.is_string_value(v):
            return v.as_string()
        if z3.is_int_value(v):
            return v.as_long()
        if z3.is_true(v):
            return True
        if z3.is_false(v):
            return False
        if z3.is_rational_value(v):
            return str(v)
    except Exception:
        pass
    return str(v)


def _decode_z3_string(s):
    # z3 escapes non-printable chars as \u{..}
    import re
    return re.sub(r"\\u\{([0-9a-fA-F]+)\}", lambda m: chr(int(m.group(1), 16)), s)


def cvc5_check(smt2, timeout_s=CVC5_TIMEOUT_S):
    """returns 'sat' | 'unsat' | 'unknown'"""
    with tempfile.NamedTemporaryFile("w", suffix=".smt2", delete=False) as f:
        f.write("(set-logic ALL)\n" + smt2 + "\n(check-sat)\n")
        path = f.name
    try:
        r = subprocess.run([CVC5, "--lang=smt2", "--strings-exp", "--tlimit=%d" % (timeout_s * 1000), path],
                           capture_output=True, text=True, timeout=timeout_s + 10)
        out = r.stdout.strip().splitlines()
        for line in out:
            if line.strip() in ("sat", "unsat", "unknown"):
                return line.strip()
        return "unknown"
    except Exception:
        return "unknown"
    finally:
        os.unlink(path)


KNOWN_FINDINGS = []      # entries of known_findings.json: {id, property, obligation (regex), excuse, what}


def load_known_findings():
    global KNOWN_FINDINGS
    path = os.path.join(VERIF, "known_findings.json")
    KNOWN_FINDINGS = []
    if os.path.exists(path):
        with open(path) as f:
            data = json.load(f)
        KNOWN_FINDINGS = [e for e in data.get("findings", []) if e.get("status", "open") == "open"]
    return KNOWN_FINDINGS


def _excuse_term(src, symbols):
    ns = {"len": z3.Length, "And": z3.And, "Or": z3.Or, "Not": z3.Not, "Contains": z3.Contains,
          "StringVal": z3.StringVal, "PrefixOf": z3.PrefixOf, "SuffixOf": z3.SuffixOf}
    def search(sym_term, pattern):
        """the strings in which re.search(pattern) succeeds"""
        import re as _re
        from . import ext
        return z3.InRe(sym_term, ext.SymPattern(_re.compile(pattern)).contains_re())
    ns["search"] = search
    ns.update(symbols)
    try:
        t = eval(src, {"__builtins__": {}}, ns)  # noqa: S307  (committed file, own syntax)
    except NameError:
        return None
    if isinstance(t, bool):
        t = z3.BoolVal(t)
    return t


def apply_known_findings(d, pc, late, goal, symbols, name):
    """a refuted obligation is re-asked with the negation of every applicable excuse added: unsat => the
    failure is covered by known findings (those whose excuse is still satisfiable together with the
    failure are reported); sat => a violation outside all excuses, with that model."""
    import re as _re
    entries = [e for e in KNOWN_FINDINGS if e.get("excuse") and _re.search(e["obligation"], name)]
    if not entries:
        return d
    terms = []
    for e in entries:
        t = _excuse_term(e["excuse"], symbols)
        if t is not None:
            terms.append((e, t))
    if not terms:
        return d
    if isinstance(goal, SymBool):
        goal = goal.t
    if isinstance(goal, bool):
        goal = z3.BoolVal(goal)
    s = z3.Solver()
    s.set("timeout", Z3_TIMEOUT_MS)
    for c in list(pc) + list(late):
        s.add(c)
    s.add(z3.Not(goal))
    active = []
    for e, t in terms:
        s.push()
        s.add(t)
        if s.check() == z3.sat:
            active.append(e["id"])
        s.pop()
    for e, t in terms:
        s.add(z3.Not(t))
    r = s.check()
    if r == z3.unsat and active:
        d = dict(d)
        d["status"] = KNOWN
        d["known"] = active
        return d
    if r == z3.sat:
        m = s.model()
        model = {}
        for nm, term in symbols.items():
            v = _model_value(m, term)
            if isinstance(v, str):
                v = _decode_z3_string(v)
            model[nm] = v
        d = dict(d)
        d["model"] = model
        d["outside_excuses"] = [e["id"] for e, _ in terms]
        return d
    if r == z3.unknown:
        d = dict(d)
        d["status"] = UNDECIDED
        d["reason"] = "solver unknown while separating known findings"
    return d


def discharge(pc, late, goal, symbols, want_cvc5_confirm=False):
    """decide  pc (and late) |= goal.  Returns dict(status, backend, secs, model, stage)"""
    t0 = time.time()
    if isinstance(goal, SymBool):
        goal = goal.t
    if isinstance(goal, bool):
        if goal:
            return {"status": PROVED, "backend": "concrete", "secs": 0.0, "model": None, "stage": 0}
        # a concrete False on this path: the path condition must be unsatisfiable for the obligation to hold
        goal = z3.BoolVal(False)
    neg = z3.Not(goal)

    from . import relang
    allf = list(pc) + list(late) + [neg]
    lem = relang.lemmas_for(allf)
    # string variables constrained only by regex membership are abstracted exactly (equisatisfiable): z3's regex
    # solver does not cope with Unicode-sized character classes
    pairs, clauses, re_witness = relang.exact_abstraction(allf)

    def sub(c):
        return z3.substitute(c, *pairs) if pairs else c

    def ask(extra):
        s = z3.Solver()
        s.set("timeout", Z3_TIMEOUT_MS)
        for c in pc:
            s.add(sub(c))
        for c in extra:
            s.add(sub(c))
        for c in lem + clauses:
            s.add(sub(c))
        s.add(sub(neg))
        r = s.check()
        return s, r

    s, r = ask([])
    stage = 1
    if r != z3.unsat and late:
        s, r = ask(late)
        stage = 2
    backend = "z3"
    if r == z3.unknown:
        rc = cvc5_check(s.to_smt2().replace("(check-sat)", ""))
        backend = "cvc5"
        if rc == "unsat":
            r = z3.unsat
        elif rc == "sat":
            # no model read-back from the CLI: ask z3 once more with a longer budget for a model
            s.set("timeout", Z3_TIMEOUT_MS * 4)
            r2 = s.check()
            r = r2 if r2 == z3.sat else "sat-nomodel"
    elif r == z3.unsat and want_cvc5_confirm:
        rc = cvc5_check(s.to_smt2().replace("(check-sat)", ""))
        if rc == "sat":
            return {"status": "solver-disagreement", "backend": "z3+cvc5", "secs": time.time() - t0,
                    "model": None, "stage": stage}
        if rc == "unsat":
            backend = "z3+cvc5"
    secs = time.time() - t0
    if r == z3.unsat:
        return {"status": PROVED, "backend": backend, "secs": secs, "model": None, "stage": stage}
    if r == z3.sat:
        m = s.model()
        model = {}
        for name, term in symbols.items():
            v = _model_value(m, term)
            if isinstance(v, str):
                v = _decode_z3_string(v)
            model[name] = v
        if pairs:
            model.update(re_witness(m))
        return {"status": REFUTED, "backend": backend, "secs": secs, "model": model, "stage": stage,
                "smt2": s.to_smt2()[:20000]}
    if r == "sat-nomodel":
        return {"status": REFUTED, "backend": backend, "secs": secs, "model": None, "stage": stage,
                "smt2": s.to_smt2()[:20000]}
    return {"status": UNDECIDED, "backend": backend, "secs": secs, "model": None, "stage": stage,
            "reason": "solver unknown (z3: %s; cvc5: unknown)" % s.reason_unknown()}


def _raised_in_code_under_contract(e):
    """the innermost frame of the traceback is in the repository's own source (not in the engine, a contract or a proxy)"""
    from . import loader
    tb = e.__traceback__
    frames = []
    while tb is not None:
        frames.append(tb)
        tb = tb.tb_next
    hooks = os.path.join(os.path.dirname(os.path.abspath(__file__)), "rewrite.py")
    while frames and os.path.abspath(frames[-1].tb_frame.f_code.co_filename) == hooks:
        frames.pop()          # the redirect hooks are identity on concrete operands: the raising operation is the caller's
    if not frames:
        return None
    last = frames[-1]
    fn = os.path.abspath(last.tb_frame.f_code.co_filename)
    root = os.path.abspath(loader.REPO) + os.sep
    if fn.startswith(root):
        return "%s:%d" % (fn[len(root):], last.tb_lineno)
    return None


def _guarded(case):
    """an exception that the code under contract itself raises on an arranged pre-state (and that the contract module does not
    expect) is program behaviour: it fails the obligation `no exception escapes`, it is not a checker crash"""
    def run(c):
        try:
            return case.run(c)
        except Exception as e:  # noqa: BLE001  (EngineUnsupported / PathStop are BaseExceptions and pass through)
            where = _raised_in_code_under_contract(e)
            if where is None:
                raise
            return [(case.key + "/no-unexpected-exception-escapes-the-code-under-contract", (False, {"exception": exc_desc(e), "raised_at": where}))]
    return run


def run_case(case, confirm=False, sample_vc=False):
    """explore all paths of a case, discharge every obligation.  Returns a picklable dict."""
    t0 = time.time()
    records = []
    npaths = 0
    nqueries = 0
    skipped = 0
    err = None
    sample = None
    sym.CASE_DEADLINE[0] = time.time() + sym.CASE_BUDGET_S
    try:
        for pr in sym.explore(_guarded(case)):
            npaths += 1
            nqueries += pr.nqueries
            skipped += len(pr.skipped)
            for name, goal in pr.obligations:
                extra = None
                if isinstance(goal, tuple):
                    goal, extra = goal
                d = discharge(pr.pc, pr.late, goal, pr.symbols, want_cvc5_confirm=confirm)
                if d["status"] == REFUTED and not case.canary:
                    d = apply_known_findings(d, pr.pc, pr.late, goal, pr.symbols, name)
                d["case"] = case.key
                d["obligation"] = name
                d["path"] = "".join("T" if b else "F" for b in pr.trace)
                if extra:
                    d["extra"] = extra
                if d["status"] != PROVED:
                    d["pc"] = [str(c) for c in pr.pc][:60]
                    d["notes"] = {k: str(v)[:2000] for k, v in pr.notes.items() if k.startswith("replay")}
                    d["replay_info"] = pr.notes.get("replay_info")
                elif sample is None and sample_vc and not isinstance(goal, bool):
                    sample = {"obligation": name, "path": d["path"], "pc": [str(c) for c in pr.pc][:20],
                              "goal": str(goal)[:1500]}
                records.append(d)
    except EngineUnsupported as e:
        err = "unsupported: %s" % (e,)
        tb = traceback.format_exc()
        err += "\n" + "".join(tb.splitlines(True)[-8:])
    except Exception as e:  # noqa: BLE001  checker crash, reported as such (exit 3)
        err = "crash: %r\n%s" % (e, traceback.format_exc())
    return {"case": case.key, "group": case.group, "paths": npaths, "queries": nqueries, "skipped": skipped,
            "records": records, "error": err, "secs": time.time() - t0, "sample": sample,
            "canary": case.canary, "expect_paths_min": case.expect_paths_min}


_CASES = None


def _worker(i):
    case, confirm = _CASES[i]
    try:
        return run_case(case, confirm=confirm, sample_vc=True)
    except BaseException as e:  # noqa: BLE001
        return {"case": case.key, "group": case.group, "paths": 0, "queries": 0, "skipped": 0, "records": [],
                "error": "crash: %r\n%s" % (e, traceback.format_exc()), "secs": 0.0, "sample": None,
                "canary": case.canary, "expect_paths_min": case.expect_paths_min}


def _dead(case, why):
    return {"case": case.key, "group": case.group, "paths": 0, "queries": 0, "skipped": 0, "records": [],
            "error": "crash: %s" % why, "secs": 0.0, "sample": None, "canary": case.canary,
            "expect_paths_min": case.expect_paths_min}


def run_cases(cases, confirm=False, procs=None):
    """run the cases; a case that is outside the engine's reach because the code looks inside an abstract sub-term
    is replaced by its fallback family (the sub-term unfolded one level, per class)"""
    results = _run_cases(cases, confirm, procs)
    out = []
    extra = []
    for c, r in zip(cases, results):
        if r["error"] and r["error"].startswith("unsupported") and "abstract node" in r["error"] and c.fallback:
            fam = c.fallback()
            extra.append((c, r, fam))
        else:
            out.append(r)
    for c, r, fam in extra:
        sub = _run_cases(fam, confirm, procs)
        for s_ in sub:
            s_["unfolded_from"] = c.key
        out.extend(sub)
    return out


def _run_cases(cases, confirm=False, procs=None):
    """run cases in a fork pool (z3 terms live in the child; results are plain data).  A worker that dies
    (solver segfault) must never hang the run: the unfinished cases are re-run one per fresh process and the one
    that kills its process is reported as a checker failure for that case."""
    global _CASES
    from concurrent.futures import ProcessPoolExecutor
    from concurrent.futures.process import BrokenProcessPool
    _CASES = [(c, confirm) for c in cases]
    procs = procs or int(os.environ.get("VF_PROCS", "0")) or min(16, os.cpu_count() or 4)
    n = len(cases)
    if n == 0:
        return []
    ctxm = mp.get_context("fork")
    results = [None] * n
    todo = list(range(n))
    try:
        with ProcessPoolExecutor(max_workers=min(procs, n), mp_context=ctxm) as ex:
            futs = {i: ex.submit(_worker, i) for i in todo}
            for i, f in futs.items():
                try:
                    results[i] = f.result()
                except BrokenProcessPool:
                    pass
                except Exception as e:  # noqa: BLE001
                    results[i] = _dead(cases[i], "worker error %r" % (e,))
    except BrokenProcessPool:
        pass
    left = [i for i in range(n) if results[i] is None]
    for i in left:
        try:
            with ProcessPoolExecutor(max_workers=1, mp_context=ctxm) as ex:
                results[i] = ex.submit(_worker, i).result(timeout=1800)
        except BrokenProcessPool:
            results[i] = _dead(cases[i], "the worker process died while deciding this case (solver crash)")
        except Exception as e:  # noqa: BLE001
            results[i] = _dead(cases[i], "worker error %r" % (e,))
    return results


def parallel_map(fn, items, procs=None):
    """generic fork pool for bounded enumerations; fn must be a module-level function"""
    procs = procs or int(os.environ.get("VF_PROCS", "0")) or min(16, os.cpu_count() or 4)
    if procs <= 1 or len(items) <= 1:
        return [fn(x) for x in items]
    ctxm = mp.get_context("fork")
    with ctxm.Pool(procs) as pool:
        return pool.map(fn, items, chunksize=1)
