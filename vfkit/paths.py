"""Index paths and sets of paths (C15-C17): SymPath wraps a z3 Seq(Int), SymSet a z3 Set(Seq(Int)).
Python tuples of ints are the concrete counterpart; mixed operations build terms."""
import z3

from .sym import EngineUnsupported, Proxy, SymBool, SymInt, I, ctx, fresh, Ctx

PATH = z3.SeqSort(z3.IntSort())
PSET = z3.SetSort(PATH)


def P(x):
    """z3 Seq(Int) term of a path-like"""
    if isinstance(x, SymPath):
        return x.t
    if isinstance(x, (tuple, list)):
        if not x:
            return z3.Empty(PATH)
        parts = [z3.Unit(I(i)) for i in x]
        return parts[0] if len(parts) == 1 else z3.Concat(*parts)
    raise EngineUnsupported("not a path: %r" % (type(x),))


class SymPath(Proxy):
    __slots__ = ()
    __hash__ = Proxy.__hash__

    def __init__(self, t=None, name="path"):
        if t is None:
            nm = fresh(name)
            t = z3.Const(nm, PATH)
            if Ctx.cur is not None:
                Ctx.cur.register(nm, t)
        self.t = t

    def __add__(self, o):
        if isinstance(o, (tuple, SymPath)):
            if isinstance(o, tuple) and not o:
                return self
            return SymPath(z3.Concat(self.t, P(o)))
        return NotImplemented

    def __radd__(self, o):
        if isinstance(o, tuple):
            if not o:
                return self
            return SymPath(z3.Concat(P(o), self.t))
        return NotImplemented

    def __getitem__(self, i):
        n = z3.Length(self.t)
        if isinstance(i, slice):
            if i.step is not None:
                self._loud("slice step")
            if i.start is None and i.stop == -1:
                return SymPath(z3.simplify(z3.If(n > 0, z3.Extract(self.t, 0, n - 1), z3.Empty(PATH))))
            if i.stop is None and isinstance(i.start, int) and i.start >= 0:
                k = i.start
                return SymPath(z3.simplify(z3.If(n > k, z3.Extract(self.t, k, n - k), z3.Empty(PATH))))
            self._loud("slice %r" % (i,))
        if isinstance(i, int) and not isinstance(i, bool):
            idx = z3.IntVal(i) if i >= 0 else n + i
            if not ctx().decide(z3.And(idx >= 0, idx < n)):
                raise IndexError("tuple index out of range")
            return SymInt(self.t[idx])
        self._loud("getitem")

    def __bool__(self):
        return ctx().decide(z3.Length(self.t) > 0)

    def __eq__(self, o):
        if isinstance(o, (tuple, SymPath)):
            try:
                return SymBool(self.t == P(o))
            except EngineUnsupported:
                return False
        return False

    def __ne__(self, o):
        r = self.__eq__(o)
        return SymBool(z3.Not(r.t)) if isinstance(r, SymBool) else True

    def __vf_len__(self):
        return SymInt(z3.Length(self.t))

    def __vf_isinstance__(self, T):
        ts = T if isinstance(T, tuple) else (T,)
        return any(t in (tuple, object) for t in ts)


class SymSet:
    """a set of paths.  Mutable like a python set (add/update rebind the term)."""
    __vf_symbolic__ = True

    def __getattr__(self, k):
        if k.startswith("__") and k.endswith("__"):
            raise AttributeError(k)
        raise EngineUnsupported("%s.%s is not modelled" % (type(self).__name__, k))

    def __init__(self, t=None, name="paths"):
        if t is None:
            nm = fresh(name)
            t = z3.Const(nm, PSET)
            if Ctx.cur is not None:
                Ctx.cur.register(nm, t)
        self.t = t

    @staticmethod
    def empty():
        return SymSet(z3.EmptySet(PATH))

    def __vf_contains__(self, k):
        return SymBool(z3.IsMember(P(k), self.t))

    def __contains__(self, k):
        return bool(self.__vf_contains__(k))

    def add(self, k):
        self.t = z3.SetAdd(self.t, P(k))

    def update(self, other):
        self.t = z3.SetUnion(self.t, S_(other))

    def __or__(self, other):
        return SymSet(z3.SetUnion(self.t, S_(other)))

    def __sub__(self, other):
        return SymSet(z3.SetDifference(self.t, S_(other)))

    def __iter__(self):
        raise EngineUnsupported("iteration over a symbolic set")

    def __len__(self):
        raise EngineUnsupported("len of a symbolic set")

    def __bool__(self):
        raise EngineUnsupported("truth value of a symbolic set")

    def __hash__(self):
        raise EngineUnsupported("hash of a symbolic set")


def S_(x):
    if isinstance(x, SymSet):
        return x.t
    if getattr(x, "_sym", None) is not None:
        return x._sym.t
    if isinstance(x, (set, frozenset)):
        t = z3.EmptySet(PATH)
        for k in x:
            t = z3.SetAdd(t, P(k))
        return t
    raise EngineUnsupported("not a set of paths: %r" % (type(x),))


class RecDict:
    """a dict whose keys may be symbolic: records writes in order; reads are loud (the code under contract only
    writes to it).  `base_nonempty` is the truth value before any recorded write."""
    __vf_symbolic__ = True

    def __init__(self, base_nonempty=False):
        self.writes = []
        self.base_nonempty = base_nonempty

    def __setitem__(self, k, v):
        self.writes.append((k, v))

    def __bool__(self):
        return bool(self.writes) or self.base_nonempty

    def __getitem__(self, k):
        raise EngineUnsupported("read of a recording dict")

    def __getattr__(self, k):
        if k.startswith("__") and k.endswith("__"):
            raise AttributeError(k)
        raise EngineUnsupported("RecDict.%s is not modelled" % k)
