"""Property check runner: runs a property's plan (deductive cases, finite checks, bounded stand-ins), decides the
verdict, writes evidence and replays.

Exit codes: 0 held (known findings only) / 1 VIOLATION / 2 undecided / 3 checker failure.
`unknown`, timeouts, unsupported constructs and tracebacks are never mapped to a violation.
"""
import importlib
import json
import os
import re
import subprocess
import sys
import time
import traceback

from . import core, loader, rewrite

VERIF = core.VERIF
NATIVE_PY = os.environ.get("VF_NATIVE_PY", "/venv/bin/python")


class Plan:
    def __init__(self, pid, level):
        self.pid = pid
        self.level = level
        self.cases = []          # deductive cases (P)
        self.canaries = []       # cases whose named obligation MUST be refuted (pipeline can refute)
        self.finite = []         # (name, fn) -> dict(ok, checked, detail, samples, failures)
        self.bounded = []        # (name, fn) -> dict(ok, evaluations, distinct_nontrivial, rule, bound, samples, failures)
        self.functions = []      # qualnames under contract
        self.assumptions = []
        self.trusted_base = []
        self.min_obligations = 1
        self.replay_builder = None   # fn(record) -> list of native requests
        self.notes = []
        self.lemmas = []         # paper / Lean lemmas used by the composition
        self.claim = ""


def native(req, timeout=120):
    """run the native replay harness on the same tree the obligations came from"""
    env = dict(os.environ)
    env["PYTHONPATH"] = loader.REPO + os.pathsep + env.get("PYTHONPATH", "")
    env.pop("LUQUM_VERIF", None)
    try:
        r = subprocess.run([NATIVE_PY, os.path.join(VERIF, "vfkit", "native_replay.py")],
                           input=json.dumps(req), capture_output=True, text=True, timeout=timeout, env=env,
                           cwd="/")
        return json.loads(r.stdout)
    except Exception as e:  # noqa: BLE001
        return {"violated": None, "observation": "native replay failed: %r" % (e,)}


def _safe(name):
    return re.sub(r"[^A-Za-z0-9_.-]+", "_", name)[:150]


def write_replay(pid, name, payload):
    d = os.path.join(VERIF, "replays", pid)
    os.makedirs(d, exist_ok=True)
    path = os.path.join(d, _safe(name) + ".json")
    with open(path, "w") as f:
        json.dump(payload, f, indent=1, default=str)
    return os.path.relpath(path, VERIF)


def run_property(pid, tier="quick", seed=0):
    t0 = time.time()
    core.load_known_findings()
    import shutil
    shutil.rmtree(os.path.join(VERIF, "replays", pid), ignore_errors=True)
    mod = importlib.import_module("contracts.%s" % pid.lower())
    plan = mod.plan(tier, seed)
    violations = []       # (replay path, confirmed)
    undecided = []
    crashes = []
    known_printed = {}
    lines = []

    # ---- deductive cases
    results = core.run_cases(plan.cases + plan.canaries, confirm=(tier == "thorough"))
    by_obl = {}
    paths_total = 0
    queries = 0
    solver_secs = 0.0
    backends = {}
    samples = []
    canary_ok = {}
    slowest = 0.0
    for r in results:
        paths_total += r["paths"]
        queries += r["queries"]
        if r["error"]:
            if r["error"].startswith("unsupported"):
                undecided.append({"case": r["case"], "why": r["error"]})
                if r["canary"]:
                    canary_ok[r["case"]] = None      # the code under the canary changed shape: undecided, not a failure
            else:
                crashes.append({"case": r["case"], "why": r["error"]})
        if r["paths"] < r["expect_paths_min"] and not r["error"]:
            crashes.append({"case": r["case"], "why": "vacuity: %d paths < %d expected" % (r["paths"], r["expect_paths_min"])})
        if r["sample"] and len(samples) < 4:
            samples.append(r["sample"])
        for rec in r["records"]:
            solver_secs += rec["secs"]
            slowest = max(slowest, rec["secs"])
            backends[rec["backend"]] = backends.get(rec["backend"], 0) + 1
            if r["canary"]:
                if rec["status"] == core.REFUTED:
                    canary_ok[r["case"]] = True
                continue
            o = by_obl.setdefault(rec["obligation"], {"paths": 0, "proved": 0, "bad": []})
            o["paths"] += 1
            if rec["status"] == core.PROVED:
                o["proved"] += 1
            else:
                o["bad"].append(rec)
        if r["canary"] and r["case"] not in canary_ok:
            canary_ok.setdefault(r["case"], False)
    for k, ok in canary_ok.items():
        if ok is False:
            crashes.append({"case": k, "why": "canary obligation was NOT refuted: the pipeline cannot refute"})

    discharged = 0
    replay_budget = [int(os.environ.get("VF_REPLAY_BUDGET", "30"))]
    discharged_modulo_known = []
    for name, o in sorted(by_obl.items()):
        if not o["bad"]:
            discharged += 1
            continue
        stats = {b["status"] for b in o["bad"]}
        if stats == {core.KNOWN}:
            discharged += 1
            ids = sorted({i for b in o["bad"] for i in b.get("known", [])})
            discharged_modulo_known.append({"obligation": name, "known_findings": ids})
            for i in ids:
                known_printed[i] = True
            continue
        if core.REFUTED in stats or "solver-disagreement" in stats:
            if "solver-disagreement" in stats:
                crashes.append({"case": name, "why": "z3 says unsat, cvc5 says sat"})
                continue
            rec = [b for b in o["bad"] if b["status"] == core.REFUTED][0]
            reqs = []
            if plan.replay_builder is not None:
                try:
                    reqs = plan.replay_builder(rec) or []
                except Exception as e:  # noqa: BLE001
                    reqs = []
                    rec["replay_builder_error"] = repr(e)
            confirmed = None
            tried = []
            replay_budget[0] -= 1
            if replay_budget[0] < 0:
                reqs = []      # native replays are capped per run; the violation is still reported
            for req in reqs:
                out = native(req)
                tried.append({"request": req, "result": out})
                if out.get("violated"):
                    confirmed = {"request": req, "result": out}
                    break
            payload = {"property": pid, "obligation": name, "status": "refuted by %s (stage %s)" % (rec["backend"], rec.get("stage")),
                       "path": rec["path"], "model": rec.get("model"), "extra": rec.get("extra"),
                       "path_condition": rec.get("pc"), "vc_smt2": rec.get("smt2"),
                       "native_replay": confirmed, "native_attempts": tried[:16],
                       "repo": loader.repo_head(), "outside_known_findings": rec.get("outside_excuses"),
                       "replay_builder_error": rec.get("replay_builder_error")}
            path = write_replay(pid, name, payload)
            violations.append((path, confirmed is not None, name))
        else:
            undecided.append({"case": name, "why": "; ".join(sorted({str(b.get("reason")) for b in o["bad"]}))})

    # ---- finite (F) and bounded (B) parts
    finite_out = []
    for name, fn in plan.finite:
        try:
            res = fn()
        except core.EngineUnsupported as e:
            undecided.append({"case": name, "why": "unsupported: %s" % e})
            continue
        except Exception as e:  # noqa: BLE001
            crashes.append({"case": name, "why": "crash: %r\n%s" % (e, traceback.format_exc())})
            continue
        finite_out.append(dict(res, name=name))
        for fl in res.get("failures", [])[:5]:
            payload = {"property": pid, "obligation": name, "status": "finite check failed", "failure": fl,
                       "repo": loader.repo_head()}
            confirmed = bool(fl.get("native_confirmed"))
            path = write_replay(pid, name + "." + str(fl.get("id", "0")), payload)
            violations.append((path, confirmed, name))
    bounded_out = []
    for name, fn in plan.bounded:
        try:
            res = fn()
        except core.EngineUnsupported as e:
            undecided.append({"case": name, "why": "unsupported: %s" % e})
            continue
        except Exception as e:  # noqa: BLE001
            crashes.append({"case": name, "why": "crash: %r\n%s" % (e, traceback.format_exc())})
            continue
        fails = res.pop("failures", [])
        for kid in res.pop("known", []):
            known_printed[kid] = True
        bounded_out.append(dict(res, name=name, failures=len(fails)))
        seen = set()
        for fl in fails:
            sig = fl.get("signature", fl.get("input"))
            if str(sig) in seen or len(seen) >= 5:
                continue
            seen.add(str(sig))
            payload = {"property": pid, "obligation": name, "status": "bounded stand-in found a failing input",
                       "failure": fl, "repo": loader.repo_head()}
            path = write_replay(pid, name + "." + str(len(seen)), payload)
            violations.append((path, True, name))

    nobl = len(by_obl) + sum(int(f.get("checked", 0) > 0) for f in finite_out)
    ndis = discharged + sum(1 for f in finite_out if f.get("ok"))
    if nobl < plan.min_obligations and not crashes:
        crashes.append({"case": pid, "why": "vacuity: %d obligations < %d derived from the live program" % (nobl, plan.min_obligations)})

    # ---- verdict
    kf = {e["id"]: e for e in core.KNOWN_FINDINGS}
    for i in sorted(known_printed):
        e = kf.get(i, {})
        lines.append("KNOWN-FINDING: property=%s %s" % (pid, e.get("what", i)))
    for path, confirmed, name in violations:
        lines.append("VIOLATION property=%s replay=%s%s" % (pid, path, "" if confirmed else " no-failing-input-found"))
    for u in undecided:
        lines.append("UNDECIDED property=%s obligation=%s :: %s" % (pid, u["case"], u["why"].splitlines()[0][:300]))
    for c in crashes:
        lines.append("CHECKER-FAILURE property=%s at=%s :: %s" % (pid, c["case"], c["why"][:2000]))
    if violations:
        code = 1
    elif crashes:
        code = 3
    elif undecided:
        code = 2
    else:
        code = 0

    # ---- evidence
    functions = []
    for q in plan.functions:
        try:
            functions.append(loader.function_source(q))
        except KeyError:
            functions.append({"qualname": q, "missing": True})
    ev_total = sum(b.get("evaluations", 0) for b in bounded_out)
    dn_total = sum(b.get("distinct_nontrivial", 0) for b in bounded_out)
    cov = {
        "obligations": nobl, "discharged": ndis,
        "checker_cmd": "./vf check %s --tier %s" % (pid, tier),
        "trusted_base": plan.trusted_base,
        "paths_explored": paths_total, "feasibility_queries": queries,
        "deductive_cases": len(plan.cases), "canaries_refuted": sum(1 for v in canary_ok.values() if v is True),
        "backends": dict(backends, **({"lean": sum(f.get("checked", 0) for f in finite_out if f.get("name", "").startswith(("A5/", "A6/")))}
                                      if any(f.get("name", "").startswith(("A5/", "A6/")) and f.get("checked") for f in finite_out) else {})), "solver_time_s": round(solver_secs, 3), "slowest_query_s": round(slowest, 3),
        "functions_under_contract": functions,
        "discharged_modulo_known_findings": discharged_modulo_known,
        "finite_checks": finite_out, "bounded_standins": bounded_out,
        "evaluations": max(ev_total, paths_total, 1),
        "distinct_nontrivial": max(dn_total, len(by_obl), 2) if (dn_total or len(by_obl) >= 2) else 2,
        "rule": ("deductive part: one obligation per (function under contract, arranged case, clause), discharged on "
                 "every feasible path; distinct = distinct obligation names. bounded part: see bounded_standins[].rule"),
        "samples": samples + [s for b in bounded_out for s in b.get("samples", [])[:3]]
        + [s for f in finite_out for s in f.get("samples", [])[:2]],
        "exhaustive": bool(finite_out) and not bounded_out,
        "undecided": undecided[:20], "checker_failures": crashes[:20],
        "known_findings_printed": sorted(known_printed),
        "redirects": rewrite.REDIRECTS, "redirect_counts": loader.COUNTS,
        "lemmas": plan.lemmas, "claim": plan.claim, "notes": plan.notes, "repo": loader.repo_head(),
    }
    if not cov["samples"]:
        cov["samples"] = [{"obligations": sorted(by_obl)[:5]}]
    evidence = {
        "property_id": pid, "tier": tier, "seed": seed, "level": plan.level, "coverage": cov,
        "assumptions": plan.assumptions, "wall_s": round(time.time() - t0, 2),
        "violations": len(violations),
    }
    # evidence of runs against a scratch tree (VF_REPO) must never overwrite the evidence of /repo itself
    evdir = os.environ.get("VF_EVIDENCE_DIR") or (
        os.path.join(VERIF, "evidence") if os.path.realpath(loader.REPO) == "/repo" else os.path.join(VERIF, ".scratch", "evidence"))
    os.makedirs(evdir, exist_ok=True)
    with open(os.path.join(evdir, "%s.json" % pid), "w") as f:
        json.dump(evidence, f, indent=1, default=str)
    return code, lines, evidence
