"""Abstract subtrees (AbsNode), operand runs (Run) and the structural fingerprint sort FP.

FP is an algebraic datatype with one constructor per concrete node class of luqum.tree; its fields are the
*spec list* of meaning-bearing attributes written from the statement of C09 (value / name / inclusiveness /
degree / force) plus the children's fingerprints.  It is independent of Item._equality_attrs.
Equality of FP terms is an equivalence relation, which is how reflexivity / symmetry / transitivity of
tree equality follow from the per-class contract  a == b  <=>  FP(a) = FP(b).
"""
import z3

from . import loader
from .sym import EngineUnsupported, Proxy, SymBool, SymInt, SymStr, S, T, B, ctx, fresh, Ctx

loader.install()
import luqum.tree as tree  # noqa: E402  (instrumented working tree)

# spec table: class name -> ordered fields; kinds: str, bool, num, child, ops
SPEC = {
    "NoneItem": [],
    "Word": [("value", "str")], "Phrase": [("value", "str")], "Regex": [("value", "str")],
    "Term": [("value", "str")], "BaseGroup": [("expr", "child")],     # instantiable, printable base classes
    "SearchField": [("name", "str"), ("expr", "child")],
    "Group": [("expr", "child")], "FieldGroup": [("expr", "child")],
    "Range": [("include_low", "bool"), ("include_high", "bool"), ("low", "child"), ("high", "child")],
    "Fuzzy": [("degree", "num"), ("term", "child")], "Proximity": [("degree", "num"), ("term", "child")],
    "Boost": [("force", "num"), ("expr", "child")],
    "BoolOperation": [("operands", "ops")], "UnknownOperation": [("operands", "ops")],
    "OrOperation": [("operands", "ops")], "AndOperation": [("operands", "ops")],
    "Plus": [("a", "child")], "Not": [("a", "child")], "Prohibit": [("a", "child")],
    "From": [("include", "bool"), ("a", "child")], "To": [("include", "bool"), ("a", "child")],
}


def live_universe():
    """node classes of the live module (A7): every subclass of Item defined in luqum.tree that is a leaf of the
    class hierarchy, plus the base classes that can be instantiated and printed on their own (Term, BaseGroup:
    they have a spec entry).  A leaf class missing from SPEC makes arrangement impossible => undecided."""
    out = []
    todo = [tree.Item]
    seen = set()
    while todo:
        c = todo.pop()
        if c in seen:
            continue
        seen.add(c)
        subs = [s for s in c.__subclasses__() if s.__module__ == tree.__name__]
        todo.extend(subs)
        if c is not tree.Item and (not subs or c.__name__ in SPEC):
            out.append(c)
    out.sort(key=lambda c: c.__name__)
    for c in out:
        if c.__name__ not in SPEC:
            raise EngineUnsupported("node class %s has no spec entry (A7): cannot arrange" % c.__name__)
    return out


_SORTS = {"str": "String", "bool": "Bool", "num": "Real", "child": "FP", "ops": "(Seq FP)"}


def _build_fp():
    ctors = []
    for cname, fields in SPEC.items():
        fs = " ".join("(%s_%s %s)" % (cname, f, _SORTS[k]) for f, k in fields)
        ctors.append("(FP_%s %s)" % (cname, fs) if fs else "(FP_%s)" % cname)
    src = "(declare-datatypes ((FP 0)) ((%s)))\n(declare-const w FP)\n(assert (= w w))" % " ".join(ctors)
    f = z3.parse_smt2_string(src)
    return f[0].arg(0).sort()


FP = _build_fp()
FPSeq = z3.SeqSort(FP)
CTOR = {}
RECOG = {}
ACC = {}
for _i, _cname in enumerate(SPEC):
    CTOR[_cname] = FP.constructor(_i)
    RECOG[_cname] = FP.recognizer(_i)
    for _j, (_f, _k) in enumerate(SPEC[_cname]):
        ACC[(_cname, _f)] = FP.accessor(_i, _j)

UNIVERSE = live_universe()
CLASS_BY_NAME = {c.__name__: c for c in UNIVERSE}


def classes_under(Tcls):
    ts = Tcls if isinstance(Tcls, tuple) else (Tcls,)
    return [c for c in UNIVERSE if any(isinstance(t, type) and issubclass(c, t) for t in ts)]


def is_class(fp, classes):
    names = [c.__name__ if isinstance(c, type) else c for c in classes]
    if not names:
        return z3.BoolVal(False)
    return z3.Or([RECOG[n](fp) for n in names]) if len(names) > 1 else RECOG[names[0]](fp)


def num_term(x):
    """z3 Real of a degree/force value"""
    import decimal
    from . import ext
    if isinstance(x, (ext.SymNum, ext.SymFloat)):
        return x.val
    if isinstance(x, SymInt):
        return z3.ToReal(x.t)
    if isinstance(x, SymReal):
        return x.t
    if isinstance(x, bool):
        raise EngineUnsupported("bool as degree")
    if isinstance(x, int):
        return z3.RealVal(x)
    if isinstance(x, decimal.Decimal):
        return z3.RealVal(format(x, "f"))
    if isinstance(x, float):
        return z3.RealVal(format(decimal.Decimal(x), "f"))
    raise EngineUnsupported("numeric attribute %r" % type(x))


class SymReal(Proxy):
    """a symbolic Decimal/number attribute (degree, force) of hand-built trees"""
    __slots__ = ()
    __hash__ = Proxy.__hash__

    def __init__(self, t=None, name="r"):
        if t is None:
            nm = fresh(name)
            t = z3.Real(nm)
            if Ctx.cur is not None:
                Ctx.cur.register(nm, t)
        self.t = t

    def __eq__(self, o):
        try:
            return SymBool(self.t == num_term(o))
        except EngineUnsupported:
            if isinstance(o, Proxy):
                raise
            return False

    def __ne__(self, o):
        r = self.__eq__(o)
        return SymBool(z3.Not(r.t)) if isinstance(r, SymBool) else True

    def __lt__(self, o):
        return SymBool(self.t < num_term(o))

    def __getattr__(self, k):
        if k.startswith("__") and k.endswith("__"):
            raise AttributeError(k)
        raise EngineUnsupported("number method .%s is not modelled" % k)

    def __vf_str__(self):
        return SymStr(z3.Function("num_str", z3.RealSort(), z3.StringSort())(self.t))

    def __vf_float__(self):
        from . import ext
        return ext.SymFloat(self.t)

    def __vf_pct_d__(self):
        return SymStr(z3.Function("num_str_d", z3.RealSort(), z3.StringSort())(self.t))

    def __vf_format__(self, spec=""):
        if spec == "":
            return self.__vf_str__()
        if spec == "f":
            # every str()/format() of a number is "a spelling" (one abstraction; real spellings: bounded C01-N)
            return SymStr(z3.Function("num_str", z3.RealSort(), z3.StringSort())(self.t))
        raise EngineUnsupported("format(SymReal, %r)" % spec)

    def __vf_Decimal__(self):
        return self

    def normalize(self, *a):
        return self

    def __vf_isinstance__(self, T):
        import decimal
        ts = T if isinstance(T, tuple) else (T,)
        return any(isinstance(t, type) and issubclass(decimal.Decimal, t) for t in ts)

    def __bool__(self):
        return ctx().decide(self.t != 0)


fp_depth = None


def _depth_fn():
    global fp_depth
    if fp_depth is None:
        fp_depth = z3.Function("fp_depth", FP, z3.IntSort())
    return fp_depth


def fp_of(x):
    """FP term of a tree whose leaves may be AbsNodes (the spec function of C09).
    Finite trees are well founded: the depth of a node exceeds the depth of each child.  z3 does not enforce
    acyclicity of a datatype through sequences, so this fact is asserted explicitly for every built term."""
    if isinstance(x, AbsNode):
        return x.fp
    t = _fp_of(x)
    c = Ctx.cur
    if c is not None and type(x).__name__ in SPEC:
        d = _depth_fn()
        for f, k in SPEC[type(x).__name__]:
            v = getattr(x, f)
            if k == "child":
                c.assume(d(t) > d(fp_of(v)))
            elif k == "ops":
                for o in v:
                    if isinstance(o, Run):
                        c.assume(d(t) > o.depth.t)
                    else:
                        c.assume(d(t) > d(fp_of(o)))
    return t


def _fp_of(x):
    cname = type(x).__name__
    if type(x) not in UNIVERSE:
        raise EngineUnsupported("fp_of(%s)" % cname)
    args = []
    for f, k in SPEC[cname]:
        v = getattr(x, f)
        if k == "str":
            args.append(S(v))
        elif k == "bool":
            args.append(B(v))
        elif k == "num":
            args.append(num_term(v))
        elif k == "child":
            args.append(fp_of(v))
        else:
            args.append(fpseq_of(v))
    return CTOR[cname](*args)


def fpseq_of(operands):
    parts = []
    for o in operands:
        if isinstance(o, Run):
            parts.append(o.fpseq)
        else:
            parts.append(z3.Unit(fp_of(o)))
    if not parts:
        return z3.Empty(FPSeq)
    if len(parts) == 1:
        return parts[0]
    return z3.Concat(*parts)


def log_write(obj, attr, old, new):
    c = Ctx.cur
    if c is not None:
        c.log.append(("write", obj, attr, old, new))


class AbsNode(tree.Item):
    """an arbitrary subtree, observable only through the contracts established for every class:
    print contract (C01-T): __str__(head_tail) = head + core + tail / core;
    equality contract (C09-E): a == b  <=>  fp(a) = fp(b)."""
    __vf_symbolic__ = True
    _vf_internal = ("vf_name", "fp", "core", "vf_ghost", "vf_frozen")

    def __init__(self, name, layout="sym", classes=None, head=None, tail=None):
        d = self.__dict__
        d["vf_name"] = name
        d["fp"] = z3.Const(fresh(name + "_fp"), FP)
        d["core"] = SymStr(name=name + "_core")
        d["vf_ghost"] = {}
        d["vf_frozen"] = False
        if layout == "sym":
            d["pos"] = SymInt(name=name + "_pos")
            d["size"] = SymInt(name=name + "_size")
            d["head"] = SymStr(name=name + "_head") if head is None else head
            d["tail"] = SymStr(name=name + "_tail") if tail is None else tail
        elif layout == "none":
            d["pos"] = None
            d["size"] = None
            d["head"] = "" if head is None else head
            d["tail"] = "" if tail is None else tail
        else:
            raise ValueError(layout)
        c = Ctx.cur
        if c is not None:
            c.register(name + "_fp", d["fp"])
        if classes is not None:
            ctx().assume(is_class(d["fp"], classes))

    def __setattr__(self, k, v):
        old = self.__dict__.get(k, tree._MARKER)
        log_write(self, k, old, v)
        self.__dict__[k] = v

    def __getattr__(self, k):
        # only reached when normal lookup fails
        raise EngineUnsupported("attribute %r of abstract node %s" % (k, self.__dict__.get("vf_name")))

    @property
    def children(self):
        raise EngineUnsupported("children of abstract node %s" % self.vf_name)

    @children.setter
    def children(self, v):
        raise EngineUnsupported("children= on abstract node %s" % self.vf_name)

    def __str__(self, head_tail=False):
        return self._head_tail(self.core, head_tail)

    def __repr__(self):
        return "<AbsNode %s>" % self.vf_name

    def __eq__(self, other):
        if other is self:
            return True
        if isinstance(other, tree.Item):
            return SymBool(self.fp == fp_of(other))
        if isinstance(other, Proxy):
            raise EngineUnsupported("AbsNode == proxy")
        return False

    def __ne__(self, other):
        r = self.__eq__(other)
        if isinstance(r, SymBool):
            return SymBool(z3.Not(r.t))
        return not r

    __hash__ = object.__hash__

    def __vf_isinstance__(self, Tcls):
        ts = Tcls if isinstance(Tcls, tuple) else (Tcls,)
        if any(t is object or t is tree.Item for t in ts):
            return True
        cl = classes_under(tuple(t for t in ts if isinstance(t, type)))
        return ctx().decide(is_class(self.fp, cl))

    def __vf_type__(self):
        c = ctx()
        for cls in UNIVERSE[:-1]:
            if c.decide(RECOG[cls.__name__](self.fp)):
                return cls
        c.assume(RECOG[UNIVERSE[-1].__name__](self.fp))
        return UNIVERSE[-1]

    LEAF_CLASSES = ("Word", "Phrase", "Regex", "Term")

    def clone_item(self, **kw):
        """contract of Item.clone_item (C09-K, proved per class): a fresh node of the same class with the same layout
        (overridden by head / tail / pos / size keywords) whose children are placeholders - so only for childless
        classes is it equal to, and printed like, the original; otherwise nothing is known of its text"""
        extra = set(kw) - {"head", "tail", "pos", "size"}
        if extra:
            raise EngineUnsupported("clone_item of abstract node with %s" % sorted(extra))
        r = AbsNode(self.vf_name + "_clone", layout="none")
        d = r.__dict__
        for k in ("head", "tail", "pos", "size"):
            d[k] = kw[k] if k in kw else self.__dict__[k]
        c = ctx()
        for cls in UNIVERSE:
            c.assume(RECOG[cls.__name__](r.fp) == RECOG[cls.__name__](self.fp))
        leaf = is_class(self.fp, list(self.LEAF_CLASSES))
        c.assume(z3.Implies(leaf, z3.And(r.fp == self.fp, r.core.t == S(self.core))))
        return r


class Run(tree.Item):
    """ONE pseudo-element standing for a non-empty run of operands of an operation with operator `op`.
    Answers only the observers for which a lifting lemma exists (lemmas/Seq.lean): join (L-J), fingerprint
    sequence (L-M), length (L-S); loud on anything else."""
    __vf_symbolic__ = True
    __vf_run__ = True

    def __init__(self, name, op):
        d = self.__dict__
        d["vf_name"] = name
        d["op"] = op
        d["jointext"] = SymStr(name=name + "_jointext")      # intercalate op (map text run)
        d["fpseq"] = z3.Const(fresh(name + "_fpseq"), FPSeq)
        ctx().register(name + "_fpseq", d["fpseq"])
        d["count"] = SymInt(name=name + "_count")
        d["depth"] = SymInt(name=name + "_depth")     # upper bound of the members' depths
        ctx().assume(d["count"].t >= 1)
        ctx().assume(z3.Length(d["fpseq"]) == d["count"].t)

    def __getattr__(self, k):
        if k in ("head", "tail"):
            return RunLayout(self, k)
        raise EngineUnsupported("Run attribute %r" % k)

    def __setattr__(self, k, v):
        # uniform update of every member: x.head = P + x.head  /  x.tail = x.tail + S   (recorded as ghost)
        if k in ("head", "tail") and isinstance(v, RunLayoutUpdate) and v.run is self and v.attr == k:
            key = "%s_%s" % (k, v.side)
            if key in self.__dict__.setdefault("updates", {}):
                raise EngineUnsupported("second uniform update of Run.%s" % k)
            self.__dict__["updates"][key] = v.text
            log_write(self, k, None, v)
            return
        raise EngineUnsupported("write to Run attribute %r" % k)

    def __str__(self, head_tail=False):
        if not head_tail:
            raise EngineUnsupported("Run printed without head_tail")
        return RunText(self)

    def generic_member(self):
        """an arbitrary member of the run (L-M): what a stateless loop body does to it, it does to every member"""
        g = self.__dict__.get("generic")
        if g is None:
            g = AbsNode(self.vf_name + "_member", layout="sym")
            self.__dict__["generic"] = g
            self.__dict__["generic_pre"] = {k: g.__dict__[k] for k in ("head", "tail", "pos", "size")}
        return g

    def __eq__(self, o):
        """L-Z: two runs of equal length are pointwise equal iff their fingerprint sequences are equal"""
        if o is self:
            return True
        if not isinstance(o, Run):
            raise EngineUnsupported("Run == non-run (operand shapes not aligned)")
        c = ctx()
        s = z3.Solver()
        for p in c.pc:
            s.add(p)
        s.add(self.count.t != o.count.t)
        if s.check() != z3.unsat:
            raise EngineUnsupported("Run == Run without equal lengths on the path")
        return SymBool(self.fpseq == o.fpseq)

    __hash__ = object.__hash__


class RunLayout:
    """head (or tail) of the members of a run, only usable in the uniform updates P + head / tail + S"""
    __vf_symbolic__ = True

    def __getattr__(self, k):
        if k.startswith("__") and k.endswith("__"):
            raise AttributeError(k)
        raise EngineUnsupported("%s.%s is not modelled" % (type(self).__name__, k))

    def __init__(self, run, attr):
        self.run = run
        self.attr = attr

    def __radd__(self, o):
        if self.attr == "head" and isinstance(o, (str, SymStr)):
            return RunLayoutUpdate(self.run, "head", "prefix", o)
        raise EngineUnsupported("Run.%s used outside a uniform update" % self.attr)

    def __add__(self, o):
        if self.attr == "tail" and isinstance(o, (str, SymStr)):
            return RunLayoutUpdate(self.run, "tail", "suffix", o)
        raise EngineUnsupported("Run.%s used outside a uniform update" % self.attr)

    def __bool__(self):
        raise EngineUnsupported("truth value of Run.%s" % self.attr)

    def __str__(self):
        raise EngineUnsupported("Run.%s used outside a uniform update" % self.attr)


class RunLayoutUpdate:
    __vf_symbolic__ = True

    def __getattr__(self, k):
        if k.startswith("__") and k.endswith("__"):
            raise AttributeError(k)
        raise EngineUnsupported("%s.%s is not modelled" % (type(self).__name__, k))

    def __init__(self, run, attr, side, text):
        self.run, self.attr, self.side, self.text = run, attr, side, text


class RunText:
    """text of a Run: only meaningful as an element of a join with the run's own operator (L-J)"""
    __vf_symbolic__ = True

    def __getattr__(self, k):
        if k.startswith("__") and k.endswith("__"):
            raise AttributeError(k)
        raise EngineUnsupported("%s.%s is not modelled" % (type(self).__name__, k))

    def __init__(self, run):
        self.run = run

    def __vf_join_piece__(self, sep):
        if not (isinstance(sep, str) and sep == self.run.op):
            raise EngineUnsupported("Run joined with a separator other than its operator")
        ups = self.run.__dict__.get("updates")
        g = self.run.__dict__.get("generic")
        if g is not None and any(g.__dict__[k] is not v for k, v in self.run.__dict__["generic_pre"].items()):
            # members were updated through the generic member: the run's text is a function of the old text
            # and of the member-wise update (here: of the new generic head/tail)
            f = z3.Function("run_text_memberwise", z3.StringSort(), z3.StringSort(), z3.StringSort(), z3.StringSort())
            return SymStr(f(self.run.jointext.t, S(g.head), S(g.tail)))
        if ups:
            # text of the run after a uniform head/tail update: a function of the old text and the inserted text
            t = self.run.jointext.t
            for k in sorted(ups):
                t = z3.Function("run_text_" + k, z3.StringSort(), z3.StringSort(), z3.StringSort())(t, S(ups[k]))
            return SymStr(t)
        return self.run.jointext

    def __add__(self, o):
        raise EngineUnsupported("Run text used outside a join")

    __radd__ = __add__

    def __str__(self):
        raise EngineUnsupported("Run text used outside a join")


class RunTuple(tuple):
    """operand tuple that contains a Run: len() is symbolic"""
    __vf_symbolic__ = True

    def __vf_len__(self):
        n = 0
        sym = None
        for x in self:
            if isinstance(x, Run):
                sym = x.count if sym is None else sym + x.count
            else:
                n += 1
        return n if sym is None else sym + n


from . import rewrite as _rewrite  # noqa: E402
_rewrite.RUN_TUPLE[0] = RunTuple


def text(x):
    """text(x) = x.__str__(head_tail=True) for items; head+value+tail for token values"""
    r = x.__str__(head_tail=True)
    if not isinstance(r, (str, SymStr)):
        raise EngineUnsupported("__str__ returned %s" % type(r).__name__)
    return r


def body(x):
    r = x.__str__()
    if not isinstance(r, (str, SymStr)):
        raise EngineUnsupported("__str__ returned %s" % type(r).__name__)
    return r


def make_instance(cls, name, layout="sym", implicit=False, nops=2, child_classes=None, child_layout=None,
                  from_string=False):
    """a concrete instance of a node class with symbolic attributes and abstract children.
    layout 'sym': parsed-tree case (symbolic head/tail/pos/size); 'none': hand-built (None/None/""/"").
    implicit: Fuzzy/Proximity/Boost built without an explicit degree/force.
    nops: 0, 1, 2, or 3 (= x0, x1, RUN+) / -3 (= RUN+, x0, x1) operands for operations."""
    cname = cls.__name__
    if cname not in SPEC:
        raise EngineUnsupported("cannot arrange an instance of %s" % cname)
    child_layout = child_layout or layout
    kw = {}
    if layout == "sym":
        kw = dict(pos=SymInt(name=name + "_pos"), size=SymInt(name=name + "_size"),
                  head=SymStr(name=name + "_head"), tail=SymStr(name=name + "_tail"))
    args = {}
    kids = []
    for f, k in SPEC[cname]:
        if k == "str":
            args[f] = SymStr(name="%s_%s" % (name, f))
        elif k == "bool":
            b = z3.Bool(fresh("%s_%s" % (name, f)))
            ctx().register("%s_%s" % (name, f), b)
            args[f] = SymBool(b)
        elif k == "num":
            if implicit:
                args[f] = None
            elif from_string:
                # as the parser builds it: the numeral is passed as the string matched by the lexer
                from . import ext
                n = SymStr(name="%s_%s" % (name, f))
                ctx().assume(z3.InRe(n.t, ext.INT_OK_UNSIGNED if cname == "Proximity" else ext.DECIMAL_OK_UNSIGNED))
                args[f] = n
            elif cname == "Proximity":
                args[f] = SymInt(name="%s_%s" % (name, f))
            else:
                args[f] = SymReal(name="%s_%s" % (name, f))
        elif k == "child":
            ch = AbsNode("%s_%s" % (name, f), layout=child_layout, classes=child_classes)
            args[f] = ch
            kids.append(ch)
        elif k == "ops":
            n = abs(nops)
            ops = [AbsNode("%s_x%d" % (name, i), layout=child_layout, classes=child_classes) for i in range(min(n, 2))]
            if n == 3:
                run = Run(name + "_run", cls.op)
                ops = ops + [run] if nops > 0 else [run] + ops
            kids.extend(ops)
            args[f] = ops
    if cname == "NoneItem":
        return tree.NONE_ITEM, []
    if "operands" in args:
        inst = cls(*args["operands"], **kw)
        if any(isinstance(o, Run) for o in inst.operands):
            inst.operands = RunTuple(inst.operands)
    elif cname in ("Word", "Term"):
        inst = cls(args["value"], **kw)
    elif cname == "Phrase":
        inner = args["value"]
        inst = cls('"' + inner + '"', **kw)
    elif cname == "Regex":
        inst = cls("/" + args["value"] + "/", **kw)
    elif cname == "SearchField":
        inst = cls(args["name"], args["expr"], **kw)
    elif cname in ("Group", "FieldGroup", "BaseGroup"):
        inst = cls(args["expr"], **kw)
    elif cname == "Range":
        inst = cls(args["low"], args["high"], args["include_low"], args["include_high"], **kw)
    elif cname in ("Fuzzy", "Proximity", "Boost"):
        # arranging an existing node: its constructor has returned, so its numeral did not overflow
        from . import ext
        ext.ARRANGING += 1
        try:
            inst = cls(args["term"], args["degree"], **kw) if cname != "Boost" else cls(args["expr"], args["force"], **kw)
        finally:
            ext.ARRANGING -= 1
    elif cname in ("Plus", "Not", "Prohibit"):
        inst = cls(args["a"], **kw)
    elif cname in ("From", "To"):
        inst = cls(args["a"], args["include"], **kw)
    else:
        raise EngineUnsupported("no constructor recipe for %s" % cname)
    return inst, kids


class FrameViolation(Exception):
    """a location declared irrelevant by a contract (read frame) was used"""


class PoisonValue:
    """value of an attribute that the function under contract must not read: any use violates the read frame"""
    __vf_symbolic__ = True

    def __init__(self, what):
        object.__setattr__(self, "_what", what)

    def _boom(self, *a, **k):
        raise FrameViolation("read of %s" % object.__getattribute__(self, "_what"))

    __eq__ = __ne__ = __bool__ = __add__ = __radd__ = __len__ = __iter__ = __lt__ = __gt__ = __le__ = __ge__ = _boom
    __sub__ = __rsub__ = __str__ = __int__ = __index__ = __contains__ = __getitem__ = __call__ = _boom
    __hash__ = _boom

    def __getattr__(self, k):
        self._boom()

    def __repr__(self):
        return "<poison %s>" % object.__getattribute__(self, "_what")


def poison_layout(node, name):
    for k in ("head", "tail", "pos", "size"):
        node.__dict__[k] = PoisonValue("%s.%s" % (name, k))
    node.__dict__["_luqum_name"] = PoisonValue("%s._luqum_name" % name)


def _run_enumerate(rt, start=0):
    """enumerate over an operand tuple that contains a Run: the Run gets the index of its first member; the
    elements after it get symbolic indices (L-S)"""
    i = start
    for x in rt:
        yield i, x
        if isinstance(x, Run):
            i = i + x.count
        else:
            i = i + 1


RunTuple.__vf_enumerate__ = lambda self, *a: _run_enumerate(self, *a)
