"""Uniform-loop obligation (DESIGN 2.5): a loop may process a Run (a non-empty run of operands) as ONE element only
if its body carries no local state between iterations.  Decided syntactically on the real source: a name is
loop-carried if the body may read it before (re)assigning it in the same iteration, or updates it in place."""
import ast

from . import loader


def _find_function(qualname):
    parts = qualname.split(".")
    for i in range(len(parts), 0, -1):
        mod = ".".join(parts[:i])
        if mod in loader.TREES:
            node = loader.TREES[mod]
            for p in parts[i:]:
                for ch in node.body:
                    if isinstance(ch, (ast.FunctionDef, ast.ClassDef)) and ch.name == p:
                        node = ch
                        break
                else:
                    raise KeyError(qualname)
            return node
    raise KeyError(qualname)


class _Order(ast.NodeVisitor):
    """records Load/Store events of plain names in evaluation order (approximation: source order, value before
    target for assignments)"""

    def __init__(self):
        self.events = []

    def visit_Assign(self, n):
        self.visit(n.value)
        for t in n.targets:
            self.visit(t)

    def visit_AugAssign(self, n):
        if isinstance(n.target, ast.Name):
            self.events.append(("aug", n.target.id))
        self.visit(n.value)
        self.visit(n.target)

    def visit_Name(self, n):
        self.events.append(("load" if isinstance(n.ctx, ast.Load) else "store", n.id))

    def visit_For(self, n):
        self.visit(n.iter)
        self.visit(n.target)
        for s in n.body + n.orelse:
            self.visit(s)


def loop_carried(qualname, ordinal=0):
    """names carried between iterations of the ordinal-th `for` loop of the function"""
    fn = _find_function(qualname)
    loops = [n for n in ast.walk(fn) if isinstance(n, ast.For)]
    loops.sort(key=lambda n: (n.lineno, n.col_offset))
    loop = loops[ordinal]
    o = _Order()
    o.visit(loop.target)
    for s in loop.body:
        o.visit(s)
    stored = {n for k, n in o.events if k in ("store", "aug")}
    carried = set()
    seen_store = set()
    for k, n in o.events:
        if k == "aug":
            carried.add(n)
        elif k == "load" and n in stored and n not in seen_store:
            carried.add(n)
        elif k == "store":
            seen_store.add(n)
    # conditional stores: a name stored only inside an if/try in the body and loaded later may see the previous
    # iteration's value -> treat stores nested under control flow as not definitely assigning
    definite = set()
    for s in loop.body:
        if isinstance(s, ast.Assign):
            for t in s.targets:
                for nn in ast.walk(t):
                    if isinstance(nn, ast.Name):
                        definite.add(nn.id)
    for nn in ast.walk(loop.target):
        if isinstance(nn, ast.Name):
            definite.add(nn.id)
    for s in loop.body:
        for inner in ast.walk(s):
            if isinstance(inner, ast.For):     # a nested loop variable is assigned before its body reads it
                for nn in ast.walk(inner.target):
                    if isinstance(nn, ast.Name):
                        definite.add(nn.id)
    for k, n in o.events:
        if k == "load" and n in stored and n not in definite:
            carried.add(n)
    return sorted(carried), loop.lineno


def check(loops):
    """F-obligation: [(qualname, ordinal)] all carry no local state"""
    fails = []
    samples = []
    for q, i in loops:
        try:
            carried, line = loop_carried(q, i)
        except (KeyError, IndexError):
            fails.append({"id": "%s#%d" % (q, i), "loop": q, "problem": "loop not found in the current source"})
            continue
        samples.append({"loop": "%s#%d (line %d)" % (q, i, line), "loop_carried_locals": carried})
        if carried:
            fails.append({"id": "%s#%d" % (q, i), "loop": q, "carried": carried})
    return {"ok": not fails, "checked": len(loops), "failures": fails, "samples": samples[:4],
            "detail": "loops that process a Run as one element carry no local state between iterations"}
