"""Bounded stand-ins run the UNMODIFIED repository code in the repository's own interpreter (no proxies, no
rewrite), on every input of a stated finite scope.  They are labelled bounded and never counted as proved."""
import json
import os
import subprocess

from . import core, loader

NATIVE_PY = os.environ.get("VF_NATIVE_PY", "/venv/bin/python")


def known_for(pid, name):
    return [e for e in core.KNOWN_FINDINGS if e.get("property") == pid and e.get("bounded") == name]


def run_native(script, payload, timeout=3600):
    """run /verif/bounded/<script>.py natively; payload/result are JSON"""
    env = dict(os.environ)
    env["PYTHONPATH"] = loader.REPO + os.pathsep + core.VERIF
    env["PYTHONDONTWRITEBYTECODE"] = "1"
    r = subprocess.run([NATIVE_PY, os.path.join(core.VERIF, "bounded", script + ".py")],
                       input=json.dumps(payload), capture_output=True, text=True, timeout=timeout, env=env, cwd="/")
    if r.returncode != 0:
        raise RuntimeError("bounded script %s failed (%d): %s" % (script, r.returncode, r.stderr[-3000:]))
    return json.loads(r.stdout)
