"""Loads luqum.* from the current working tree of the repository (VF_REPO, default /repo), instrumented
in memory by rewrite.Rewrite.  The repository is never written: ply.yacc.yacc is wrapped with
write_tables=False, debug=False so that a changed grammar regenerates its tables in memory only; when the
signature matches, the cached parsetab.py is used exactly as in production.
"""
import ast
import hashlib
import importlib.abc
import importlib.util
import os
import sys

from . import rewrite

REPO = os.environ.get("VF_REPO", "/repo")

SOURCES = {}      # module name -> source text
TREES = {}        # module name -> original ast
COUNTS = {}       # module name -> redirect counts
_installed = False


class Finder(importlib.abc.MetaPathFinder, importlib.abc.Loader):
    def find_spec(self, name, path, target=None):
        if name != "luqum" and not name.startswith("luqum."):
            return None
        rel = name.split(".")
        base = os.path.join(REPO, *rel)
        if os.path.isdir(base):
            return importlib.util.spec_from_file_location(
                name, os.path.join(base, "__init__.py"), loader=self, submodule_search_locations=[base])
        if os.path.isfile(base + ".py"):
            return importlib.util.spec_from_file_location(name, base + ".py", loader=self)
        return None

    def create_module(self, spec):
        return None

    def exec_module(self, module):
        path = module.__spec__.origin
        with open(path, encoding="utf-8") as f:
            src = f.read()
        name = module.__name__
        SOURCES[name] = src
        tree = ast.parse(src, filename=path)
        TREES[name] = ast.parse(src, filename=path)
        if not name.endswith(".parsetab"):
            rw = rewrite.Rewrite(name)
            tree = rw.visit(tree)
            ast.fix_missing_locations(tree)
            COUNTS[name] = rw.count
        module.__dict__.update(rewrite.HOOKS)
        code = compile(tree, path, "exec", dont_inherit=True)
        exec(code, module.__dict__)


def install():
    """make `import luqum` resolve to the instrumented working tree (idempotent)"""
    global _installed
    if _installed:
        return
    for k in list(sys.modules):
        if k == "luqum" or k.startswith("luqum."):
            del sys.modules[k]
    sys.meta_path.insert(0, Finder())
    import ply.yacc as yacc
    if not getattr(yacc.yacc, "_vf_wrapped", False):
        orig = yacc.yacc

        def yacc_nowrite(*a, **k):
            k["write_tables"] = False
            k["debug"] = False
            k.setdefault("errorlog", yacc.NullLogger())
            if "module" not in k:
                k["module"] = sys.modules[sys._getframe(1).f_globals["__name__"]]
            return orig(*a, **k)
        yacc_nowrite._vf_wrapped = True
        yacc_nowrite._vf_orig = orig
        yacc.yacc = yacc_nowrite
    sys.dont_write_bytecode = True
    _installed = True


def function_source(qualname):
    """(file, first line, last line, sha256) of a function/class given 'luqum.mod.Class.func'"""
    parts = qualname.split(".")
    for i in range(len(parts), 0, -1):
        mod = ".".join(parts[:i])
        if mod in TREES:
            node = TREES[mod]
            rest = parts[i:]
            break
    else:
        raise KeyError(qualname)
    for p in rest:
        for child in ast.walk(node) if False else node.body:
            if isinstance(child, (ast.FunctionDef, ast.ClassDef, ast.AsyncFunctionDef)) and child.name == p:
                node = child
                break
        else:
            raise KeyError(qualname)
    seg = ast.get_source_segment(SOURCES[mod], node) or ""
    path = os.path.join(REPO, *mod.split(".")) + ".py"
    return {"qualname": qualname, "file": path, "lines": [node.lineno, node.end_lineno],
            "sha256": hashlib.sha256(seg.encode()).hexdigest()}


def repo_head():
    import subprocess
    try:
        h = subprocess.run(["git", "-C", REPO, "rev-parse", "HEAD"], capture_output=True, text=True).stdout.strip()
        d = subprocess.run(["git", "-C", REPO, "status", "--porcelain"], capture_output=True, text=True).stdout
        return {"head": h, "dirty": bool(d.strip())}
    except Exception:
        return {"head": None, "dirty": None}
