"""re-check of the lifting lemmas for operand runs (lemmas/Seq.lean, assumption A5) with the installed Lean 4 (core library only)"""
import os
import re
import shutil
import subprocess

HERE = os.path.dirname(os.path.dirname(os.path.abspath(__file__)))
THEOREMS = ["joinWith_append", "joinWith_cons", "map_append'", "length_append'", "length_map'", "map_eq_iff_forall", "forall_of_generic",
            "map_generic", "any_append'", "all_append'"]
ALLOWED_AXIOMS = {"propext", "Quot.sound", "Classical.choice"}


def lemma_check():
    path = os.path.join(HERE, "lemmas", "Seq.lean")
    src = open(path).read()
    lean = shutil.which("lean")
    if lean is None:
        # not a verdict about luqum: the lemmas then stay a paper assumption (A5), said so in the evidence
        return {"ok": True, "checked": 0, "failures": [], "exhaustive": False, "samples": [{"lean": "not found on PATH"}],
                "detail": "Lean not available: lifting lemmas L-J / L-M / L-S / L-Z remain assumed (A5)"}
    missing = [t for t in THEOREMS if not re.search(r"theorem\s+%s(?![\w'])" % re.escape(t), src)]
    if missing or "sorry" in src or re.search(r"^\s*axiom\b", src, re.M):
        raise RuntimeError("lemmas/Seq.lean is incomplete: missing %s / sorry / axiom" % missing)
    r = subprocess.run([lean, path], capture_output=True, text=True, timeout=600, cwd=os.path.dirname(path))
    out = r.stdout + r.stderr
    if r.returncode != 0 or "error" in out:
        raise RuntimeError("Lean rejected lemmas/Seq.lean:\n" + out[-2000:])
    used = set()
    for m in re.finditer(r"depends on axioms: \[([^\]]*)\]", out):
        used |= {a.strip() for a in m.group(1).split(",") if a.strip()}
    bad = used - ALLOWED_AXIOMS
    if bad:
        raise RuntimeError("lifting lemmas depend on non-standard axioms %s" % sorted(bad))
    ver = subprocess.run([lean, "--version"], capture_output=True, text=True).stdout.strip()
    return {"ok": True, "checked": len(THEOREMS), "failures": [], "exhaustive": True,
            "samples": [{"lean": ver, "theorems": THEOREMS, "axioms": sorted(used) or ["none"]}],
            "detail": "lemmas/Seq.lean re-checked by Lean (core library, no Mathlib, no sorry): join over appended runs, map / length / any / all over "
                      "append, pointwise equality of runs, generic member of a stateless loop"}
