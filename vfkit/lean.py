"""re-check of the lifting lemmas for operand runs (lemmas/Seq.lean, assumption A5) and of the composition lemmas
(lemmas/Compose.lean, assumption A6) with the installed Lean 4 (core library only)"""
import os
import re
import shutil
import subprocess

HERE = os.path.dirname(os.path.dirname(os.path.abspath(__file__)))
SEQ_THEOREMS = ["joinWith_append", "joinWith_cons", "map_append'", "length_append'", "length_map'", "map_eq_iff_forall", "forall_of_generic",
            "map_generic", "any_append'", "all_append'"]
ALLOWED_AXIOMS = {"propext", "Quot.sound", "Classical.choice"}


COMPOSE = {
    "L-TILE": (["tile_slice", "tile_prefix"], "segments of known lengths that tile the input are the corresponding slices"),
    "L-LEX": (["run_observation"], "an observation growing by the consumed match at every lexer step equals the whole input at the end"),
    "L-LR": (["lr_step_text", "lr_run_text", "lr_accept"], "shift / reduce steps that keep the handle's text keep the text of the configuration; "
             "on acceptance the result prints as the token texts"),
    "L-IND": (["tree_ind", "fold_eq", "pointwise_map", "fold_ind"], "a traversal whose per-class step is correct for arbitrary related results of the "
              "recursive calls is correct on every finite tree"),
    "L-CONF": (["confinement", "schedule_independent"], "steps confined to the state owned by their thread: every schedule gives each thread the "
               "state it reaches running alone"),
    "L-MARK": (["erase_append", "body_ok", "marked_head_tail", "mark_ok"], "opening element in front of the head and closing element after the tail: "
               "erasing the elements gives the original print, and the elements are properly nested"),
}


def compose_check(*names):
    """finite-check callable: Lean re-check of the named composition lemmas"""
    def run():
        theorems = [t for n in names for t in COMPOSE[n][0]]
        what = "; ".join("%s: %s" % (n, COMPOSE[n][1]) for n in names)
        return lemma_check("Compose.lean", theorems, "composition lemmas %s (A6) remain paper proofs" % ", ".join(names),
                           "lemmas/Compose.lean re-checked by Lean (core library, no Mathlib, no sorry) — " + what +
                           ".  The link between these models and the Python run stays assumed (A6 / A7 / A8).")
    return run


def lemma_check(fname="Seq.lean", theorems=None, absent=None, detail=None):
    THEOREMS = theorems or SEQ_THEOREMS
    path = os.path.join(HERE, "lemmas", fname)
    src = open(path).read()
    lean = shutil.which("lean")
    if lean is None:
        # not a verdict about luqum: the lemmas then stay a paper assumption (A5), said so in the evidence
        return {"ok": True, "checked": 0, "failures": [], "exhaustive": False, "samples": [{"lean": "not found on PATH"}],
                "detail": "Lean not available: " + (absent or "lifting lemmas L-J / L-M / L-S / L-Z remain assumed (A5)")}
    missing = [t for t in THEOREMS if not re.search(r"theorem\s+%s(?![\w'])" % re.escape(t), src)]
    if missing or "sorry" in src or re.search(r"^\s*axiom\b", src, re.M):
        raise RuntimeError("lemmas/%s is incomplete: missing %s / sorry / axiom" % (fname, missing))
    r = subprocess.run([lean, path], capture_output=True, text=True, timeout=600, cwd=os.path.dirname(path))
    out = r.stdout + r.stderr
    if r.returncode != 0 or "error" in out:
        raise RuntimeError("Lean rejected lemmas/%s:\n" % fname + out[-2000:])
    used = set()
    for m in re.finditer(r"depends on axioms: \[([^\]]*)\]", out):
        used |= {a.strip() for a in m.group(1).split(",") if a.strip()}
    bad = used - ALLOWED_AXIOMS
    if bad:
        raise RuntimeError("lifting lemmas depend on non-standard axioms %s" % sorted(bad))
    ver = subprocess.run([lean, "--version"], capture_output=True, text=True).stdout.strip()
    return {"ok": True, "checked": len(THEOREMS), "failures": [], "exhaustive": True,
            "samples": [{"lean": ver, "theorems": THEOREMS, "axioms": sorted(used) or ["none"]}],
            "detail": detail or "lemmas/Seq.lean re-checked by Lean (core library, no Mathlib, no sorry): join over appended runs, map / length / any / all over "
                      "append, pointwise equality of runs, generic member of a stateless loop"}
