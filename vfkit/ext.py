"""External functions: documented contracts for `re`, `decimal.Decimal`, `int`, `float` (assumptions A3, A4).

Nothing here is verified; each contract is listed in the evidence and exercised concretely against the
real library by the cross-check.  On concrete operands every facade calls the native operation.
"""
import decimal
import re as _re
import re._parser as _sre_parser
import re._constants as _sre_c
import sys

import z3

from .sym import EngineUnsupported, Proxy, SymBool, SymInt, SymStr, S, ctx, fresh

Z3_MAX_CHAR = 0x2FFFF

# ------------------------------------------------------------------------------------------------
# character categories from CPython's own tables
# ------------------------------------------------------------------------------------------------
_CAT_CACHE = {}


def _ranges(pred):
    out = []
    start = None
    for cp in range(0, Z3_MAX_CHAR + 1):
        ok = pred(chr(cp))
        if ok and start is None:
            start = cp
        elif not ok and start is not None:
            out.append((start, cp - 1))
            start = None
    if start is not None:
        out.append((start, Z3_MAX_CHAR))
    return out


def category_ranges(cat):
    """code point ranges (<= Z3_MAX_CHAR) of a str-pattern category, computed with the real `re`"""
    if cat not in _CAT_CACHE:
        pat = {"space": r"\s", "digit": r"\d", "word": r"\w"}[cat]
        rx = _re.compile(pat)
        _CAT_CACHE[cat] = _ranges(lambda ch: rx.match(ch) is not None)
    return _CAT_CACHE[cat]


from . import relang as RL


def class_rx(name, negate=False):
    rs = category_ranges(name)
    return RL.cset(RL.cset_not(rs) if negate else rs)


def _set_to_rx(items):
    """items of an IN node -> rx for ONE char (exact range arithmetic, no solver-side complement)"""
    negate = False
    ranges = []
    for op, av in items:
        if op is _sre_c.NEGATE:
            negate = True
        elif op is _sre_c.LITERAL:
            ranges.append((av, av))
        elif op is _sre_c.RANGE:
            ranges.append((av[0], av[1]))
        elif op is _sre_c.CATEGORY:
            name = {_sre_c.CATEGORY_SPACE: ("space", False), _sre_c.CATEGORY_NOT_SPACE: ("space", True),
                    _sre_c.CATEGORY_DIGIT: ("digit", False), _sre_c.CATEGORY_NOT_DIGIT: ("digit", True),
                    _sre_c.CATEGORY_WORD: ("word", False), _sre_c.CATEGORY_NOT_WORD: ("word", True)}.get(av)
            if name is None:
                raise EngineUnsupported("regex category %s" % av)
            rs = category_ranges(name[0])
            ranges.extend(RL.cset_not(rs) if name[1] else rs)
        else:
            raise EngineUnsupported("regex set item %s" % op)
    ranges = [(a, min(b, RL.MAXCP)) for a, b in ranges if a <= RL.MAXCP]
    merged = RL._merge(ranges)
    return RL.cset(RL.cset_not(merged) if negate else merged)


def _seq_to_rx(seq, flags, lookbehind):
    out = RL.EPS
    parts = []
    for op, av in seq:
        if op is _sre_c.LITERAL:
            parts.append(RL.cset([(av, av)]))
        elif op is _sre_c.NOT_LITERAL:
            parts.append(RL.cset(RL.cset_not(((av, av),))))
        elif op is _sre_c.ANY:
            parts.append(RL.ANY if flags & _re.DOTALL else RL.cset(RL.cset_not(((10, 10),))))
        elif op is _sre_c.IN:
            parts.append(_set_to_rx(av))
        elif op is _sre_c.BRANCH:
            parts.append(RL.alt(*[_seq_to_rx(a, flags, lookbehind) for a in av[1]]))
        elif op is _sre_c.SUBPATTERN:
            parts.append(_seq_to_rx(av[3], flags, lookbehind))
        elif op in (_sre_c.MAX_REPEAT, _sre_c.MIN_REPEAT):
            lo, hi, body = av
            r = _seq_to_rx(body, flags, lookbehind)
            parts.append(RL.loop(r, lo, None if hi is _sre_c.MAXREPEAT else hi))
        elif op is _sre_c.AT:
            raise EngineUnsupported("regex anchor inside pattern")
        elif op is _sre_c.ASSERT and av[0] == -1:
            if lookbehind == "consume":
                # SEARCH semantics only: `(?<=X)Y` found somewhere in a string <=> `XY` found somewhere (X one character)
                inner = av[1]
                if len(inner) == 1 and inner[0][0] in (_sre_c.IN, _sre_c.LITERAL, _sre_c.NOT_LITERAL):
                    parts.append(_seq_to_rx(inner, flags, lookbehind))
                    continue
                raise EngineUnsupported("regex look-behind of more than one character")
            if lookbehind == "drop":      # superset of the language
                continue
            if lookbehind == "never":     # subset: the alternative containing it never matches
                parts.append(RL.EMPTY)
                continue
            raise EngineUnsupported("regex look-behind")
        else:
            raise EngineUnsupported("regex construct %s" % op)
    for pr in reversed(parts):
        out = RL.cat(pr, out)
    return out


def regex_to_rx(pattern, flags=0, lookbehind=None):
    """(anchored_start, anchored_end, rx of the pattern body = the set of strings the pattern can consume)"""
    parsed = _sre_parser.parse(pattern, flags)
    seq = list(parsed)
    a0 = a1 = False
    if seq and seq[0][0] is _sre_c.AT and seq[0][1] in (_sre_c.AT_BEGINNING, _sre_c.AT_BEGINNING_STRING):
        a0 = True
        seq = seq[1:]
    if seq and seq[-1][0] is _sre_c.AT and seq[-1][1] is _sre_c.AT_END_STRING:
        a1 = True
        seq = seq[:-1]
    elif seq and seq[-1][0] is _sre_c.AT and seq[-1][1] is _sre_c.AT_END:
        a1 = "dollar"     # `$` also matches before a trailing newline
        seq = seq[:-1]
    return a0, a1, _seq_to_rx(seq, parsed.state.flags | flags, lookbehind)


def regex_to_z3(pattern, flags=0, lookbehind=None):
    a0, a1, rx = regex_to_rx(pattern, flags, lookbehind)
    return a0, a1, RL.to_z3(rx)


def full_language_rx(pattern, flags=0, lookbehind=None):
    return regex_to_rx(pattern, flags, lookbehind)[2]


def full_language(pattern, flags=0, lookbehind=None):
    return RL.to_z3(full_language_rx(pattern, flags, lookbehind))


def contains_rx(rx):
    return RL.cat(RL.ALL, RL.cat(rx, RL.ALL))


ALL = RL.to_z3(RL.ALL)
ANYCHAR = RL.to_z3(RL.ANY)

# ------------------------------------------------------------------------------------------------
# re facade
# ------------------------------------------------------------------------------------------------


class SymMatch:
    """result of a successful match whose groups are given by a pattern-shape analysis"""

    def __init__(self, whole, groups):
        self._whole = whole
        self._groups = groups

    def group(self, *names):
        if not names:
            return self._whole
        if len(names) != 1 or names[0] not in self._groups:
            raise EngineUnsupported("match.group%r" % (names,))
        g = self._groups[names[0]]
        return g() if callable(g) else g

    def __bool__(self):
        return True

    def __getattr__(self, k):
        raise EngineUnsupported("SymMatch.%s" % k)


def _shape(pattern, flags):
    """pattern shapes the facade understands for re.match on a string known to be in L(pattern):
       ('whole', groupname)                  one named group spanning the pattern
       ('prefix_opt', literal, groupname)    literal prefix + optional named group"""
    parsed = _sre_parser.parse(pattern, flags)
    names = {v: k for k, v in parsed.state.groupdict.items()}
    seq = list(parsed)
    if len(seq) == 1 and seq[0][0] is _sre_c.SUBPATTERN and seq[0][1][0] in names:
        return ("whole", names[seq[0][1][0]])
    lit = ""
    i = 0
    while i < len(seq) and seq[i][0] is _sre_c.LITERAL:
        lit += chr(seq[i][1])
        i += 1
    if i == len(seq) - 1 and seq[i][0] is _sre_c.MAX_REPEAT and seq[i][1][0] == 0 and seq[i][1][1] == 1:
        body = seq[i][1][2]
        if len(body) == 1 and body[0][0] is _sre_c.SUBPATTERN and body[0][1][0] in names:
            return ("prefix_opt", lit, names[body[0][1][0]])
    return None


class ReFacade:
    def __init__(self, real):
        self.__dict__["_real"] = real

    def __getattr__(self, k):
        return getattr(self._real, k)

    def compile(self, pattern, flags=0):
        return SymPattern(self._real.compile(pattern, flags))

    def match(self, pattern, s, flags=0):
        if not isinstance(s, SymStr):
            return self._real.match(pattern, s, flags)
        c = ctx()
        facts = c.notes.get("in_language", [])
        known = any(t.eq(s.t) and p == pattern for (t, p) in facts)
        if not known:
            raise EngineUnsupported("re.match on a symbolic string not known to be in the pattern's language")
        shape = _shape(pattern, flags)
        if shape is None:
            raise EngineUnsupported("re.match pattern shape")
        if shape[0] == "whole":
            # A3: the group spans the pattern and s was produced by matching the same pattern
            return SymMatch(s, {shape[1]: s})
        lit, gname = shape[1], shape[2]
        n = len(lit)
        rest = SymStr(z3.simplify(z3.SubString(s.t, n, z3.Length(s.t) - n)))

        def grp():
            # an optional group that matched nothing is None (greedy: it matches whenever it can; the
            # registered fact says s = lit ++ rest with rest in the group's language or empty)
            if c.decide(z3.Length(rest.t) == 0):
                return None
            return rest
        return SymMatch(s, {gname: grp})

    def sub(self, pattern, repl, s, *a, **k):
        if isinstance(s, SymStr):
            raise EngineUnsupported("re.sub on a symbolic string")
        return self._real.sub(pattern, repl, s, *a, **k)

    def search(self, pattern, s, flags=0):
        if isinstance(s, SymStr):
            return SymPattern(self._real.compile(pattern, flags)).search(s)
        return self._real.search(pattern, s, flags)


def known_in_language(sym_str, pattern):
    """arrangement-side: record that sym_str was produced by matching `pattern` (A3/A8)"""
    ctx().notes.setdefault("in_language", []).append((sym_str.t, pattern))


class SymPattern:
    """wrapper of a compiled pattern: native on concrete strings, InRe on symbolic ones"""

    def __init__(self, real):
        self._real = real
        self._cache = {}

    @property
    def pattern(self):
        return self._real.pattern

    @property
    def flags(self):
        return self._real.flags

    def _re(self, lookbehind=None):
        if lookbehind not in self._cache:
            self._cache[lookbehind] = regex_to_rx(self._real.pattern, self._real.flags & ~_re.UNICODE, lookbehind)
        return self._cache[lookbehind]

    def _right(self, a1):
        if a1 is True:
            return RL.EPS
        if a1 == "dollar":
            return RL.opt(RL.lit("\n"))
        return RL.ALL

    def contains_rx(self):
        try:
            a0, a1, r = self._re()
        except EngineUnsupported:
            # alternatives anchored with ^ inside a group, look-behinds: search semantics, alternative by alternative
            return self._contains_alternatives()
        return RL.cat(RL.EPS if a0 else RL.ALL, RL.cat(r, self._right(a1)))

    def _contains_alternatives(self):
        parsed = _sre_parser.parse(self._real.pattern, self._real.flags & ~_re.UNICODE)
        seq = list(parsed)
        while len(seq) == 1 and seq[0][0] is _sre_c.SUBPATTERN:
            seq = list(seq[0][1][3])
        branches = seq[0][1][1] if (len(seq) == 1 and seq[0][0] is _sre_c.BRANCH) else [seq]
        alts = []
        for alt in branches:
            alt = list(alt)
            anchored = bool(alt) and alt[0][0] is _sre_c.AT and alt[0][1] in (_sre_c.AT_BEGINNING, _sre_c.AT_BEGINNING_STRING)
            if anchored:
                alt = alt[1:]
            left = RL.EPS if anchored else RL.ALL
            if not anchored and alt and alt[0][0] is _sre_c.ASSERT_NOT and alt[0][1][0] == -1:
                # `(?<!X)Y` found somewhere (X one character) <=> Y at the very start, or after a character that is not X
                inner = list(alt[0][1][1])
                if len(inner) != 1:
                    raise EngineUnsupported("negative look-behind of more than one character")
                op, av = inner[0]
                if op is _sre_c.LITERAL:
                    notx = RL.cset(RL.cset_not(((av, av),)))
                elif op is _sre_c.NOT_LITERAL:
                    notx = RL.cset([(av, av)])
                elif op is _sre_c.IN:
                    items = list(av)
                    if any(o is _sre_c.NEGATE for o, _ in items):
                        items = [(o, a) for o, a in items if o is not _sre_c.NEGATE]
                    else:
                        items = [(_sre_c.NEGATE, None)] + items
                    notx = _set_to_rx(items)
                else:
                    raise EngineUnsupported("negative look-behind shape")
                left = RL.alt(RL.EPS, RL.cat(RL.ALL, notx))
                alt = alt[1:]
            body = _seq_to_rx(alt, parsed.state.flags, "consume")
            alts.append(RL.cat(left, RL.cat(body, RL.ALL)))
        return RL.alt(*alts)

    def match_rx(self):
        a0, a1, r = self._re()
        return RL.cat(r, self._right(a1))

    def contains_re(self):
        """z3 regex of the strings in which .search() succeeds"""
        return RL.to_z3(self.contains_rx())

    def match_re(self):
        return RL.to_z3(self.match_rx())

    def search(self, s, *a):
        if not isinstance(s, SymStr):
            return self._real.search(s, *a)
        if a:
            raise EngineUnsupported("search with pos")
        if ctx().decide(z3.InRe(s.t, self.contains_re())):
            return SymMatch(None, {})
        return None

    def match(self, s, *a):
        if not isinstance(s, SymStr):
            return self._real.match(s, *a)
        if a:
            raise EngineUnsupported("match with pos")
        if ctx().decide(z3.InRe(s.t, self.match_re())):
            return SymMatch(None, {})
        return None

    def fullmatch(self, s, *a):
        if not isinstance(s, SymStr):
            return self._real.fullmatch(s, *a)
        raise EngineUnsupported("fullmatch symbolic")

    def finditer(self, s, *a):
        if not isinstance(s, SymStr):
            return self._real.finditer(s, *a)
        return SymFindIter(self, s)

    def sub(self, repl, s, *a):
        if not isinstance(s, SymStr):
            return self._real.sub(repl, s, *a)
        raise EngineUnsupported("Pattern.sub on a symbolic string")

    def split(self, s, *a):
        if not isinstance(s, SymStr):
            return self._real.split(s, *a)
        raise EngineUnsupported("Pattern.split on a symbolic string")

    def __getattr__(self, k):
        return getattr(self._real, k)


class SymFindIter:
    """finditer on a symbolic string: only emptiness is observable (any(...) / truthiness)"""
    __vf_symbolic__ = True

    def __init__(self, pat, s):
        self.pat = pat
        self.s = s

    def __iter__(self):
        # any(gen) asks for the first element: exists iff search succeeds
        if ctx().decide(z3.InRe(self.s.t, self.pat.contains_re())):
            yield OpaqueMatch()
            raise EngineUnsupported("finditer: more than emptiness observed")


class Opaque:
    """a value the engine knows nothing about: any use is outside its reach"""
    __vf_symbolic__ = True

    def __getattr__(self, k):
        if k.startswith("__") and k.endswith("__"):
            raise AttributeError(k)
        raise EngineUnsupported("use of an unmodelled value (.%s)" % k)

    def __bool__(self):
        raise EngineUnsupported("truth value of an unmodelled value")

    def __eq__(self, o):
        raise EngineUnsupported("comparison of an unmodelled value")

    __hash__ = None


class OpaqueMatch:
    """one match of finditer on a symbolic string: exists, but its span and text are not modelled"""
    __vf_symbolic__ = True

    def span(self, *a):
        return Opaque()

    def group(self, *a):
        return Opaque()

    def __getattr__(self, k):
        if k.startswith("__") and k.endswith("__"):
            raise AttributeError(k)
        raise EngineUnsupported("OpaqueMatch.%s" % k)


# ------------------------------------------------------------------------------------------------
# numerals (A4)
# ------------------------------------------------------------------------------------------------
_Dx = RL.cset([(48, 57)])
_DSx = RL.plus(_Dx)
_DOTx = RL.lit(".")
_SIGNx = RL.opt(RL.cset([(43, 43), (45, 45)]))
_EXPx = RL.opt(RL.cat(RL.cset([(101, 101), (69, 69)]), RL.cat(_SIGNx, _DSx)))
_UNSIGNED_DEC = RL.alt(RL.cat(_DSx, RL.opt(RL.cat(_DOTx, RL.star(_Dx)))), RL.cat(_DOTx, _DSx))
#: strings over the plain alphabet on which the contracts below are exact
PLAIN_RX = RL.star(RL.cset([(48, 57), (46, 46), (43, 43), (45, 45), (101, 101), (69, 69)]))
#: decimal.Decimal(str) accepts (restricted to PLAIN): [sign] (digits [. [digits]] | . digits) [exp]
DECIMAL_OK_RX = RL.cat(_SIGNx, RL.cat(_UNSIGNED_DEC, _EXPx))
#: int(str) accepts (restricted to PLAIN): [sign] digits
INT_OK_RX = RL.cat(_SIGNx, _DSx)
NUMERAL_RX = RL.plus(RL.cset([(48, 57), (46, 46)]))       # the lexer's numeral group [0-9.]+
PLAIN = RL.to_z3(PLAIN_RX)
DECIMAL_OK = RL.to_z3(DECIMAL_OK_RX)
INT_OK = RL.to_z3(INT_OK_RX)
FLOAT_OK = DECIMAL_OK
#: what the lexer's numeral group [0-9.]+ can contain and the converters accept
DECIMAL_OK_UNSIGNED = RL.to_z3(_UNSIGNED_DEC)
INT_OK_UNSIGNED = RL.to_z3(_DSx)
NUMERAL = RL.to_z3(NUMERAL_RX)

dec_val = z3.Function("dec_val", z3.StringSort(), z3.RealSort())
dec_norm_str = z3.Function("dec_norm_str", z3.StringSort(), z3.StringSort())
dec_str = z3.Function("dec_str", z3.StringSort(), z3.StringSort())
dec_f = z3.Function("dec_f", z3.StringSort(), z3.StringSort())
dec_norm_f = z3.Function("dec_norm_f", z3.StringSort(), z3.StringSort())
int_val = z3.Function("int_val", z3.StringSort(), z3.IntSort())
int_str = z3.Function("int_str", z3.StringSort(), z3.StringSort())

ASSUMED_CONTRACTS = [
    "A4 decimal.Decimal(s): returns iff s (over [0-9.+-eE]) is [sign](digits[.digits*]|.digits)[exp]; "
    "else raises decimal.InvalidOperation; value dec_val(s); str() = dec_str(s); "
    "str(normalize()) = dec_norm_str(s) (both uninterpreted; their real behaviour is the bounded C01-N check)",
    "A4 int(s): returns iff s (over [0-9.+-eE]) is [sign]digits; else raises ValueError; value int_val(s); "
    "str() = int_str(s)",
    "A3 re.match(P, v) on v produced by matching P succeeds; a named group spanning P equals v; for "
    "'literal + optional named group' the group is the rest of v, None when empty",
    "A3 Pattern.search/match(s) succeed iff s is in the z3 translation of the pattern "
    "(classes from CPython's tables, code points <= 0x2FFFF)",
]


ARRANGING = 0      # > 0 while a contract builds its pre-state (constructors of nodes that exist have returned normally)


class SymNum:
    """result of Decimal(s) / int(s) on a symbolic numeral string"""
    __vf_symbolic__ = True

    def __init__(self, kind, src, normalized=False, val=None):
        self.kind = kind            # 'dec' | 'int'
        self.src = src              # z3 String term
        self.normalized = normalized
        if val is None:
            val = dec_val(src) if kind == "dec" else z3.ToReal(int_val(src))
        self.val = val

    def normalize(self, *a):
        if self.kind != "dec":
            raise EngineUnsupported("normalize on int")
        # contract of decimal (A4): rounding to the context precision signals decimal.Overflow (an ArithmeticError) when the adjusted
        # exponent exceeds the context's Emax = 999999 - in CPython only for a numeral of more than 999999 digits; the length condition
        # is left out of the formula (over-approximation: any numeral may overflow), the solvers do not decide lengths of that size
        if not ARRANGING and not self.normalized and ctx().decide(z3.Bool(fresh("decimal_overflow"))):
            raise decimal.Overflow([decimal.Overflow])
        return SymNum("dec", self.src, True, self.val)

    def __getattr__(self, k):
        if k.startswith("__") and k.endswith("__"):
            raise AttributeError(k)
        raise EngineUnsupported("%s number method .%s is not modelled" % (self.kind, k))

    def __vf_str__(self):
        if self.kind == "int":
            return SymStr(int_str(self.src))
        return SymStr(dec_norm_str(self.src) if self.normalized else dec_str(self.src))

    def __vf_format__(self, spec=""):
        if spec == "":
            return self.__vf_str__()
        if spec == "f" and self.kind == "dec":
            return SymStr((dec_norm_str if self.normalized else dec_str)(self.src))
        raise EngineUnsupported("format(%s, %r)" % (self.kind, spec))

    def __vf_isinstance__(self, T):
        ts = T if isinstance(T, tuple) else (T,)
        conc = decimal.Decimal if self.kind == "dec" else int
        return any(isinstance(t, type) and issubclass(conc, t) for t in ts)

    def __vf_int__(self):
        if self.kind == "int":
            return self
        raise EngineUnsupported("int(Decimal proxy)")

    def __vf_float__(self):
        return SymFloat(self.val)

    def __vf_Decimal__(self):
        if self.kind == "dec":
            return self
        return SymNum("dec", self.src, False, self.val)

    def __eq__(self, o):
        if isinstance(o, (SymNum, SymFloat, Proxy)) or (isinstance(o, (int, float, decimal.Decimal)) and not isinstance(o, bool)):
            try:
                return SymBool(self.val == _real_of(o))
            except EngineUnsupported:
                if isinstance(o, Proxy):
                    raise
        return False

    def __ne__(self, o):
        r = self.__eq__(o)
        return SymBool(z3.Not(r.t)) if isinstance(r, SymBool) else True

    def __hash__(self):
        raise EngineUnsupported("hash of SymNum")

    def __bool__(self):
        return ctx().decide(self.val != 0)

    def __lt__(self, o):
        return SymBool(self.val < _real_of(o))

    def __float__(self):
        raise EngineUnsupported("float() of SymNum outside the hook")

    def __str__(self):
        raise EngineUnsupported("str() of SymNum outside the hook")


class SymFloat:
    __vf_symbolic__ = True

    def __getattr__(self, k):
        if k.startswith("__") and k.endswith("__"):
            raise AttributeError(k)
        raise EngineUnsupported("%s.%s is not modelled" % (type(self).__name__, k))

    def __init__(self, val):
        self.val = val

    def __eq__(self, o):
        return SymBool(self.val == _real_of(o))

    def __lt__(self, o):
        return SymBool(self.val < _real_of(o))

    def __hash__(self):
        raise EngineUnsupported("hash of SymFloat")


def _real_of(o):
    if isinstance(o, (SymNum, SymFloat)):
        return o.val
    if isinstance(o, SymInt):
        return z3.ToReal(o.t)
    if isinstance(o, Proxy) and z3.is_real(o.t):
        return o.t
    if isinstance(o, bool):
        raise EngineUnsupported("bool as number")
    if isinstance(o, int):
        return z3.RealVal(o)
    if isinstance(o, decimal.Decimal):
        return z3.RealVal(str(o)) if o == o.to_integral_value() or True else None
    if isinstance(o, float):
        return z3.RealVal(repr(decimal.Decimal(o)))
    raise EngineUnsupported("number %r" % type(o))


SPELLING_FUNCTIONS = ("dec_str", "dec_norm_str", "dec_f", "dec_norm_f", "int_str")


def despell(term):
    """C01/C02 are stated "up to numeral re-spelling": in a PRINTED text every spelling of a numeral (an
    application of one of the uninterpreted spelling functions to the source numeral) is replaced by the source
    numeral itself.  Sizes and positions are never rewritten, so a size computed from a re-spelled numeral is
    not excused.  That the real spellings are numerically equal plain decimals is the bounded C01-N."""
    todo = [term]
    seen = set()
    subs = []
    while todo:
        t = todo.pop()
        if t.get_id() in seen:
            continue
        seen.add(t.get_id())
        if z3.is_app(t):
            if t.decl().name() in SPELLING_FUNCTIONS and t.num_args() == 1:
                subs.append((t, t.arg(0)))
            todo.extend(t.children())
    return z3.substitute(term, *subs) if subs else term


def _accept(s, ok_re, exc):
    c = ctx()
    if c.decide(z3.InRe(s.t, ok_re)):
        return True
    if not c.decide(z3.InRe(s.t, PLAIN)):
        raise EngineUnsupported("numeric conversion of a string outside the contract's alphabet")
    raise exc


def decimal_of(x):
    if isinstance(x, SymStr):
        _accept(x, DECIMAL_OK, decimal.InvalidOperation([decimal.ConversionSyntax]))
        return SymNum("dec", x.t)
    raise EngineUnsupported("Decimal(%s)" % type(x).__name__)


def int_of(x):
    if isinstance(x, SymStr):
        _accept(x, INT_OK, ValueError("invalid literal for int() with base 10"))
        return SymNum("int", x.t)
    raise EngineUnsupported("int(%s)" % type(x).__name__)


def float_of(x):
    if isinstance(x, SymStr):
        _accept(x, FLOAT_OK, ValueError("could not convert string to float"))
        return SymFloat(dec_val(x.t))
    raise EngineUnsupported("float(%s)" % type(x).__name__)
