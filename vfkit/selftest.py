"""./vf selftest [engine|regex|mutants|seeds|all]

Self-checks of the verifier itself (DESIGN 2.9 / assumption A2) - not a property check and not registered in MANIFEST:

  engine   the proxies and redirect hooks agree with CPython: every operation the engine models is run on proxies holding CONCRETE
           values (z3 string / integer constants) and on the plain Python values; results (or exception types) must coincide
  regex    the regular-expression translation (re pattern -> exact regular language) agrees with `re` on every string over a small
           alphabet up to a length bound, for every pattern compiled by luqum's modules (search and match semantics)
  mutants  the catalogue of deliberate property-breaking edits (and of harmless refactorings) is applied to scratch copies of the
           repository; breaking ones must make the named check exit 1, harmless ones must leave it at exit 0
  seeds    the stored independent seeded changes (seeded/*/patch.diff) must still be detected
  refactorings  the stored independent behaviour-preserving refactorings (refactorings/*/patch.diff) must raise no alarm

exit 0 when everything agrees, 1 otherwise."""
import itertools
import json
import os
import random
import re
import shutil
import subprocess
import sys
import tempfile

import z3


def _concrete(v):
    """python value of a proxy built from constants"""
    from . import sym
    if isinstance(v, sym.SymStr):
        t = z3.simplify(v.t)
        if not z3.is_string_value(t):
            raise ValueError("not reduced to a constant: %s" % t)
        from .core import _decode_z3_string
        return _decode_z3_string(t.as_string())
    if isinstance(v, sym.SymInt):
        t = z3.simplify(v.t)
        return t.as_long()
    if isinstance(v, sym.SymBool):
        t = z3.simplify(v.t)
        if z3.is_true(t):
            return True
        if z3.is_false(t):
            return False
        return bool(sym.ctx().decide(v.t))
    if isinstance(v, (list, tuple)):
        return type(v)(_concrete(x) for x in v)
    if type(v).__name__ in ("SymNum", "SymFloat"):
        return "accepted"        # numeric values are uninterpreted in the engine (A4): only acceptance is modelled
    return v


def _solve(v):
    """value of a proxy that is determined by the assumptions of the current path (fresh symbols of an exact decomposition)"""
    from . import sym
    if not isinstance(v, sym.SymStr):
        return v
    c = sym.Ctx.cur
    sol = z3.Solver()
    sol.set("timeout", 10000)
    for p in c.pc:
        sol.add(p)
    if sol.check() != z3.sat:
        raise ValueError("path condition not satisfiable")
    m = sol.model()
    val = m.eval(v.t, model_completion=True)
    # uniqueness: no other value is possible
    sol.add(v.t != val)
    if sol.check() != z3.unsat:
        raise ValueError("decomposition not unique")
    from .core import _decode_z3_string
    return _decode_z3_string(val.as_string())


def engine_crosscheck(seed=0):
    from . import loader  # noqa: F401  (instrumented import machinery, needed by the hooks)
    from . import sym, rewrite
    from .sym import SymStr, SymInt, Ctx
    rng = random.Random(seed)
    strings = ["", "a", "ab", "a b", "foo:bar", "x%sy", "%", "~2", "^", "\"p q\"", "  lead", "trail  ", "\\*", "a\\ b", "é", "TO", "a.b.c",
               "and", "AND", "aNd", "ſtraſse", "STRASSE", "strasse", "ß", "SS", "ı", "I", "i", "K", "k", "é", "É", "0", "12", "-5", "1.50", "007", ".5", "1e3", "1E+2", "١٢", "1_0", " 7 ", "+3", "abc", "1.", ".", "1.2.3", "e5", "1e", "--1", "+.5e-3", "5-", "1e+"]
    ints = [-3, -1, 0, 1, 2, 5]
    bad = []
    n = 0
    outside = {}

    def both(label, native, symbolic):
        nonlocal n
        n += 1
        try:
            a = ("value", native())
        except Exception as e:  # noqa: BLE001
            a = ("raised", type(e).__name__)
        c = Ctx([], [])
        Ctx.cur = c
        try:
            try:
                b = ("value", _concrete(symbolic()))
            except sym.EngineUnsupported as e:
                outside[label.split("(")[0].split(" ")[0][:12] + ": " + str(e)[:60]] = outside.get(label.split("(")[0].split(" ")[0][:12] + ": " + str(e)[:60], 0) + 1
                n -= 1
                return          # outside the engine: loud, not wrong
            except sym.PathStop:
                return
            except Exception as e:  # noqa: BLE001
                b = ("raised", type(e).__name__)
        finally:
            Ctx.cur = None
        if a != b:
            bad.append("%s: CPython %r, engine %r" % (label, a, b))

    def S_(s):
        return SymStr(z3.StringVal(s))

    for i in ints + [10, 123456789, -40]:
        both("f'{%d:d}'" % i, lambda: f"pos {i:d}!", lambda: _solve(rewrite.vf_fstr("pos ", (SymInt(z3.IntVal(i)), -1, "d"), "!")))
        both("'%%d' %% %d" % i, lambda: "at %d." % i, lambda: _solve(rewrite.vf_mod("at %d.", SymInt(z3.IntVal(i)))))
    for s in strings:
        both("len(%r)" % s, lambda: len(s), lambda: rewrite.vf_len(S_(s)))
        both("%r.isspace()" % s, lambda: s.isspace(), lambda: S_(s).isspace())
        for chars in (None, '"', " x", "ab"):
            both("%r.strip(%r)" % (s, chars), lambda: s.strip(chars), lambda: _solve(S_(s).strip(chars)))
            both("%r.lstrip(%r)" % (s, chars), lambda: s.lstrip(chars), lambda: _solve(S_(s).lstrip(chars)))
            both("%r.rstrip(%r)" % (s, chars), lambda: s.rstrip(chars), lambda: _solve(S_(s).rstrip(chars)))
        for sep in (".", ":", " ", "a"):
            both("%r.partition(%r)" % (s, sep), lambda: s.partition(sep), lambda: tuple(_solve(x) for x in S_(s).partition(sep)))
            both("%r.rpartition(%r)" % (s, sep), lambda: s.rpartition(sep), lambda: tuple(_solve(x) for x in S_(s).rpartition(sep)))
            both("%r.rsplit(%r, 1)" % (s, sep), lambda: s.rsplit(sep, 1), lambda: [_solve(x) for x in S_(s).rsplit(sep, 1)])
            both("%r.split(%r, 1)" % (s, sep), lambda: s.split(sep, 1), lambda: [_solve(x) for x in S_(s).split(sep, 1)])
            both("%r.find(%r)" % (s, sep), lambda: s.find(sep), lambda: S_(s).find(sep))
        both("%r.upper() in table" % s, lambda: {"AND": 1, "OR": 2, "TO": 3}.get(s.upper(), 0), lambda: rewrite.vf_get({"AND": 1, "OR": 2, "TO": 3}, S_(s).upper(), 0))
        both("str(%r)" % s, lambda: str(s), lambda: rewrite.vf_str(S_(s)))
        both("%r or ''" % s, lambda: s or "", lambda: rewrite.vf_or_const(S_(s), ""))
        both("'%%s:%%s' %% (%r, 1)" % s, lambda: "%s:%s" % (s, 1), lambda: rewrite.vf_mod("%s:%s", (S_(s), 1)))
        both("f-string %r" % s, lambda: "<%s>" % s, lambda: rewrite.vf_fstr("<", (S_(s), None, None), ">") if False else rewrite.vf_mod("<%s>", S_(s)))
        if s and all(ch in "0123456789.+-eE" for ch in s):      # the alphabet the contracts of A4 are stated for
            both("int(%r) accepted" % s, lambda: (int(s), "accepted")[1], lambda: rewrite.vf_int(S_(s)))
            both("Decimal(%r) accepted" % s, lambda: (__import__("decimal").Decimal(s), "accepted")[1], lambda: rewrite.vf_Decimal(S_(s)))
            both("float(%r) accepted" % s, lambda: (float(s), "accepted")[1], lambda: rewrite.vf_float(S_(s)))
        for i in ints:
            both("%r[%d]" % (s, i), lambda: s[i], lambda: S_(s)[i])
            for j in ints + [None]:
                both("%r[%r:%r]" % (s, i, j), lambda: s[i:j], lambda: S_(s)[i:j])
            both("%r[:%r]" % (s, i), lambda: s[:i], lambda: S_(s)[:i])
        for t in rng.sample(strings, 6):
            both("%r + %r" % (s, t), lambda: s + t, lambda: S_(s) + S_(t))
            both("%r + lit %r" % (s, t), lambda: s + t, lambda: S_(s) + t)
            both("lit %r + %r" % (t, s), lambda: t + s, lambda: t + S_(s))
            both("%r == %r" % (s, t), lambda: s == t, lambda: S_(s) == S_(t))
            both("%r != %r" % (s, t), lambda: s != t, lambda: S_(s) != t)
            both("%r.startswith(%r)" % (s, t), lambda: s.startswith(t), lambda: S_(s).startswith(t))
            both("%r.endswith(%r)" % (s, t), lambda: s.endswith(t), lambda: S_(s).endswith(t))
            both("%r in %r" % (t, s), lambda: t in s, lambda: rewrite.vf_in(S_(t), S_(s)))
            both("%r in (%r, 'TO')" % (s, t), lambda: s in (t, "TO"), lambda: rewrite.vf_in(S_(s), (t, "TO")))
            both("'.'.join([%r, %r])" % (s, t), lambda: ".".join([s, t]), lambda: rewrite.vf_join(".", [S_(s), t]))
            both("%r.upper() == %r" % (s, t), lambda: s.upper() == t, lambda: S_(s).upper() == t)
            both("%r.lower() == %r" % (s, t), lambda: s.lower() == t, lambda: S_(s).lower() == t)
            both("%r.join([%r, %r])" % (t, s, s), lambda: t.join([s, s]), lambda: rewrite.vf_join(S_(t), [S_(s), s]))
    for a, b in itertools.product(ints, ints):
        A, B = SymInt(z3.IntVal(a)), SymInt(z3.IntVal(b))
        both("%d + %d" % (a, b), lambda: a + b, lambda: A + B)
        both("%d - %d" % (a, b), lambda: a - b, lambda: A - b)
        both("%d * %d" % (a, b), lambda: a * b, lambda: A * b)
        both("%d < %d" % (a, b), lambda: a < b, lambda: A < B)
        both("%d <= %d" % (a, b), lambda: a <= b, lambda: A <= b)
        both("%d == %d" % (a, b), lambda: a == b, lambda: A == B)
        both("-%d" % a, lambda: -a, lambda: -A)
        both("str(%d)" % a, lambda: str(a), lambda: rewrite.vf_str(A))
        both("'%%d' %% %d" % a, lambda: "%d" % a, lambda: rewrite.vf_mod("%d", A))
    # the comparison itself must be able to fail
    both("canary", lambda: 3, lambda: rewrite.vf_len(S_("ab")))
    if not bad or not bad[-1].startswith("canary"):
        bad.append("canary: a deliberately wrong expectation was not noticed")
    else:
        bad.pop()
    engine_crosscheck.outside = outside
    return n, bad


def _matches(rx, s):
    from . import relang as RL
    for ch in s:
        rx = RL.deriv(rx, ord(ch))
    return RL.nullable(rx)


def regex_crosscheck(maxlen=4):
    from . import loader  # noqa: F401
    from . import ext, sym
    import luqum.parser as P
    import luqum.tree as T
    import luqum.check as CK
    pats = {}
    for mod in (P, T, CK):
        for holder in [mod] + [v for v in vars(mod).values() if isinstance(v, type) and getattr(v, "__module__", "") == mod.__name__]:
            for k, v in vars(holder).items():
                real = getattr(v, "_real", v)
                if isinstance(real, re.Pattern):
                    pats["%s.%s" % (getattr(holder, "__name__", "?"), k)] = real
    # the lexer's token patterns
    for name in dir(P):
        if name.startswith("t_") and name not in ("t_error", "t_ignore"):
            fn = getattr(P, name)
            rx = getattr(fn, "regex", None) or (fn.__doc__ if callable(fn) else fn)
            if isinstance(rx, str):
                try:
                    pats["lexer." + name] = re.compile(rx, re.VERBOSE)
                except re.error:
                    pass
    bad = []
    n = 0
    skipped = []
    for name, real in sorted(pats.items()):
        p = ext.SymPattern(real)
        try:
            crx, mrx = p.contains_rx(), None
            try:
                mrx = p.match_rx()
            except sym.EngineUnsupported:
                mrx = None
        except sym.EngineUnsupported as e:
            # look-behinds the translator cannot express exactly: the engine sandwiches the language between the pattern with the
            # look-behind alternative removed (`never`, a subset) and with the look-behind dropped (`drop`, a superset); check both
            try:
                lo = ext.full_language_rx(real.pattern, real.flags & ~re.UNICODE, "never")
                hi = ext.full_language_rx(real.pattern, real.flags & ~re.UNICODE, "drop")
            except sym.EngineUnsupported:
                skipped.append("%s (%s)" % (name, e))
                continue
            lits = sorted({c for c in real.pattern if not c.isalnum() and not c.isspace()})
            alphabet = (["a", "T", "1", "2", ":", " ", "\\"] + [c for c in lits if c not in ":\\"])[:12]
            for L in range(0, maxlen + 1):
                for tup in itertools.product(alphabet, repeat=L):
                    s = "".join(tup)
                    n += 1
                    full = real.fullmatch(s) is not None
                    if (_matches(lo, s) and not full) or (full and not _matches(hi, s)):
                        bad.append("%s: sandwich broken on %r (fullmatch %s, subset %s, superset %s)" % (name, s, full, _matches(lo, s), _matches(hi, s)))
                        break
                else:
                    continue
                break
            skipped.append("%s (%s; sandwich never <= L <= drop checked instead)" % (name, e))
            continue
        lits = sorted({c for c in real.pattern if not c.isalnum() and not c.isspace()} | set())
        alphabet = (["a", "Z", "1", "_", " ", "\n", "é"] + lits)[:14]
        for L in range(0, maxlen + 1):
            for tup in itertools.product(alphabet, repeat=L):
                s = "".join(tup)
                n += 1
                if bool(real.search(s)) != _matches(crx, s):
                    bad.append("%s: search(%r) is %s in CPython" % (name, s, bool(real.search(s))))
                    break
                if mrx is not None and bool(real.match(s)) != _matches(mrx, s):
                    bad.append("%s: match(%r) is %s in CPython" % (name, s, bool(real.match(s))))
                    break
            else:
                continue
            break
    return n, bad, skipped, sorted(pats)


def numeral_crosscheck(maxlen=6):
    """A4: Decimal(s) / int(s) / float(s) return exactly on the languages the engine assumes, for every string over the characters a
    lexed numeral or a hand-written degree can contain"""
    import decimal
    from . import loader  # noqa: F401
    from . import ext
    bad = []
    n = 0
    alphabet = "019.+-eE"
    for L in range(0, maxlen + 1):
        for tup in itertools.product(alphabet, repeat=L):
            s = "".join(tup)
            n += 1
            for name, conv, rx in (("Decimal", decimal.Decimal, ext.DECIMAL_OK_RX), ("int", int, ext.INT_OK_RX), ("float", float, ext.DECIMAL_OK_RX)):
                try:
                    conv(s)
                    ok = True
                except (ValueError, decimal.InvalidOperation):
                    ok = False
                if ok != _matches(rx, s):
                    bad.append("%s(%r) %s in CPython" % (name, s, "returns" if ok else "raises"))
        if len(bad) > 20:
            break
    return n, bad


# ------------------------------------------------------------------------------------------------ mutants
VERIF = os.path.dirname(os.path.dirname(os.path.abspath(__file__)))
REPO = os.environ.get("VF_SELFTEST_REPO", "/repo")


def _run_checks(tree, pids, tier="quick"):
    out = {}
    for pid in pids:
        env = dict(os.environ, VF_REPO=tree)
        r = subprocess.run([os.path.join(VERIF, "vf"), "check", pid, "--tier", tier], capture_output=True, text=True, env=env, cwd=VERIF, timeout=3600)
        out[pid] = r.returncode
    return out


def mutants(which=None):
    with open(os.path.join(VERIF, "selftest_mutants.json")) as f:
        cat = json.load(f)
    results = []
    ok = True
    for m in cat:
        if which and m["id"] not in which and not any(m["id"].startswith(w) for w in which):
            continue
        tmp = tempfile.mkdtemp(prefix="vfself_")
        try:
            shutil.copytree(os.path.join(REPO, "luqum"), os.path.join(tmp, "luqum"))
            applied = True
            for ed in m["edits"]:
                path = os.path.join(tmp, ed["file"])
                src = open(path).read()
                if ed["old"] not in src:
                    applied = False
                    break
                open(path, "w").write(src.replace(ed["old"], ed["new"], 1))
            if not applied:
                results.append((m["id"], "PATTERN-NOT-FOUND", {}))
                ok = False
                continue
            codes = _run_checks(tmp, m["checks"])
            if m["expect"] == "detected":
                good = any(c == 1 for c in codes.values())
            else:
                good = all(c == 0 for c in codes.values())
            results.append((m["id"], "ok" if good else "UNEXPECTED (%s expected)" % m["expect"], codes))
            ok = ok and good
        finally:
            shutil.rmtree(tmp, ignore_errors=True)
        print("%-44s %-12s %s" % (results[-1][0], results[-1][1], results[-1][2]), flush=True)
    return ok, results


def seeds(which=None):
    ok = True
    base = os.path.join(VERIF, "seeded")
    for name in sorted(os.listdir(base)):
        if which and name not in which and not any(name.startswith(w) for w in which):
            continue
        meta = json.load(open(os.path.join(base, name, "meta.json")))
        pids = list(meta.get("checks_run", {})) or [meta["breaks_property"]]
        tmp = tempfile.mkdtemp(prefix="vfself_")
        try:
            subprocess.run(["git", "-C", REPO, "worktree", "add", "-q", "--detach", os.path.join(tmp, "wt"), "HEAD"], check=True)
            wt = os.path.join(tmp, "wt")
            r = subprocess.run(["git", "-C", wt, "apply", os.path.join(base, name, "patch.diff")], capture_output=True, text=True)
            if r.returncode != 0:
                print("%-12s PATCH-DOES-NOT-APPLY" % name)
                ok = False
                continue
            codes = _run_checks(wt, pids)
            good = any(c == 1 for c in codes.values())
            ok = ok and good
            print("%-12s %-10s %s" % (name, "detected" if good else "MISSED", codes), flush=True)
        finally:
            subprocess.run(["git", "-C", REPO, "worktree", "remove", "--force", os.path.join(tmp, "wt")], capture_output=True)
            shutil.rmtree(tmp, ignore_errors=True)
    return ok


def refactorings(which=None):
    """the stored independent behaviour-preserving refactorings (refactorings/*/patch.diff) must raise no alarm: every listed check exits 0"""
    ok = True
    base = os.path.join(VERIF, "refactorings")
    for name in sorted(os.listdir(base)) if os.path.isdir(base) else []:
        if which and name not in which and not any(name.startswith(w) for w in which):
            continue
        meta = json.load(open(os.path.join(base, name, "meta.json")))
        tmp = tempfile.mkdtemp(prefix="vfself_")
        try:
            subprocess.run(["git", "-C", REPO, "worktree", "add", "-q", "--detach", os.path.join(tmp, "wt"), "HEAD"], check=True)
            wt = os.path.join(tmp, "wt")
            r = subprocess.run(["git", "-C", wt, "apply", os.path.join(base, name, "patch.diff")], capture_output=True, text=True)
            if r.returncode != 0:
                print("%-12s PATCH-DOES-NOT-APPLY" % name)
                ok = False
                continue
            codes = _run_checks(wt, meta["checks"])
            want = meta.get("accepted_nonzero", {})          # documented exits 2 (undecided, loud) on a restructured function; never 1
            good = all(c == 0 or (c != 1 and want.get(pid) == c) for pid, c in codes.items())
            ok = ok and good
            print("%-12s %-10s %s" % (name, "quiet" if good else "ALARM", codes), flush=True)
        finally:
            subprocess.run(["git", "-C", REPO, "worktree", "remove", "--force", os.path.join(tmp, "wt")], capture_output=True)
            shutil.rmtree(tmp, ignore_errors=True)
    return ok


def main(argv=None):
    argv = list(sys.argv[2:] if argv is None else argv)
    what = argv[0] if argv else "engine+regex"
    rest = argv[1:]
    ok = True
    if what in ("engine", "engine+regex", "all"):
        n, bad = engine_crosscheck()
        print("engine cross-check: %d operations compared with CPython, %d disagreements; outside the engine (loud): %s" % (
            n, len(bad), dict(sorted(engine_crosscheck.outside.items())) or "none"))
        for b in bad[:20]:
            print("  DISAGREE " + b)
        ok = ok and not bad
    if what in ("regex", "engine+regex", "all"):
        n, bad, skipped, names = regex_crosscheck()
        print("regex cross-check: %d patterns (%s), %d strings compared, %d disagreements, %d outside the translator" % (
            len(names), ", ".join(names), n, len(bad), len(skipped)))
        for b in bad[:20]:
            print("  DISAGREE " + b)
        for s in skipped:
            print("  outside: " + s)
        ok = ok and not bad
    if what in ("regex", "engine+regex", "all"):
        n, bad = numeral_crosscheck()
        print("numeral contracts (A4): %d strings over '019.+-eE' compared for Decimal / int / float acceptance, %d disagreements" % (n, len(bad)))
        for b in bad[:20]:
            print("  DISAGREE " + b)
        ok = ok and not bad
    if what in ("mutants", "all"):
        good, _ = mutants(rest)
        ok = ok and good
    if what in ("seeds", "all"):
        ok = seeds(rest) and ok
    if what in ("refactorings", "all"):
        ok = refactorings(rest) and ok
    print("selftest %s" % ("OK" if ok else "FAILED"))
    return 0 if ok else 1
