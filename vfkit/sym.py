"""symx core: z3-term proxies and the path explorer.

The real luqum functions are executed by CPython on proxy objects.  Whenever CPython needs a concrete
truth value the proxy asks the solver which outcomes are feasible under the current path condition,
follows one and queues the other; the function is re-executed from the start once per feasible path.

Soundness rules implemented here:
  * a proxy never silently becomes a concrete value: every dunder that would force that raises
    EngineUnsupported (a BaseException, so luqum's `except` clauses cannot swallow it);
  * solver `unknown` on a feasibility question raises EngineUnsupported (=> undecided, never a verdict).
"""
import itertools
import z3

_counter = itertools.count()


import time as _time

#: wall-clock budget of one deductive case (all its paths); exceeded => UNDECIDED.  The longest case on the unchanged tree takes ~6 s.
CASE_BUDGET_S = int(__import__("os").environ.get("VF_CASE_BUDGET_S", "240"))
CASE_DEADLINE = [None]


class EngineUnsupported(BaseException):
    """construct outside the engine's reach: the obligation is UNDECIDED (exit 2), never pass/violation"""


class PathStop(BaseException):
    """raised by loop cuts / stubs to end the current path normally (remaining code is covered elsewhere)"""


def fresh(prefix):
    """stable name: the prefix itself the first time it is used on a path, prefix!n afterwards"""
    c = Ctx.cur
    if c is not None and prefix not in c.names:
        c.names.add(prefix)
        return prefix
    return "%s!%d" % (prefix, next(_counter))


class Ctx:
    """one path of one case"""
    cur = None
    FEAS_TIMEOUT_MS = 20000

    def __init__(self, prefix=(), pending=None):
        self.prefix = list(prefix)
        self.pending = pending if pending is not None else []
        self.trace = []          # decisions taken on this run
        self.pc = []             # path condition (z3 Bool terms)
        self.late = []           # stage-2 assumptions (regular-language facts of the lexer post-condition)
        self.decided = {}        # z3 ast id -> (ast, bool): repeated conditions are answered without the solver.
        #                          The ast is kept referenced: z3 reuses ids of garbage-collected terms.
        self.solver = z3.Solver()
        self.solver.set("timeout", self.FEAS_TIMEOUT_MS)
        self.nqueries = 0
        self.symbols = {}        # name -> term, for model read-back
        self.log = []            # write log & events (used by frame obligations)
        self.skipped = []        # infeasible branches (re-asked by the vacuity guard)
        self.notes = {}
        self.names = set()
        self.inre = False        # some regex membership constraint is on the path
        self.loop_steps = {}     # unfoldings of loops without a registered invariant on this path

    # -- assumptions ---------------------------------------------------------------------------
    def _simp(self, cond):
        """simplify, except terms with regex membership: their regex ASTs must stay the registered ones (relang)"""
        return cond if self._has_inre(cond) else z3.simplify(cond)

    def assume(self, cond):
        cond = self._simp(cond)
        if z3.is_true(cond):
            return
        self.pc.append(cond)
        self.solver.add(cond)
        self.inre = self.inre or self._has_inre(cond)
        self.decided[cond.get_id()] = (cond, True)

    def assume_late(self, cond):
        self.late.append(cond)

    def register(self, name, term):
        self.symbols[name] = term
        return term

    # -- decisions -----------------------------------------------------------------------------
    def _feasible(self, cond):
        self.nqueries += 1
        if self.inre or self._has_inre(cond):
            # regex membership over large character classes: decided through relang's exact abstraction
            from . import relang
            fs = self.pc + [cond]
            pairs, clauses, _ = relang.exact_abstraction(fs)
            if pairs:
                s = z3.Solver()
                s.set("timeout", self.FEAS_TIMEOUT_MS)
                for c in fs:
                    s.add(z3.substitute(c, *pairs))
                for c in clauses + relang.lemmas_for(fs):
                    s.add(z3.substitute(c, *pairs))
                r = s.check()
                if r == z3.unknown:
                    raise EngineUnsupported("solver unknown on branch feasibility: %s" % s.reason_unknown())
                return r == z3.sat
        self.solver.push()
        self.solver.add(cond)
        r = self.solver.check()
        self.solver.pop()
        if r == z3.unknown:
            raise EngineUnsupported("solver unknown on branch feasibility: %s" % self.solver.reason_unknown())
        return r == z3.sat

    @staticmethod
    def _has_inre(t):
        todo = [t]
        n = 0
        while todo and n < 200:
            x = todo.pop()
            n += 1
            if z3.is_app(x):
                if x.decl().kind() == z3.Z3_OP_SEQ_IN_RE:
                    return True
                todo.extend(x.children())
        return False

    def decide(self, cond):
        cond = self._simp(cond)
        if z3.is_true(cond):
            return True
        if z3.is_false(cond):
            return False
        if CASE_DEADLINE[0] is not None and _time.time() > CASE_DEADLINE[0]:
            raise EngineUnsupported("time budget of the case exhausted (%d s): undecided, not a verdict" % CASE_BUDGET_S)
        key = cond.get_id()
        hit = self.decided.get(key)
        if hit is not None and hit[0].eq(cond):
            return hit[1]
        i = len(self.trace)
        if i < len(self.prefix):
            v = self.prefix[i]
        else:
            t = self._feasible(cond)
            f = self._feasible(z3.Not(cond))
            if t and f:
                v = True
                self.pending.append(self.trace + [False])
            elif t:
                v = True
                self.skipped.append((list(self.trace), False, cond))
            elif f:
                v = False
                self.skipped.append((list(self.trace), True, cond))
            else:
                raise EngineUnsupported("infeasible path reached (contradictory arrangement?)")
        self.trace.append(v)
        c = cond if v else self._simp(z3.Not(cond))
        self.pc.append(c)
        self.solver.add(c)
        self.inre = self.inre or self._has_inre(c)
        self.decided[key] = (cond, v)
        self.decided[c.get_id()] = (c, True)
        return v

    def choose(self, options):
        """n-way exhaustive fork: options = [(cond, value), ...]; the conds must be exhaustive.
        Returns the value of the branch followed."""
        for cond, value in options[:-1]:
            if self.decide(cond):
                return value
        cond, value = options[-1]
        if cond is not None and not self.decide(cond):
            raise EngineUnsupported("choose(): options not exhaustive")
        return value


def ctx():
    c = Ctx.cur
    if c is None:
        raise EngineUnsupported("proxy used outside an exploration")
    return c


# ------------------------------------------------------------------------------------------------
# proxies
# ------------------------------------------------------------------------------------------------

class Proxy:
    __slots__ = ("t",)

    def _loud(self, what):
        raise EngineUnsupported("%s on %s" % (what, type(self).__name__))

    def __len__(self): self._loud("len()")
    def __iter__(self): self._loud("iter()")
    def __index__(self): self._loud("index()")
    def __int__(self): self._loud("int()")
    def __float__(self): self._loud("float()")
    def __str__(self): self._loud("str()")
    def __repr__(self): return "<%s %s>" % (type(self).__name__, self.t)
    def __format__(self, spec): self._loud("format()")
    def __hash__(self): self._loud("hash()")
    def __reduce__(self): self._loud("pickle")

    def __getattr__(self, k):
        # a method of str/int/tuple that the proxy does not model: undecided, never program behaviour
        if k.startswith("__") and k.endswith("__"):
            raise AttributeError(k)
        raise EngineUnsupported("%s.%s is not modelled" % (type(self).__name__, k))


class SymBool(Proxy):
    __slots__ = ()

    def __init__(self, t):
        self.t = t

    def __bool__(self):
        return ctx().decide(self.t)

    def __hash__(self):
        return hash(bool(self))

    def __eq__(self, o):
        if isinstance(o, SymBool):
            return SymBool(self.t == o.t)
        if isinstance(o, bool):
            return SymBool(self.t if o else z3.Not(self.t))
        return False

    def __ne__(self, o):
        r = self.__eq__(o)
        if isinstance(r, SymBool):
            return SymBool(z3.Not(r.t))
        return not r

    def __and__(self, o):
        return SymBool(z3.And(self.t, B(o)))

    __rand__ = __and__

    def __or__(self, o):
        return SymBool(z3.Or(self.t, B(o)))

    __ror__ = __or__

    def __invert__(self):
        self._loud("~")


def S(x):
    """z3 String term of a str-like"""
    if isinstance(x, SymStr):
        return x.t
    if isinstance(x, str):
        return z3.StringVal(x)
    raise EngineUnsupported("not a string: %r" % (type(x),))


def I(x):
    if isinstance(x, SymInt):
        return x.t
    if isinstance(x, bool):
        raise EngineUnsupported("bool used as int")
    if isinstance(x, int):
        return z3.IntVal(x)
    raise EngineUnsupported("not an int: %r" % (type(x),))


def B(x):
    if isinstance(x, SymBool):
        return x.t
    if isinstance(x, bool):
        return z3.BoolVal(x)
    if z3.is_expr(x) and z3.is_bool(x):
        return x
    raise EngineUnsupported("not a bool: %r" % (type(x),))


def T(x):
    """z3 term of any scalar"""
    if isinstance(x, Proxy):
        return x.t
    if isinstance(x, bool):
        return z3.BoolVal(x)
    if isinstance(x, int):
        return z3.IntVal(x)
    if isinstance(x, str):
        return z3.StringVal(x)
    if z3.is_expr(x):
        return x
    raise EngineUnsupported("no term for %r" % (type(x),))


class SymStr(Proxy):
    __slots__ = ()
    __hash__ = Proxy.__hash__

    def __init__(self, t=None, name="s"):
        if t is None:
            nm = fresh(name)
            t = z3.String(nm)
            if Ctx.cur is not None:
                Ctx.cur.register(nm, t)
        self.t = t

    # concatenation
    def __add__(self, o):
        if not isinstance(o, (str, SymStr)):
            return NotImplemented
        if isinstance(o, str) and o == "":
            return self
        return SymStr(z3.Concat(self.t, S(o)))

    def __radd__(self, o):
        if not isinstance(o, (str, SymStr)):
            return NotImplemented
        if isinstance(o, str) and o == "":
            return self
        return SymStr(z3.Concat(S(o), self.t))

    def __eq__(self, o):
        if isinstance(o, (str, SymStr)):
            return SymBool(self.t == S(o))
        if isinstance(o, Proxy):
            self._loud("== with %s" % type(o).__name__)
        return False

    def __ne__(self, o):
        if isinstance(o, (str, SymStr)):
            return SymBool(self.t != S(o))
        if isinstance(o, Proxy):
            self._loud("!= with %s" % type(o).__name__)
        return True

    def __bool__(self):
        return ctx().decide(z3.Length(self.t) > 0)

    def __contains__(self, o):
        return bool(SymBool(z3.Contains(self.t, S(o))))

    def _parts(self):
        """literal / symbolic pieces of the term (syntactic)"""
        def flat(t):
            if z3.is_app(t) and t.decl().kind() == z3.Z3_OP_SEQ_CONCAT:
                out = []
                for c in t.children():
                    out.extend(flat(c))
                return out
            if z3.is_string_value(t):
                return [t.as_string()] if t.as_string() else []
            return [t]
        return flat(self.t)

    @staticmethod
    def _from_parts(parts):
        terms = [z3.StringVal(p) if isinstance(p, str) else p for p in parts]
        if not terms:
            return ""
        if all(isinstance(p, str) for p in parts):
            return "".join(parts)
        return SymStr(terms[0] if len(terms) == 1 else z3.Concat(*terms))

    def __getitem__(self, i):
        # a literal at the end of the term answers s[-1] and s[:-1] syntactically (exact)
        if i == -1 or (isinstance(i, slice) and i.start is None and i.stop == -1 and i.step is None):
            parts = self._parts()
            if parts and isinstance(parts[-1], str) and "\\u{" not in parts[-1]:
                if i == -1:
                    return parts[-1][-1]
                return self._from_parts(parts[:-1] + ([parts[-1][:-1]] if parts[-1][:-1] else []))
        if isinstance(i, slice) and i.step is None and isinstance(i.start, (int, type(None))) and isinstance(i.stop, (int, type(None))) \
                and not isinstance(i.start, bool) and not isinstance(i.stop, bool):
            # s[a:-b] where the term starts with a literal of at least a characters and ends with one of at least b: exact and syntactic
            a = i.start or 0
            b = -i.stop if (i.stop is not None and i.stop < 0) else (0 if i.stop is None else None)
            parts = self._parts()
            if a >= 0 and b is not None and len(parts) >= 2 and (a == 0 or (isinstance(parts[0], str) and "\\u{" not in parts[0] and len(parts[0]) >= a)) \
                    and (b == 0 or (isinstance(parts[-1], str) and "\\u{" not in parts[-1] and len(parts[-1]) >= b)):
                new = list(parts)
                if a:
                    new[0] = new[0][a:]
                if b:
                    new[-1] = new[-1][:-b]
                return self._from_parts([p for p in new if not (isinstance(p, str) and p == "")])
        if isinstance(i, slice):
            if i.step is not None:
                self._loud("slice step")
            n = z3.Length(self.t)

            def norm(v, default):
                if v is None:
                    return default
                if isinstance(v, int) and not isinstance(v, bool):
                    if v >= 0:
                        return z3.If(n < v, n, z3.IntVal(v))
                    return z3.If(n + v < 0, z3.IntVal(0), n + v)
                if isinstance(v, SymInt):
                    vv = z3.If(v.t < 0, n + v.t, v.t)
                    return z3.If(vv < 0, 0, z3.If(vv > n, n, vv))
                self._loud("slice bound")
            a = norm(i.start, z3.IntVal(0))
            b = norm(i.stop, n)
            return SymStr(z3.simplify(z3.If(b > a, z3.SubString(self.t, a, b - a), z3.StringVal(""))))
        if isinstance(i, int) and not isinstance(i, bool):
            n = z3.Length(self.t)
            idx = z3.IntVal(i) if i >= 0 else n + i
            ok = ctx().decide(z3.And(idx >= 0, idx < n))
            if not ok:
                raise IndexError("string index out of range")
            return SymStr(z3.SubString(self.t, idx, 1))
        self._loud("getitem %r" % (type(i),))

    def startswith(self, p):
        if isinstance(p, tuple):
            return SymBool(z3.Or([z3.PrefixOf(S(x), self.t) for x in p]))
        return SymBool(z3.PrefixOf(S(p), self.t))

    def endswith(self, p):
        if isinstance(p, tuple):
            return SymBool(z3.Or([z3.SuffixOf(S(x), self.t) for x in p]))
        return SymBool(z3.SuffixOf(S(p), self.t))

    def __mod__(self, o): self._loud("% (format with symbolic template)")
    def join(self, *a, **k): self._loud("join with symbolic separator")
    def replace(self, *a): self._loud("replace")
    def format(self, *a, **k): self._loud("format")
    def isupper(self): self._loud("isupper")

    # --- character classes and decompositions (exact: the decomposition exists and is unique, its parts are fresh symbols)
    @staticmethod
    def _charset_rx(chars):
        from . import relang as RL
        if chars is None:
            from . import ext
            return RL.cset(ext.category_ranges("space"))
        if not isinstance(chars, str) or not chars:
            raise EngineUnsupported("strip / split with a symbolic or empty character set")
        return RL.cset(RL._merge([(ord(c), ord(c)) for c in chars]))

    def isspace(self):
        from . import relang as RL
        return SymBool(z3.InRe(self.t, RL.to_z3(RL.plus(self._charset_rx(None)))))

    def _strip(self, chars, left, right):
        from . import relang as RL
        cs = self._charset_rx(chars)
        ncs = RL.cset(RL.cset_not(cs[1]))
        c = ctx()
        l = SymStr(name="strip_l") if left else ""
        r = SymStr(name="strip_r") if right else ""
        m = SymStr(name="strip_m")
        c.assume(self.t == z3.Concat(S(l), m.t, S(r)) if (left or right) else self.t == m.t)
        star = RL.to_z3(RL.star(cs))
        if left:
            c.assume(z3.InRe(l.t, star))
        if right:
            c.assume(z3.InRe(r.t, star))
        first = ncs if left else RL.ANY
        last = ncs if right else RL.ANY
        core = RL.alt(RL.EPS, RL.conj(first, last), RL.cat(first, RL.cat(RL.ALL, last)))
        c.assume(z3.InRe(m.t, RL.to_z3(core)))
        return m

    def strip(self, chars=None): return self._strip(chars, True, True)
    def lstrip(self, chars=None): return self._strip(chars, True, False)
    def rstrip(self, chars=None): return self._strip(chars, False, True)

    def _cut(self, sep, from_right):
        """(found, head, tail) around the first (last) occurrence of a one-character separator"""
        if not isinstance(sep, str) or len(sep) != 1:
            raise EngineUnsupported("partition / split on a separator that is not one concrete character")
        c = ctx()
        if not c.decide(z3.Contains(self.t, z3.StringVal(sep))):
            return False, None, None
        h, tl = SymStr(name="cut_head"), SymStr(name="cut_tail")
        c.assume(self.t == z3.Concat(h.t, z3.StringVal(sep), tl.t))
        c.assume(z3.Not(z3.Contains((tl if from_right else h).t, z3.StringVal(sep))))
        return True, h, tl

    def partition(self, sep):
        ok, h, tl = self._cut(sep, False)
        return (h, sep, tl) if ok else (self, "", "")

    def rpartition(self, sep):
        ok, h, tl = self._cut(sep, True)
        return (h, sep, tl) if ok else ("", "", self)

    def split(self, sep=None, maxsplit=-1):
        if maxsplit != 1:
            self._loud("split without maxsplit=1 (unbounded result)")
        ok, h, tl = self._cut(sep, False)
        return [h, tl] if ok else [self]

    def rsplit(self, sep=None, maxsplit=-1):
        if maxsplit != 1:
            self._loud("rsplit without maxsplit=1 (unbounded result)")
        ok, h, tl = self._cut(sep, True)
        return [h, tl] if ok else [self]

    def find(self, sub, *a):
        if a:
            self._loud("find with start / end")
        return SymInt(z3.IndexOf(self.t, S(sub), z3.IntVal(0)))

    def upper(self): return SymCase(self, "upper")
    def lower(self): return SymCase(self, "lower")


class SymCase(Proxy):
    """s.upper() / s.lower(): only comparable with concrete strings (and usable as a key looked up in a container of concrete strings);
    `s.upper() == "AND"` holds exactly for the strings whose upper() is AND by CPython's own case tables (e.g. also 'and' written with a long s or a dotless i)"""
    __slots__ = ("base", "kind")

    def __init__(self, base, kind):
        self.base = base
        self.kind = kind
        self.t = None

    _INV = {}

    @classmethod
    def _inverse(cls, kind):
        """image string -> code points whose upper() / lower() is that string (exact, from CPython's own tables)"""
        if kind not in cls._INV:
            from . import relang as RL
            inv = {}
            for cp in range(0, RL.MAXCP + 1):
                ch = chr(cp)
                img = ch.upper() if kind == "upper" else ch.lower()
                inv.setdefault(img, []).append(cp)
            cls._INV[kind] = inv
        return cls._INV[kind]

    def _matches(self, const):
        from . import relang as RL
        if not isinstance(const, str):
            raise EngineUnsupported("%s() compared with %s" % (self.kind, type(const).__name__))
        inv = self._inverse(self.kind)
        n = len(const)
        R = [None] * (n + 1)
        R[n] = RL.EPS
        for i in range(n - 1, -1, -1):
            alts = []
            for L in (1, 2, 3):
                if i + L <= n and R[i + L] is not None:
                    cps = inv.get(const[i:i + L])
                    if cps:
                        alts.append(RL.cat(RL.cset(RL._merge([(c, c) for c in cps])), R[i + L]))
            R[i] = RL.alt(*alts) if alts else None
        if R[0] is None:
            return z3.BoolVal(False)
        return z3.InRe(self.base.t, RL.to_z3(R[0]))

    def __eq__(self, o):
        return SymBool(self._matches(o))

    def __ne__(self, o):
        return SymBool(z3.Not(self._matches(o)))

    def __hash__(self):
        raise EngineUnsupported("hash of %s()" % self.kind)

    def __bool__(self):
        return bool(self.base)


class SymInt(Proxy):
    __slots__ = ()
    __hash__ = Proxy.__hash__

    def __init__(self, t=None, name="i"):
        if t is None:
            nm = fresh(name)
            t = z3.Int(nm)
            if Ctx.cur is not None:
                Ctx.cur.register(nm, t)
        self.t = t

    def _bin(self, o, f):
        if isinstance(o, bool) or not isinstance(o, (int, SymInt)):
            return NotImplemented
        return SymInt(z3.simplify(f(self.t, I(o))))

    def __add__(self, o): return self._bin(o, lambda a, b: a + b)
    def __radd__(self, o): return self._bin(o, lambda a, b: b + a)
    def __sub__(self, o): return self._bin(o, lambda a, b: a - b)
    def __rsub__(self, o): return self._bin(o, lambda a, b: b - a)
    def __neg__(self): return SymInt(-self.t)
    def __mul__(self, o): return self._bin(o, lambda a, b: a * b)
    __rmul__ = __mul__

    def _cmp(self, o, f):
        if isinstance(o, bool) or not isinstance(o, (int, SymInt)):
            return NotImplemented
        return SymBool(f(self.t, I(o)))

    def __lt__(self, o): return self._cmp(o, lambda a, b: a < b)
    def __le__(self, o): return self._cmp(o, lambda a, b: a <= b)
    def __gt__(self, o): return self._cmp(o, lambda a, b: a > b)
    def __ge__(self, o): return self._cmp(o, lambda a, b: a >= b)

    def __eq__(self, o):
        if isinstance(o, (int, SymInt)) and not isinstance(o, bool):
            return SymBool(self.t == I(o))
        if hasattr(type(o), "__vf_symbolic__") or (isinstance(o, Proxy) and z3.is_real(getattr(o, "t", None))):
            return NotImplemented      # let the other symbolic number compare
        if isinstance(o, Proxy):
            self._loud("== with %s" % type(o).__name__)
        return False

    def __ne__(self, o):
        if isinstance(o, (int, SymInt)) and not isinstance(o, bool):
            return SymBool(self.t != I(o))
        if hasattr(type(o), "__vf_symbolic__") or (isinstance(o, Proxy) and z3.is_real(getattr(o, "t", None))):
            return NotImplemented
        if isinstance(o, Proxy):
            self._loud("!= with %s" % type(o).__name__)
        return True

    def __bool__(self):
        return ctx().decide(self.t != 0)


# ------------------------------------------------------------------------------------------------
# explorer
# ------------------------------------------------------------------------------------------------

class PathResult:
    def __init__(self, trace, pc, late, obligations, log, symbols, skipped, notes, nqueries):
        self.trace = trace
        self.pc = pc
        self.late = late
        self.obligations = obligations
        self.log = log
        self.symbols = symbols
        self.skipped = skipped
        self.notes = notes
        self.nqueries = nqueries


def explore(run, max_paths=200000):
    """run(ctx) -> list of (name, goal) for one path; goal is a z3 Bool, a SymBool or a python bool.
    Executes run once per feasible path.  Yields PathResult objects."""
    pending = [[]]
    n = 0
    while pending:
        prefix = pending.pop()
        c = Ctx(prefix, pending)
        Ctx.cur = c
        try:
            obls = run(c)
        except PathStop as e:
            obls = e.args[0] if e.args else []
        finally:
            Ctx.cur = None
        n += 1
        if n > max_paths:
            raise EngineUnsupported("path budget exceeded (%d)" % max_paths)
        yield PathResult(c.trace, c.pc, c.late, obls or [], c.log, c.symbols, c.skipped, c.notes, c.nqueries)
