"""Write frames (DESIGN 2.8): snapshot of everything in luqum.* that outlives a call -- module globals, class
dictionaries, module-level singletons and the module lexer/parser objects -- compared before/after a path."""
import sys
import types

_SIMPLE = (str, int, float, bool, type(None), bytes)


def _fp(v, depth=1):
    if isinstance(v, _SIMPLE):
        return ("v", type(v).__name__, v)
    if isinstance(v, (list, tuple)):
        return ("seq", id(v), tuple(_fp(x, 0) if depth else id(x) for x in v))
    if isinstance(v, dict):
        try:
            items = sorted(((repr(k), _fp(x, 0) if depth else id(x)) for k, x in v.items()), key=lambda kv: kv[0])
        except Exception:
            items = [(id(k), id(x)) for k, x in v.items()]
        return ("map", id(v), tuple(items))
    if isinstance(v, (set, frozenset)):
        return ("set", id(v), tuple(sorted(repr(x) for x in v)))
    return ("obj", id(v))


def luqum_modules():
    return {n: m for n, m in sys.modules.items() if (n == "luqum" or n.startswith("luqum.")) and m is not None}


def snapshot(extra_objects=()):
    snap = {}
    mods = luqum_modules()
    classes = set()
    singles = {}
    for mn, mod in mods.items():
        for k, v in list(mod.__dict__.items()):
            if k.startswith("__vf_") or k in ("__builtins__",):
                continue
            snap[("module", mn, k)] = _fp(v)
            if isinstance(v, type) and getattr(v, "__module__", "").startswith("luqum"):
                classes.add(v)
            elif hasattr(v, "__dict__") and not isinstance(v, (types.ModuleType, types.FunctionType, type)):
                tm = getattr(type(v), "__module__", "")
                if tm.startswith("luqum") or tm.startswith("ply."):
                    singles["%s.%s" % (mn, k)] = v
    for c in classes:
        for k, v in list(c.__dict__.items()):
            if k in ("__dict__", "__weakref__"):
                continue
            snap[("class", c.__module__ + "." + c.__qualname__, k)] = _fp(v)
    for name, o in singles.items():
        for k, v in list(o.__dict__.items()):
            snap[("object", name, k)] = _fp(v, 0) if name.endswith(("parser", "lexer")) else _fp(v)
    for name, o in extra_objects:
        for k, v in list(getattr(o, "__dict__", {}).items()):
            snap[("object", name, k)] = _fp(v)
    return snap


def diff(a, b):
    out = []
    for k in a.keys() | b.keys():
        if a.get(k) != b.get(k):
            out.append("%s %s.%s" % k)
    return sorted(out)
