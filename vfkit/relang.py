"""Regular-language reasoning over large character classes (Unicode \\w has 746 ranges, which z3's regex solver
does not handle in reasonable time).  Regexes are kept in a small normalised AST whose character sets are exact
code-point range lists; inclusion / disjointness are decided by Brzozowski derivatives over the minterms of the
character sets involved (complete: the derivative automaton is finite under the ACI normal form used here).
Results are handed to the SMT solver as lemmas between the InRe atoms of a query (see lemmas_for)."""
import z3

MAXCP = 0x2FFFF

EMPTY = ("0",)
EPS = ("e",)


def _merge(ranges):
    rs = sorted((a, b) for a, b in ranges if a <= b)
    out = []
    for a, b in rs:
        if out and a <= out[-1][1] + 1:
            out[-1] = (out[-1][0], max(out[-1][1], b))
        else:
            out.append((a, b))
    return tuple(out)


def cset(ranges):
    rs = _merge(ranges)
    return ("c", rs) if rs else EMPTY


def cset_not(rs):
    out = []
    prev = 0
    for a, b in rs:
        if a > prev:
            out.append((prev, a - 1))
        prev = b + 1
    if prev <= MAXCP:
        out.append((prev, MAXCP))
    return tuple(out)


ANY = ("c", ((0, MAXCP),))


def cat(a, b):
    if a == EMPTY or b == EMPTY:
        return EMPTY
    if a == EPS:
        return b
    if b == EPS:
        return a
    if a[0] == ".":
        return cat(a[1], cat(a[2], b))
    return (".", a, b)


def alt(*xs):
    items = set()
    for x in xs:
        if x == EMPTY:
            continue
        if x[0] == "|":
            items |= x[1]
        else:
            items.add(x)
    # merge single-char sets
    sets = [x for x in items if x[0] == "c"]
    if len(sets) > 1:
        items -= set(sets)
        items.add(cset([r for s in sets for r in s[1]]))
    if ("!", EMPTY) in items:
        return ("!", EMPTY)
    if not items:
        return EMPTY
    if len(items) == 1:
        return next(iter(items))
    return ("|", frozenset(items))


def conj(*xs):
    items = set()
    for x in xs:
        if x == EMPTY:
            return EMPTY
        if x == ("!", EMPTY):
            continue
        if x[0] == "&":
            items |= x[1]
        else:
            items.add(x)
    if not items:
        return ("!", EMPTY)
    if len(items) == 1:
        return next(iter(items))
    return ("&", frozenset(items))


def star(a):
    if a in (EMPTY, EPS):
        return EPS
    if a[0] == "*":
        return a
    return ("*", a)


def neg(a):
    if a[0] == "!":
        return a[1]
    return ("!", a)


def plus(a):
    return cat(a, star(a))


def opt(a):
    return alt(EPS, a)


def lit(s):
    r = EPS
    for ch in reversed(s):
        r = cat(cset([(ord(ch), ord(ch))]), r)
    return r


def loop(a, lo, hi):
    r = EPS
    for _ in range(lo):
        r = cat(a, r)
    if hi is None:
        return cat(r, star(a))
    tail = EPS
    for _ in range(hi - lo):
        tail = opt(cat(a, tail))
    return cat(r, tail)


ALL = star(ANY)

_null = {}


def nullable(r):
    v = _null.get(r)
    if v is not None:
        return v
    k = r[0]
    if k == "e" or k == "*":
        v = True
    elif k in ("0", "c"):
        v = False
    elif k == ".":
        v = nullable(r[1]) and nullable(r[2])
    elif k == "|":
        v = any(nullable(x) for x in r[1])
    elif k == "&":
        v = all(nullable(x) for x in r[1])
    else:
        v = not nullable(r[1])
    _null[r] = v
    return v


def _in(cp, rs):
    for a, b in rs:
        if a <= cp <= b:
            return True
        if cp < a:
            return False
    return False


_der = {}


def deriv(r, cp):
    key = (r, cp)
    v = _der.get(key)
    if v is not None:
        return v
    k = r[0]
    if k in ("0", "e"):
        v = EMPTY
    elif k == "c":
        v = EPS if _in(cp, r[1]) else EMPTY
    elif k == ".":
        v = cat(deriv(r[1], cp), r[2])
        if nullable(r[1]):
            v = alt(v, deriv(r[2], cp))
    elif k == "|":
        v = alt(*[deriv(x, cp) for x in r[1]])
    elif k == "&":
        v = conj(*[deriv(x, cp) for x in r[1]])
    elif k == "*":
        v = cat(deriv(r[1], cp), r)
    else:
        v = neg(deriv(r[1], cp))
    _der[key] = v
    return v


def charsets(r, acc):
    k = r[0]
    if k == "c":
        acc.add(r[1])
    elif k == ".":
        charsets(r[1], acc)
        charsets(r[2], acc)
    elif k in ("|", "&"):
        for x in r[1]:
            charsets(x, acc)
    elif k in ("*", "!"):
        charsets(r[1], acc)


def minterm_reps(sets):
    """one representative code point per minterm of the given character sets"""
    cuts = {0, MAXCP + 1}
    for rs in sets:
        for a, b in rs:
            cuts.add(a)
            cuts.add(b + 1)
    pts = sorted(c for c in cuts if c <= MAXCP)
    seen = {}
    for p in pts:
        sig = tuple(_in(p, rs) for rs in sets)
        if sig not in seen:
            seen[sig] = p
    return sorted(seen.values())


def witness_nonempty(r, limit=20000):
    """a word of L(r), or None if L(r) is empty"""
    sets = set()
    charsets(r, sets)
    reps = minterm_reps(sorted(sets))
    todo = [(r, "")]
    seen = {r}
    n = 0
    while todo:
        cur, w = todo.pop(0)
        if nullable(cur):
            return w
        for cp in reps:
            d = deriv(cur, cp)
            if d != EMPTY and d not in seen:
                seen.add(d)
                todo.append((d, w + chr(cp)))
                n += 1
                if n > limit:
                    raise RuntimeError("regex state budget exceeded")
    return None


_incl = {}


def included(a, b):
    """L(a) subseteq L(b)"""
    key = (a, b)
    if key not in _incl:
        _incl[key] = witness_nonempty(conj(a, neg(b))) is None
    return _incl[key]


def disjoint(a, b):
    key = ("dj", a, b)
    if key not in _incl:
        _incl[key] = witness_nonempty(conj(a, b)) is None
    return _incl[key]


# ------------------------------------------------------------------------------------------------ z3 bridge
_RS = z3.ReSort(z3.StringSort())
_z3cache = {}
REGISTRY = {}      # z3 ast id -> (z3 ast, rx)


def _ch(cp):
    return z3.StringVal(chr(cp))


def to_z3(r):
    v = _z3cache.get(r)
    if v is not None:
        return v
    k = r[0]
    if k == "0":
        v = z3.Empty(_RS)
    elif k == "e":
        v = z3.Re(z3.StringVal(""))
    elif k == "c":
        if r[1] == ((0, MAXCP),):
            v = z3.AllChar(_RS)
        else:
            parts = [z3.Re(_ch(a)) if a == b else z3.Range(_ch(a), _ch(b)) for a, b in r[1]]
            v = parts[0] if len(parts) == 1 else z3.Union(*parts)
    elif k == ".":
        v = z3.Concat(to_z3(r[1]), to_z3(r[2]))
    elif k == "|":
        xs = sorted(r[1], key=repr)
        parts = [to_z3(x) for x in xs]
        v = z3.Union(*parts)
    elif k == "&":
        xs = sorted(r[1], key=repr)
        v = to_z3(xs[0])
        for x in xs[1:]:
            v = z3.Intersect(v, to_z3(x))
    elif k == "*":
        v = z3.Star(to_z3(r[1]))
    else:
        v = z3.Complement(to_z3(r[1]))
    _z3cache[r] = v
    REGISTRY[v.get_id()] = (v, r)
    return v


def _inre_atoms(terms):
    """(string term, z3 regex, rx) for every InRe atom whose regex came from to_z3"""
    out = {}
    seen = set()
    todo = list(terms)
    while todo:
        t = todo.pop()
        i = t.get_id()
        if i in seen:
            continue
        seen.add(i)
        if z3.is_app(t):
            if t.decl().kind() == z3.Z3_OP_SEQ_IN_RE:
                s, rz = t.arg(0), t.arg(1)
                reg = REGISTRY.get(rz.get_id())
                if reg is not None and reg[0].eq(rz):
                    out.setdefault(s.get_id(), (s, []))[1].append((rz, reg[1]))
                continue
            todo.extend(t.children())
    return out


def lemmas_for(terms, max_pairs=40):
    """inclusion / disjointness facts between the regexes applied to the same string in a query"""
    lem = []
    for s, regs in _inre_atoms(terms).values():
        uniq = {}
        for rz, rx in regs:
            uniq[rz.get_id()] = (rz, rx)
        items = list(uniq.values())
        n = 0
        for i, (rz1, rx1) in enumerate(items):
            for j, (rz2, rx2) in enumerate(items):
                if i == j:
                    continue
                n += 1
                if n > max_pairs:
                    break
                try:
                    if included(rx1, rx2):
                        lem.append(z3.Implies(z3.InRe(s, rz1), z3.InRe(s, rz2)))
                    elif i < j and disjoint(rx1, rx2):
                        lem.append(z3.Not(z3.And(z3.InRe(s, rz1), z3.InRe(s, rz2))))
                except RuntimeError:
                    pass
    return lem


def abstraction(terms):
    """substitution pairs replacing every InRe atom over a registered regex by a fresh Boolean.  Together with
    lemmas_for(terms) this is a RELAXATION of the query: unsat of the abstraction implies unsat of the query."""
    pairs = []
    for s, regs in _inre_atoms(terms).values():
        seen = set()
        for rz, rx in regs:
            if rz.get_id() in seen:
                continue
            seen.add(rz.get_id())
            atom = z3.InRe(s, rz)
            pairs.append((atom, z3.Bool("inre!%d!%d" % (s.get_id(), rz.get_id()))))
    return pairs


def _occurs_outside(formulas, sid):
    """does the term with id sid occur outside InRe atoms?"""
    seen = set()
    todo = list(formulas)
    while todo:
        t = todo.pop()
        i = t.get_id()
        if i in seen:
            continue
        seen.add(i)
        if i == sid:
            return True
        if z3.is_app(t):
            if t.decl().kind() == z3.Z3_OP_SEQ_IN_RE and REGISTRY.get(t.arg(1).get_id()) is not None:
                if t.arg(0).get_id() != sid:
                    todo.append(t.arg(0))
                continue
            todo.extend(t.children())
    return False


def exact_abstraction(formulas, max_atoms=5):
    """For every string VARIABLE that occurs in the formulas only as the subject of InRe atoms over registered
    regexes: replace those atoms by Booleans and add the clauses that exclude exactly the unrealisable sign
    combinations (emptiness of the corresponding intersection, decided by derivatives).  The result is
    equisatisfiable with the input; `witness(model)` gives a concrete value for each abstracted string."""
    pairs, clauses, info = [], [], []
    for sid, (s, regs) in _inre_atoms(formulas).items():
        if not (z3.is_const(s) and s.decl().kind() == z3.Z3_OP_UNINTERPRETED):
            continue
        uniq = {}
        for rz, rx in regs:
            uniq[rz.get_id()] = (rz, rx)
        items = list(uniq.values())
        if len(items) > max_atoms or _occurs_outside(formulas, sid):
            continue
        bools = [z3.Bool("inre!%d!%d" % (sid, rz.get_id())) for rz, _ in items]
        try:
            for mask in range(1 << len(items)):
                signs = [(mask >> i) & 1 for i in range(len(items))]
                r = conj(*[(rx if sg else neg(rx)) for (_, rx), sg in zip(items, signs)])
                if witness_nonempty(r) is None:
                    clauses.append(z3.Or([z3.Not(b) if sg else b for b, sg in zip(bools, signs)]))
        except RuntimeError:
            continue
        for (rz, _), b in zip(items, bools):
            pairs.append((z3.InRe(s, rz), b))
        info.append((s, items, bools))

    def witness(model):
        out = {}
        for s, items, bools in info:
            signs = [z3.is_true(model.eval(b, model_completion=True)) for b in bools]
            r = conj(*[(rx if sg else neg(rx)) for (_, rx), sg in zip(items, signs)])
            out[s.decl().name()] = witness_nonempty(r)
        return out
    return pairs, clauses, witness
