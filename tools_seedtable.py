#!/usr/bin/env python3
"""rewrites the table of seeded changes in DESIGN.md (between the SEEDTABLE markers) from seeded/*/meta.json"""
import glob
import json
import re

rows = []
for d in sorted(glob.glob("seeded/*/")):
    m = json.load(open(d + "meta.json"))
    notes = m.get("what_it_needs_to_manifest", "")
    title = ""
    # the first line of the notes is the one-line title (with or without a leading '#')
    for line in notes.splitlines():
        t = line.strip("# ").strip()
        if t and not set(t) <= set("=-") and t.lower() not in ("the change", "change", "what the change is"):
            title = t
            break
    title = re.sub(r"^(Seed(ed change)?\s*\S*\s*[/ ]?\s*\d*\s*[-—–:]+\s*|C\d\d[ ,]*(round \d,?\s*)?seed \S*\s*[-—–:]+\s*)", "", title, flags=re.I).replace("|", "/")
    diff = open(d + "patch.diff").read()
    files = sorted(set(re.findall(r"^\+\+\+ b/(\S+)", diff, re.M)))
    det = []
    for pid, c in m["checks_run"].items():
        if c["exit"] == 1:
            obl = sorted({l.split("replay=")[1].split()[0].split("/", 2)[2].split(".json")[0].split(".")[0][:48] for l in c["first_lines"] if l.startswith("VIOLATION")})
            det.append("%s: %s%s" % (pid, "; ".join(o.replace("|", "/") for o in obl[:2]), "" if c["natively_confirmed"] else " (no native input)"))
    rows.append("| %s | %s | %s | %s |" % (m["id"], ", ".join(f.replace("luqum/", "") for f in files), title[:100], " / ".join(det) or "MISSED"))
s = open("DESIGN.md").read()
a = s.index("<!-- SEEDTABLE-BEGIN -->")
b = s.index("<!-- SEEDTABLE-END -->")
s = s[:a] + "<!-- SEEDTABLE-BEGIN -->\n| seed | files | what it breaks | caught by |\n|------|-------|----------------|-----------|\n" + "\n".join(rows) + "\n" + s[b:]
s = re.sub(r"### 7\.5 Independent seeded changes \(\d+\)", "### 7.5 Independent seeded changes (%d)" % len(rows), s)
open("DESIGN.md", "w").write(s)
print(len(rows), "seeds;", sum(1 for r in rows if r.endswith("MISSED |")), "missed")
