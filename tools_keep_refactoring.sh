#!/bin/sh
# usage: tools_keep_refactoring.sh <dir with patch.diff + notes.md> <name e.g. R01-1> <property>
# applies the behaviour-preserving change in a scratch worktree, runs the test suite and every check that has a function of a touched
# file under contract, and stores patch + verdicts under /verif/refactorings/<name>/ (expected: every check exits 0)
SRC="$1"; NAME="$2"; PROP="$3"
WT=${VFSEED_WT:-/tmp/vfharm}
OUT=/verif/refactorings/$NAME
git -C /repo worktree remove --force $WT >/dev/null 2>&1; rm -rf $WT
git -C /repo worktree add -q --detach $WT HEAD || exit 9
cd $WT
git apply "$SRC/patch.diff" || { echo "$NAME PATCH DOES NOT APPLY"; git -C /repo worktree remove --force $WT; exit 9; }
/venv/bin/python -m pytest -q -p no:cacheprovider -x > /tmp/$(basename $WT)_tests.txt 2>&1; T=$?
FILES=$(grep '^+++ b/' "$SRC/patch.diff" | sed 's|+++ b/||')
CHECKS=$(python3 - $PROP $FILES <<'PY'
import sys
prop, files = sys.argv[1], sys.argv[2:]
M = {"luqum/parser.py": "C01 C02 C03 C04 C14", "luqum/head_tail.py": "C01 C02 C03 C04 C14", "luqum/thread.py": "C14 C04",
     "luqum/tree.py": "C01 C02 C03 C08 C09 C10 C12 C13 C17 C18 C20", "luqum/visitor.py": "C08 C10 C12 C13 C15 C16 C17 C05 C06 C07",
     "luqum/utils.py": "C10 C11 C12 C07 C19", "luqum/naming.py": "C15 C16 C17", "luqum/check.py": "C20 C07", "luqum/auto_head_tail.py": "C13 C11",
     "luqum/pretty.py": "C18", "luqum/exceptions.py": "C04 C07"}
out = [prop]
for f in files:
    for c in (M.get(f) or ("C05 C06 C07 C19" if f.startswith("luqum/elasticsearch/") else "")).split():
        if c not in out:
            out.append(c)
print(" ".join(out))
PY
)
cd /verif
RES=""
for P in $CHECKS; do
  VF_REPO=$WT timeout 1800 ./vf check $P > /tmp/$(basename $WT)_check_$P.txt 2>&1; C=$?
  RES="$RES $P=$C"
  [ $C -ne 0 ] && grep '^VIOLATION\|^UNDECIDED\|^CHECKER' /tmp/$(basename $WT)_check_$P.txt | head -3 | cut -c1-260
done
git -C /repo worktree remove --force $WT >/dev/null 2>&1; rm -rf $WT
mkdir -p $OUT; cp "$SRC/patch.diff" "$SRC/notes.md" $OUT/ 2>/dev/null
python3 - "$OUT" "$NAME" "$PROP" "$T" $RES <<'PY'
import json, sys
out, name, prop, t = sys.argv[1:5]
codes = {kv.split("=")[0]: int(kv.split("=")[1]) for kv in sys.argv[5:]}
meta = {"id": name, "property": prop, "origin": "independent sub-agent given only the property text and a scratch worktree, asked for a behaviour-preserving refactoring",
        "existing_test_suite_exit": int(t), "checks": list(codes), "exit_codes": codes, "quiet": all(c == 0 for c in codes.values())}
json.dump(meta, open(out + "/meta.json", "w"), indent=1)
print(name, "tests_exit=%s" % t, codes, "QUIET" if meta["quiet"] else "NOT-QUIET")
PY
