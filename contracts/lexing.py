"""C01-L / C02-L / C03-K / C04: the lexer step.

Each t_* rule function of the live lexer is run on a real ply LexToken whose matched text is symbolic, from an
abstract tracker state, and must re-establish the tiling invariant

    Inv_L:  consumed == pending_head                      (no token emitted yet)
            consumed == prefix ++ text(last token value)  (otherwise; pending head is None)

where `consumed` is the input read so far (A8: matches are contiguous from offset 0, so the match starts at
lexpos == |consumed|), `prefix` is the ghost text of the earlier tokens (never written again: frame).
"""
import z3

from vfkit import core, ext, model, sym
from vfkit.sym import EngineUnsupported, SymBool, SymInt, SymStr, S, I, ctx

import ply.lex as lex
import luqum.parser as P
import luqum.tree as T
import luqum.head_tail as HT
import luqum.exceptions as X
from . import parsing

STATES = ["first", "after-separator", "after-token"]


class StaleTrackerUsed(Exception):
    """read-frame violation: the tracker left by a previous input was used for the first token of a new one"""


class Poison:
    """stands for a stale tracker of a previous input: any use violates the read frame of C04-H(b)"""

    def __getattr__(self, k):
        raise StaleTrackerUsed("head/tail tracker of a previous parse was read (.%s) for the first token" % k)

    def __setattr__(self, k, v):
        raise StaleTrackerUsed("head/tail tracker of a previous parse was written (.%s)" % k)


class SpyLexer:
    """stands for the lexer in use: records every attribute read and written by the rule functions.
    C04-H: the only state a rule may keep on the lexer is the head/tail tracker, which is never read for the
    first match of an input (so nothing survives from one input to the next)."""

    def __init__(self):
        object.__setattr__(self, "_reads", [])
        object.__setattr__(self, "_writes", [])

    def __getattribute__(self, k):
        if k.startswith("__") or k in ("_reads", "_writes"):
            return object.__getattribute__(self, k)
        object.__getattribute__(self, "_reads").append(k)
        return object.__getattribute__(self, k)

    def __setattr__(self, k, v):
        object.__getattribute__(self, "_writes").append(k)
        object.__setattr__(self, k, v)


def rules():
    """(rule name, function, token type, pattern) for every function rule of the live lexer"""
    out = []
    for name in sorted(n for n in dir(P) if n.startswith("t_") and n not in ("t_error", "t_ignore")):
        fn = getattr(P, name)
        if not callable(fn):
            raise EngineUnsupported("string lexer rule %s (no function): not arranged" % name)
        rx = getattr(fn, "regex", None) or fn.__doc__
        out.append((name, fn, name[2:], rx))
    return out


def matched_text(ttype, rx, c):
    """symbolic matched text of a rule + the replay recipe"""
    if ttype == "SEPARATOR":
        m = SymStr(name="m")
        c.assume(z3.Length(m.t) >= 1)
        c.assume_late(z3.InRe(m.t, parsing.WS_PLUS))
        return m
    if ttype == "TERM":
        m = SymStr(name="m")
        c.assume(z3.Length(m.t) >= 1)
        ext.known_in_language(m, rx)
        return m
    if ttype in ("PHRASE", "REGEX"):
        q = '"' if ttype == "PHRASE" else "/"
        inner = SymStr(name="inner")
        m = q + inner + q
        ext.known_in_language(m, rx)
        return m
    if ttype in ("APPROX", "BOOST"):
        lit = "~" if ttype == "APPROX" else "^"
        d = SymStr(name="num")
        c.assume(z3.Or(d.t == "", z3.InRe(d.t, parsing.NUMERAL)))
        m = lit + d
        ext.known_in_language(m, rx)
        return m
    alts = parsing.finite_language(ext.full_language(rx, 0))
    k = z3.Int(sym.fresh("alt"))
    c.register("alt", k)
    c.assume(z3.And(k >= 0, k < len(alts)))
    i = c.choose([(k == j, j) for j in range(len(alts))])
    return alts[i]


def run_rule(cx, rule, state, want):
    name, fn, ttype, rx = rule
    if not isinstance(getattr(HT.HeadTailLexer, "LEXER_ATTR", None), str):
        # anchor of C04 / C14: the head/tail tracker is an attribute of the lexer object in use (token.lexer), named by
        # HeadTailLexer.LEXER_ATTR; when it lives elsewhere the step contract cannot even be arranged - reported, not crashed on
        return [("C04-H/%s/%s/lexer-state: the tracker is kept on the lexer in use (HeadTailLexer.LEXER_ATTR)" % (name, state),
                 (False, {"why": "HeadTailLexer.LEXER_ATTR is gone: the tracker is no longer an attribute of token.lexer"}))]
    m = matched_text(ttype, rx, cx)
    lexer = SpyLexer()
    tok = lex.LexToken()
    tok.type = ttype
    tok.value = m
    tok.lineno = 1
    tok.lexer = lexer
    consumed = None
    prefix = None
    last = None
    pending = None
    if state == "first":
        tok.lexpos = 0
        consumed = ""
        object.__setattr__(lexer, HT.HeadTailLexer.LEXER_ATTR, Poison())
    else:
        tracker = HT.HeadTailLexer()
        if state == "after-separator":
            pending = SymStr(name="pending")
            cx.assume(z3.Length(pending.t) >= 1)
            tracker.head = pending
            consumed = pending
        else:
            # the last emitted token: value object with symbolic layout (any kind of value: TokenValue here,
            # the tracker only touches .tail of it)
            last = lex.LexToken()
            last.type = "x"
            lv = HT.TokenValue("x")
            lv.head = SymStr(name="last_head")
            lv.tail = SymStr(name="last_tail")
            last.value = lv
            lmatched = SymStr(name="last_m")
            prefix = SymStr(name="prefix")
            tracker.last_elt = last
            consumed = prefix + lv.head + lmatched + lv.tail
        object.__setattr__(lexer, HT.HeadTailLexer.LEXER_ATTR, tracker)
        tok.lexpos = rewriteless_len(consumed)
        cx.assume(I(tok.lexpos) >= 1)
    sample = {"TERM": "w", "PHRASE": '"p q"', "REGEX": "/r/", "APPROX": "~2.50", "BOOST": "^02.0", "SEPARATOR": "  "}.get(
        ttype, m if isinstance(m, str) else "w")
    ctxq = {"APPROX": "w%s", "BOOST": "w%s", "COLUMN": "f%sw", "RPAREN": "(w%s", "RBRACKET": "[a TO b%s",
            "LPAREN": "%sw)", "LBRACKET": "%sa TO b]", "AND_OP": "w %s w", "OR_OP": "w %s w", "PLUS": "%sw",
            "MINUS": "%sw", "LESSTHAN": "%sw", "GREATERTHAN": "%sw", "NOT": "%sw", "SEPARATOR": "w%sw"}.get(ttype, "%s")
    pre = {"first": "", "after-separator": " \t", "after-token": "v  "}[state]
    if state == "first":
        qs = [ctxq.split("%s")[0] and sample or ctxq % sample, "zz yy", sample + " x"]
    else:
        qs = [pre + (ctxq % sample), "x y", pre + sample, "x " + pre + (ctxq % sample) + "  y"]
    cx.notes["replay_info"] = {"rule": name, "state": state, "queries": qs + ["a b", " a  b ", "a~2 b"],
                               "sequence": True}
    outcome = None
    ret = None
    try:
        ret = fn(tok)
    except X.ParseError as e:
        outcome = e
    except (EngineUnsupported, sym.PathStop):
        raise
    except Exception as e:  # noqa: BLE001
        outcome = e
    key = "%s/%s" % (name, state)
    obls = []
    if "C04" in want:
        attr = HT.HeadTailLexer.LEXER_ATTR
        reads = object.__getattribute__(lexer, "_reads")
        writes = object.__getattribute__(lexer, "_writes")
        allowed_reads = set() if state == "first" else {attr}
        obls.append(("C04-H/%s/lexer-state: only the tracker is kept on the lexer, never read for a first match" % key,
                     (set(reads) <= allowed_reads and set(writes) <= {attr},
                      {"reads": sorted(set(reads)), "writes": sorted(set(writes))})))
    if outcome is not None:
        if "C04" in want:
            obls.append(("C04-X/%s/raises-only-ParseError" % key,
                         (isinstance(outcome, X.ParseError), {"exception": core.exc_desc(outcome)})))
        else:
            obls.append(("C01-L/%s/no-exception" % key, (False, {"exception": core.exc_desc(outcome)})))
        return obls
    tr = object.__getattribute__(lexer, HT.HeadTailLexer.LEXER_ATTR)
    new_consumed = consumed + m
    if isinstance(tr, Poison):
        obls.append(("C01-L/%s/tracker-reset" % key, False))
        return obls
    if ttype == "SEPARATOR":
        if "C01" in want:
            obls.append(("C01-L/%s/discarded" % key, ret is None))
            if state == "first":
                obls.append(("C01-L/%s/tiling" % key, conj(tr.last_elt is None, tr.head is not None,
                                                            S(tr.head or "") == S(new_consumed))))
            elif state == "after-token":
                lv = last.value
                ok = tr.last_elt is last and tr.head is None
                obls.append(("C01-L/%s/tiling" % key,
                             conj(ok, S(prefix + lv.head + lmatched + lv.tail) == S(new_consumed))))
        return obls
    # a real token
    if "C04" in want:
        obls.append(("C04-X/%s/returns-token" % key, ret is tok))
    v = tok.value
    if "C01" in want:
        obls.append(("C01-L/%s/emitted" % key, ret is tok and tr.last_elt is tok and tr.head is None))
        exp_head = pending if state == "after-separator" else ""
        obls.append(("C01-L/%s/head" % key, S(v.head) == S(exp_head)))
        obls.append(("C01-L/%s/tail-empty" % key, S(v.tail) == ""))
        # tiling: consumed' == prefix' ++ head ++ m ++ tail  with prefix' = text of everything before
        if state == "after-token":
            lv = last.value
            pre2 = prefix + lv.head + lmatched + lv.tail
        else:
            pre2 = ""
        obls.append(("C01-L/%s/tiling" % key, S(pre2 + v.head + m + v.tail) == S(new_consumed)))
        # value carries the matched text
        if ttype in ("TERM", "PHRASE", "REGEX") and tok.type == ttype:
            cls = {"TERM": T.Word, "PHRASE": T.Phrase, "REGEX": T.Regex}[ttype]
            obls.append(("C01-L/%s/value" % key, conj(type(v) is cls, S(v.value) == S(m))))
        elif ttype in ("APPROX", "BOOST"):
            d = SymStr(z3.SubString(S(m), 1, z3.Length(S(m)) - 1))
            if v.value is None:
                obls.append(("C01-L/%s/value" % key, S(d) == ""))
            else:
                obls.append(("C01-L/%s/value" % key, z3.And(S(v.value) == S(d), z3.Length(S(d)) >= 1)))
        else:
            obls.append(("C01-L/%s/value" % key, conj(isinstance(v, HT.TokenValue), S(v.value) == S(m))))
        # link to C01-G: the productions are proved for tokens whose text is in the language of their type; a rule that re-types its
        # token (t_TERM: reserved words) must only do so for a text of the new type, spelled as the tree prints it
        if tok.type != ttype:
            spell = [w for w, typ in P.reserved.items() if typ == tok.type]
            obls.append(("C01-L/%s/re-typed-token-is-spelled-as-its-type-is-printed" % key,
                         z3.Or([S(m) == w for w in spell]) if spell else False))
        if state == "after-token":
            lv = last.value
            obls.append(("C01-L/%s/frame-last" % key, True if lv.tail is lv.tail else False))
    if "C02" in want:
        if v.pos is None or v.size is None:
            obls.append(("C02-L/%s/pos-size-set" % key, False))
        else:
            obls.append(("C02-L/%s/pos" % key, I(v.pos) == I(tok.lexpos)))
            obls.append(("C02-L/%s/size" % key, I(v.size) == z3.Length(S(m))))
            # start of the widened span = end of everything consumed before minus the pending head
            obls.append(("C02-L/%s/start" % key,
                         I(v.pos) - z3.Length(S(v.head)) == z3.Length(S(consumed)) - z3.Length(S(exp_head_of(state, pending)))))
    if "C03" in want and ttype == "TERM":
        res = P.reserved
        conds = []
        for word, typ in res.items():
            conds.append(z3.Implies(S(m) == word, z3.BoolVal(tok.type == typ)))
        notres = z3.And([S(m) != w for w in res])
        conds.append(z3.Implies(notres, z3.BoolVal(tok.type == "TERM")))
        obls.append(("C03-K/%s/reserved-iff-whole-token" % key, z3.And(conds)))
        if tok.type == "TERM":
            obls.append(("C03-K/%s/word-value" % key, conj(type(v) is T.Word, S(v.value) == S(m))))
    return obls


def conj(*xs):
    out = []
    for x in xs:
        if isinstance(x, bool):
            if not x:
                return False
            continue
        out.append(x.t if isinstance(x, SymBool) else x)
    if not out:
        return True
    return z3.And(out) if len(out) > 1 else out[0]


def exp_head_of(state, pending):
    return pending if state == "after-separator" else ""


def rewriteless_len(s):
    from vfkit import rewrite
    return rewrite.vf_len(s) if not isinstance(s, str) else len(s)


def lexer_cases(want):
    out = []
    for rule in rules():
        for st in STATES:
            if rule[2] == "SEPARATOR" and st == "after-separator":
                continue   # A3: \s+ is maximal, two separator matches are never adjacent
            key = "lex/%s/%s" % (rule[0], st)
            out.append(core.Case(key, (lambda cx, rule=rule, st=st: run_rule(cx, rule, st, want)),
                                 functions=["luqum.parser." + rule[0]]))
    return out


def t_error_case(want):
    """t_error raises an IllegalCharacterError on every path"""
    def run(cx):
        tok = lex.LexToken()
        tok.type = "error"
        tok.value = SymStr(name="rest")
        tok.lexpos = SymInt(name="lexpos")
        tok.lineno = 1
        tok.lexer = SpyLexer()
        try:
            P.t_error(tok)
        except X.ParseError:
            return [("C04-X/t_error/raises-ParseError", True)]
        except (EngineUnsupported, sym.PathStop):
            raise
        except Exception as e:  # noqa: BLE001
            return [("C04-X/t_error/raises-ParseError", (False, {"exception": repr(e)}))]
        return [("C04-X/t_error/raises-ParseError", (False, {"returned": True}))]
    return core.Case("lex/t_error", run, functions=["luqum.parser.t_error"])


def functions_under_contract():
    return ["luqum.head_tail.HeadTailLexer.handle", "luqum.head_tail.HeadTailLexer.handle_token",
            "luqum.head_tail.HeadTailLexer.__init__", "luqum.parser.simple_token"] + \
           ["luqum.parser." + r[0] for r in rules()]
