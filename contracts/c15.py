"""C15 — auto_name gives distinct names to the operands of operations, mapped to their paths.  DESIGN 3.C15."""
import itertools

import z3

from vfkit import core, ext, model, paths, rewrite, sym, uniform
from vfkit import relang as RL
from vfkit.check import Plan
from vfkit.paths import SymPath, P, RecDict
from vfkit.sym import EngineUnsupported, PathStop, S, I, SymBool, SymInt, SymStr, ctx

from . import c01, c08, treecases

import luqum.tree as T
import luqum.naming as N
import luqum.visitor as V


def alphabet_rx():
    letters = N.TreeAutoNamer.LETTERS
    return RL.plus(RL.cset([(ord(ch), ord(ch)) for ch in letters]))


def issued_name(cx, label="name"):
    """an arbitrary issued name: any word over the alphabet followed by one letter of the live look-up table
    (exhaustive fork over the table: every path has a concrete last letter)"""
    w = SymStr(name=label + "_prefix")
    cx.assume(z3.InRe(w.t, RL.to_z3(RL.star(RL.cset([(ord(ch), ord(ch)) for ch in N.TreeAutoNamer.LETTERS])))))
    keys = list(N.TreeAutoNamer._pos_letter)
    k = z3.Int(sym.fresh(label + "_last"))
    cx.register(label + "_last", k)
    cx.assume(z3.And(k >= 0, k < len(keys)))
    j = cx.choose([(k == i, i) for i in range(len(keys))])
    return w + keys[j], w, keys[j]


def rank_pos(ch):
    """rank of a letter = what the real look-up table returns for it"""
    return N.TreeAutoNamer._pos_letter[ch]


def next_name_cases():
    cases = []

    def run(cx):
        namer = N.TreeAutoNamer()
        name, w, last = issued_name(cx)
        try:
            r = namer.next_name(name)
        except (EngineUnsupported, PathStop):
            raise
        except Exception as e:  # noqa: BLE001
            return [("C15-N/next_name/never-raises-on-issued-names", (False, {"exception": core.exc_desc(e)}))]
        n = z3.Length(S(name))
        rt = S(r)
        rlast = z3.SubString(rt, z3.Length(rt) - 1, 1)
        rank_r = z3.IntVal(-1)
        for ch, pos in N.TreeAutoNamer._pos_letter.items():
            rank_r = z3.If(rlast == z3.StringVal(ch), z3.IntVal(pos), rank_r)
        greater = z3.Or(z3.Length(rt) > n, z3.And(z3.Length(rt) == n, rank_r > rank_pos(last)))
        alpha = RL.to_z3(alphabet_rx())
        # the result is the name with its last letter replaced, or the name with one letter appended
        shape = z3.Or([rt == z3.Concat(w.t, z3.StringVal(ch)) for ch in N.TreeAutoNamer.LETTERS] +
                      [rt == z3.Concat(S(name), z3.StringVal(ch)) for ch in N.TreeAutoNamer.LETTERS])
        return [("C15-N/next_name/never-raises-on-issued-names", True),
                ("C15-N/next_name/rank-strictly-increases", greater),
                ("C15-N/next_name/stays-in-the-alphabet: only the last position changes or one letter is appended", shape)]
    cases.append(core.Case("C15-N/next_name", run, functions=["luqum.naming.TreeAutoNamer.next_name"], expect_paths_min=10))

    def run_boot(cx):
        namer = N.TreeAutoNamer()
        r = namer.next_name(None)
        return [("C15-N/next_name/bootstrap-is-the-first-letter", r == N.TreeAutoNamer.LETTERS[0]),
                ("C15-N/table/every-letter-has-a-rank-and-the-successor-of-a-letter-ranks-higher",
                 all(ch in N.TreeAutoNamer._pos_letter for ch in N.TreeAutoNamer.LETTERS) and
                 all(N.TreeAutoNamer._pos_letter[N.TreeAutoNamer.LETTERS[p + 1]] > p
                     for p in set(N.TreeAutoNamer._pos_letter.values()) if p + 1 < len(N.TreeAutoNamer.LETTERS)))]
    cases.append(core.Case("C15-N/bootstrap", run_boot, functions=["luqum.naming.TreeAutoNamer.next_name"]))
    return cases


class OneGeneric(tuple):
    """operand tuple standing for 'the i-th operand' of an operation, i symbolic: enumerate yields (i, child)"""
    __vf_symbolic__ = True

    def __new__(cls, child, index):
        o = tuple.__new__(cls, (child,))
        o.vf_index = index
        return o

    def __vf_enumerate__(self, *a):
        return iter([(self.vf_index, self[0])])

    def __vf_len__(self):
        raise EngineUnsupported("len of a generic operand window")

    def __vf_list__(self):
        return OneGenericList(self)

    def __vf_tuple__(self):
        return self


class OneGenericList(list):
    """list(children) of a generic operand window: still 'the i-th operand'"""
    __vf_symbolic__ = True

    def __init__(self, src):
        list.__init__(self, [src[0]])
        self.vf_index = src.vf_index

    def __vf_enumerate__(self, *a):
        return iter([(self.vf_index, self[0])])

    def __vf_len__(self):
        raise EngineUnsupported("len of a generic operand window")

    def __vf_list__(self):
        return OneGenericList(self)

    def __vf_tuple__(self):
        return OneGeneric(self[0], self.vf_index)


def visit_cases():
    cases = []
    for cls in [c for c in model.UNIVERSE if issubclass(c, T.BaseOperation)]:
        def run(cx, cls=cls):
            """one generic iteration of the naming loop (step of the invariant 'child j carries the j-th successor
            of the entry name, name_to_path gained exactly name_j -> path + (j,)'), followed by the loop exit"""
            child = model.AbsNode("child", layout="none")
            i = SymInt(name="i")
            cx.assume(i.t >= 0)
            node = cls()
            node.operands = OneGeneric(child, i)
            namer = N.TreeAutoNamer()
            visited = []

            def stub(n_, context):
                visited.append((n_, dict(context)))
                return iter(())
            namer.visit_iter = stub
            name0, _, _ = issued_name(cx)
            ntp = RecDict()
            glob = {"name": name0, "name_to_path": ntp}
            path = SymPath(name="path")
            ctx0 = {"global": glob, "path": path}
            snap = dict(ctx0)
            m = V.TreeVisitor._get_method(namer, node)
            out = list(m(node, ctx0))
            expected = N.TreeAutoNamer.next_name(namer, name0)
            got = child.__dict__.get(N.NAME_ATTR)
            key = "C15-V/%s" % cls.__name__
            obls = [(key + "/handler-is-the-naming-handler",
                     getattr(getattr(m, "__func__", None), "__module__", None) == "luqum.naming" and getattr(m, "__self__", None) is namer),
                    (key + "/operand-gets-the-successor-of-the-current-name",
                     got is not None and S(got) == S(expected)),
                    (key + "/mapping-gains-exactly-name-to-path-plus-index",
                     len(ntp.writes) == 1 and z3.And(S(ntp.writes[0][0]) == S(expected),
                                                     P(ntp.writes[0][1]) == z3.Concat(path.t, z3.Unit(i.t)))
                     if len(ntp.writes) == 1 else False),
                    (key + "/current-name-written-back", S(glob["name"]) == S(expected) and glob["name_to_path"] is ntp),
                    (key + "/context-otherwise-untouched", all(ctx0.get(k) is v for k, v in snap.items()) and len(ctx0) == len(snap)
                     and set(glob) == {"name", "name_to_path"}),
                    (key + "/then-children-visited-with-their-index-paths",
                     len(visited) == 1 and visited[0][0] is child and isinstance(visited[0][1].get("path"), SymPath)
                     and z3.And(visited[0][1]["path"].t == z3.Concat(path.t, z3.Unit(i.t)))
                     if len(visited) == 1 and isinstance(visited[0][1].get("path"), SymPath) else False),
                    (key + "/only-the-name-attribute-of-the-operand-is-written",
                     [e[2] for e in cx.log if e[0] == "write" and e[1] is child] == [N.NAME_ATTR])]
            return obls
        cases.append(core.Case("C15-V/" + cls.__name__, run,
                               functions=["luqum.naming.TreeAutoNamer.visit_base_operation", "luqum.naming.set_name"]))

    # non-operations: no name set, mapping untouched, children visited with index paths
    for la, mk, cls in treecases.instances(layout="none", ops_shapes=(2,)):
        if issubclass(cls, T.BaseOperation) or ".parsed" in la or ".implicit" in la:
            continue

        def run2(cx, la=la, mk=mk, cls=cls):
            x, kids = mk("x")
            namer = N.TreeAutoNamer()
            visited = []

            def stub(n_, context):
                visited.append((n_, dict(context)))
                return iter(())
            namer.visit_iter = stub
            ntp = RecDict()
            name0 = SymStr(name="name")
            glob = {"name": name0, "name_to_path": ntp}
            path = SymPath(name="path")
            m = V.TreeVisitor._get_method(namer, x)
            list(m(x, {"global": glob, "path": path}))
            key = "C15-V/%s" % la
            return [(key + "/non-operation-names-nothing",
                     not ntp.writes and glob["name"] is name0 and not [e for e in cx.log if e[0] == "write"]
                     and N.NAME_ATTR not in getattr(x, "__dict__", {})),
                    (key + "/children-visited-in-order-with-index-paths",
                     len(visited) == len(kids) and all(v[0] is k for v, k in zip(visited, kids)) and
                     all(isinstance(v[1].get("path"), SymPath) for v in visited) and
                     z3.And([v[1]["path"].t == z3.Concat(path.t, z3.Unit(z3.IntVal(j))) for j, v in enumerate(visited)] or [z3.BoolVal(True)]))]
        cases.append(core.Case("C15-V/" + la, run2, functions=["luqum.visitor.PathTrackingVisitor.generic_visit"]))

    def run_entry(cx):
        """TreeAutoNamer.visit: fresh state; root named iff no name was issued"""
        namer = N.TreeAutoNamer()
        calls = []

        def stub(n_, context):
            calls.append(context)
            return iter(())
        namer.visit_iter = stub
        root = model.AbsNode("root", layout="none")
        r = namer.visit(root)
        ok1 = (r == {"a": ()} and root.__dict__.get(N.NAME_ATTR) == "a" and calls[0]["path"] == ()
               and calls[0].get("global", {}).get("name_to_path") is r)

        def stub2(n_, context):
            context["global"]["name_to_path"]["q"] = (0,)
            context["global"]["name"] = "q"
            return iter(())
        namer2 = N.TreeAutoNamer()
        namer2.visit_iter = stub2
        root2 = model.AbsNode("root2", layout="none")
        r2 = namer2.visit(root2)
        ok2 = r2 == {"q": (0,)} and N.NAME_ATTR not in root2.__dict__
        r3 = N.auto_name(T.Word("w"))
        return [("C15-V/entry/root-alone-is-named-when-there-is-no-operation", ok1),
                ("C15-V/entry/root-not-named-when-operands-were-named-and-mapping-returned-as-is", ok2),
                ("C15-V/entry/auto_name-returns-the-mapping", r3 == {"a": ()})]
    cases.append(core.Case("C15-V/entry", run_entry, functions=["luqum.naming.TreeAutoNamer.visit", "luqum.naming.auto_name"]))
    return cases


WHILE_KEY = "luqum.naming.element_from_path#while0"
FOR_KEY = "luqum.naming.element_from_path#0"
REST = object()


class PathCut:
    """cut-point of the loop of element_from_path, for either spelling of it: `while path: node = node.children[path.pop(0)]` or
    `for position in path: node = node.children[position]`.  From an arbitrary state (node, index i first) one iteration gives
    node.children[i] and leaves the rest of the path for the next iterations; decreases the number of indices left.
    The state variables are found by what they hold at the loop head (the tree given as argument, the copy of the path), not by name."""

    def __init__(self, node, i, entry):
        self.node, self.i, self.entry = node, i, entry
        self.entered = False
        self.rest = SymInt(name="next_index")     # stands for the rest of the path (never to be used in this step)
        self.v_node = self.v_path = None

    def enter(self, loc):
        self.entered = True
        names = getattr(self, "rebindable", ()) or tuple(loc)
        self.v_node = rewrite.state_variable(loc, names, lambda v: v is self.entry, "the node reached so far")
        out = {self.v_node: self.node}
        paths_ = [n for n in names if isinstance(loc.get(n), list) and loc[n] == [0]]
        if len(paths_) == 1:                       # the `while` spelling consumes a private copy of the path
            self.v_path = paths_[0]
            out[self.v_path] = [self.i, self.rest]
        return out

    def iterable(self, it):
        """the `for` spelling: one generic iteration, over the index i"""
        if list(it) != [0]:
            raise EngineUnsupported("the loop of element_from_path does not iterate over the path")
        return [self.i]

    def step(self, loc):
        n2 = loc[self.v_node]
        kids = list(self.node.children)
        conj = [z3.And(self.i.t == j, z3.BoolVal(n2 is kids[j])) for j in range(len(kids))]
        rest_ok = True
        if self.v_path is not None:
            p2 = loc[self.v_path]
            rest_ok = isinstance(p2, list) and len(p2) == 1 and p2[0] is self.rest
        raise PathStop([("C15-P/element_from_path/step: descends into child i and consumes one index",
                         (z3.Or(conj) if conj else z3.BoolVal(False))),
                        ("C15-P/element_from_path/step: rest of the path untouched, length decreases", rest_ok)])


def path_cases():
    cases = []
    for la, mk, cls in treecases.instances(layout="none", ops_shapes=(1, 2)):
        if ".parsed" in la or ".implicit" in la or cls is T.NoneItem:
            continue

        def run(cx, la=la, mk=mk):
            x, kids = mk("x")
            if not kids:
                return [("C15-P/element_from_path/%s/empty-path-is-the-tree" % la, N.element_from_path(x, ()) is x)]
            i = SymInt(name="i")
            cx.assume(z3.And(i.t >= 0, i.t < len(kids)))
            entry = T.Group(T.Word("entry"))          # a valid (tree, path) pair: the state is replaced at the loop head
            cut = PathCut(x, i, entry)
            rewrite.WHILE_CUTS[WHILE_KEY] = cut
            rewrite.WHILE_CUTS[FOR_KEY] = cut
            rewrite.LOOP_CUTS[FOR_KEY] = cut.iterable
            try:
                N.element_from_path(entry, (0,))
            finally:
                rewrite.WHILE_CUTS.pop(WHILE_KEY, None)
                rewrite.WHILE_CUTS.pop(FOR_KEY, None)
                rewrite.LOOP_CUTS.pop(FOR_KEY, None)
            raise EngineUnsupported("the loop under a cut-point contract was not reached: the code was restructured")
        cases.append(core.Case("C15-P/element_from_path/" + la, run, functions=["luqum.naming.element_from_path"]))

    def run_exit(cx):
        w = T.Word("w")
        g = T.Group(T.OrOperation(T.Word("a"), w))
        return [("C15-P/element_from_path/empty-path-returns-the-node", N.element_from_path(g, ()) is g),
                ("C15-P/element_from_path/does-not-consume-the-callers-path",
                 (lambda p: (N.element_from_path(g, p) is w) and p == [0, 1])([0, 1])),
                ("C15-P/element_from_name/looks-the-path-up", N.element_from_name(g, "x", {"x": (0, 1)}) is w)]
    cases.append(core.Case("C15-P/exit", run_exit, functions=["luqum.naming.element_from_path", "luqum.naming.element_from_name"]))
    return cases


def matching_table():
    """F (exhaustive): matching_from_names on every subset of a 4-name mapping"""
    ntp = {"a": (0,), "b": (1,), "c": (1, 0), "d": ()}
    fails = []
    n = 0
    for r in range(len(ntp) + 1):
        for names in itertools.combinations(sorted(ntp), r):
            n += 1
            m, o = N.matching_from_names(list(names), ntp)
            if m != {ntp[k] for k in names} or o != {ntp[k] for k in ntp if k not in names} or not isinstance(m, set):
                fails.append({"id": "+".join(names) or "none", "names": names, "result": [sorted(m), sorted(o)], "native_confirmed": True})
    return {"ok": not fails, "checked": n, "failures": fails, "samples": [{"names": ["a", "c"], "result": [[(0,), (1, 0)], [(), (1,)]]}],
            "exhaustive": True, "detail": "all subsets of names of a 4-entry mapping"}


REPLAY_CODE = '''
from luqum.naming import auto_name, get_name, element_from_path, element_from_name, TreeAutoNamer
from luqum.parser import parser
problems = []
def paths_of(n, p=()):
    yield p, n
    for i, c in enumerate(n.children):
        yield from paths_of(c, p + (i,))
big = T.OrOperation(*[T.Word('w%d' % i) for i in range(130)])
trees = [parser.parse(q) for q in ['a', 'a b', 'a AND (b OR c) AND NOT d', 'f:(x y) OR -z^2', '(a b) (c d) e', '"p" [1 TO 2] a~ OR b',
                                   '(x OR y) AND (x OR y)', 'x AND x AND (x OR x)', '(a OR b)', 'NOT (a AND b)', 'title:(foo bar)', '(a b)^2', '+(a b c)']]
trees += [big, T.AndOperation(T.OrOperation(*[T.Word('x%d' % i) for i in range(60)]), T.UnknownOperation(*[T.Word('y%d' % i) for i in range(60)])), T.Group(T.AndOperation(T.Word('solo')))]
for t in trees:
    m = auto_name(t)
    named = {p: get_name(n) for p, n in paths_of(t) if get_name(n) is not None}
    expect = {p for p, n in paths_of(t) if p and isinstance(element_from_path(t, p[:-1]), T.BaseOperation)}
    if not any(isinstance(n, T.BaseOperation) for _, n in paths_of(t)):
        expect = {()}
    if set(named) != expect:
        problems.append('%r: named elements %r, expected %r' % (str(t)[:40], sorted(named)[:6], sorted(expect)[:6]))
    if len(set(named.values())) != len(named):
        problems.append('%r: names are not distinct (%d names for %d elements)' % (str(t)[:40], len(set(named.values())), len(named)))
    if {v: k for k, v in named.items()} != m:
        problems.append('%r: returned mapping differs from names -> true paths' % str(t)[:40])
    for name, p in m.items():
        if get_name(element_from_path(t, p)) != name or element_from_name(t, name, m) is not element_from_path(t, p):
            problems.append('%r: mapping %r -> %r does not lead to the element carrying it' % (str(t)[:40], name, p))
            break
names = []
n = None
for _ in range(400):
    n = TreeAutoNamer().next_name(n)
    names.append(n)
if len(set(names)) != len(names):
    problems.append('successive names repeat: %r' % [x for x in names if names.count(x) > 1][:3])
violated = bool(problems)
observation = '; '.join(problems[:3]) or 'as specified'
'''


def replay_builder(rec):
    from vfkit import witness
    return [{"kind": "script", "code": witness.PRELUDE + REPLAY_CODE}]


def canary():
    def run(cx):
        namer = N.TreeAutoNamer()
        name, _, _ = issued_name(cx)
        r = namer.next_name(name)
        return [("canary/successor-has-the-same-length", z3.Length(S(r)) == z3.Length(S(name)))]
    return core.Case("canary/next_name", run, canary=True)


LOOPS = [("luqum.visitor.PathTrackingVisitor.generic_visit", 0)]


def plan(tier, seed):
    pl = Plan("C15", "proof")
    pl.cases = next_name_cases() + visit_cases() + path_cases()
    pl.canaries = [canary()]
    pl.finite = [("C15-F/matching_from_names", matching_table), ("C15-U/uniform-loops", lambda: uniform.check(LOOPS))]
    from vfkit import lean as _leanc
    pl.finite.append(("A6/Lean re-check of the composition lemmas L-IND", _leanc.compose_check('L-IND')))
    ntok = 4 if tier == "quick" else 7

    def net():
        from vfkit import bounded as _b
        return _b.run_native("c15_naming", {"max_tokens": ntok, "known": _b.known_for("C15", "C15-B")})
    pl.bounded = [("C15-B/names, mapping and paths on whole trees incl. 50+ operands and pre-named trees (safety net)", net)]
    pl.functions = ["luqum.naming.TreeAutoNamer.next_name", "luqum.naming.TreeAutoNamer.visit_base_operation",
                    "luqum.naming.TreeAutoNamer.visit", "luqum.naming.auto_name", "luqum.naming.set_name", "luqum.naming.get_name",
                    "luqum.naming.element_from_path", "luqum.naming.element_from_name", "luqum.naming.matching_from_names",
                    "luqum.visitor.PathTrackingVisitor.generic_visit", "luqum.visitor.PathTrackingMixin.visit"]
    pl.min_obligations = 40
    pl.replay_builder = replay_builder
    pl.assumptions = c01.ASSUMPTIONS
    pl.trusted_base = c01.TRUSTED
    pl.lemmas = ["distinctness (paper): by C15-N the rank (length, rank of last letter) of successive names strictly increases, "
                 "so the chain of issued names is strictly increasing, hence injective, for ANY number of operands; every "
                 "issued name stays in LETTERS+ so the look-up never raises",
                 "naming loop (cut-point, generic iteration i with symbolic index and current name): operand i gets the "
                 "successor of the current name and name_to_path gains exactly that name -> path + (i,); by induction over "
                 "the operands and L-IND over the tree: exactly the direct operands of operations carry names, the mapping "
                 "holds exactly their true paths; TreeAutoNamer.visit names the root alone iff nothing was named",
                 "element_from_path: cut-point of its while loop (one step descends into child i and consumes one index; "
                 "length decreases; empty path returns the node)"]
    pl.claim = ("successor strictness proved for names of any length over the live alphabet (fork over the live look-up table); "
                "naming step proved per operation class for a symbolic operand index; navigation proved by a loop cut.")
    return pl
