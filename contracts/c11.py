"""C11 — trees produced by library transformers print to queries with the same meaning.  DESIGN 3.C11.
The statement needs the parser applied to a CONSTRUCTED string (a right-inverse lemma about the LR automaton); no
contract within reach decides that for all strings, so the top-level statement is decided by a BOUNDED stand-in.  The
deductive obligations that the composition would use are those of C08 (copy), C10 (resolver), C12 (open ranges) and
C13 (auto_head_tail): they are re-run here as the proved part (structure / content / layout of each transformer's
output), and listed as such."""
from vfkit import bounded, core
from vfkit.check import Plan

from . import c01, c08, c10, c12, c13


REPLAY_CODE = '''
import sys
sys.path.insert(0, %r)
import c11_reparse as B
problems = []
queries = ['>a', '<=b AND >a', 'a b', 'a b c d e f', 'a OR b AND c', '(a b) OR c', 'f:(a b)^2 -c', '+a -b "p q"~2', 'a AND >b AND <c',
           '[1 TO 2] x:y~', 'NOT (a b)', 'a^2 b^ c~']
known = %r
for q in queries:
    n, fails = B.check(q)
    for f in fails:
        ns = dict(f)
        if any(eval(k, {"__builtins__": {}}, ns) for k in known):
            continue
        problems.append('%%s on %%r: %%s' %% (f.get('transformer'), f.get('input'), f.get('observation')))
    if len(problems) > 2:
        break
violated = bool(problems)
observation = '; '.join(problems[:3]) or 'as specified'
'''


def replay_builder(rec):
    known = [e["input_predicate"] for e in bounded.known_for("C11", "C11-B")]
    return [{"kind": "script", "code": REPLAY_CODE % (core.VERIF + "/bounded", known)}]


def plan(tier, seed):
    pl = Plan("C11", "exploration")
    # proved part: the output contracts of the four transformer families (the same obligations as C08-T, C10-R, C12, C13-A)
    sub = [c08.plan(tier, seed), c10.plan(tier, seed), c12.plan(tier, seed), c13.plan(tier, seed)]
    pl.cases = [c for p in sub for c in p.cases if c.key.startswith(("C08-T/", "C10-R/", "C12-C/", "C12-M/", "C13-A/"))]
    pl.canaries = [sub[0].canaries[0]]
    n = 4 if tier == "quick" else 7

    def reparse():
        return bounded.run_native("c11_reparse", {"max_tokens": n, "known": bounded.known_for("C11", "C11-B")})
    pl.bounded = [("C11-B/print-then-parse keeps the meaning (L-PP, bounded)", reparse)]
    pl.functions = sorted(set(f for p in sub for f in p.functions))
    pl.min_obligations = 100
    pl.replay_builder = replay_builder
    pl.assumptions = c01.ASSUMPTIONS
    pl.trusted_base = c01.TRUSTED + ["bounded/meaning.py (truth-table semantics of trees)"]
    pl.lemmas = ["L-PP (BOUNDED, not proved): for a tree produced by a shipped transformer from a parsed query, parse(print(t)) has "
                 "the same truth table over the same atoms (term, field path, modifiers) as t",
                 "proved building blocks: Copy (C08-T), Res (C10-R), Res12 + merge invariant (C12), Aht (C13-A) fix the structure, "
                 "content and layout of each transformer's output for all trees"]
    pl.claim = ("top-level statement decided by exhaustive re-parsing over token sequences of bounded length (exploration); the "
                "transformers' output contracts are proved.")
    pl.notes = ["the replays of the deductive part are those of C08/C10/C12/C13"]
    return pl
