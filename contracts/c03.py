"""C03 — structure follows grammar and precedence, independent of layout.  DESIGN 3.C03."""
import sys

import z3

from vfkit import bounded, core, model
from vfkit.check import Plan
from vfkit.sym import S, EngineUnsupported

from . import c01, lexing, parsing

import luqum.parser as P
import luqum.tree as T
import ply.yacc as yacc

OPERAND_START = ("TERM", "PHRASE", "REGEX", "TO", "LPAREN", "LBRACKET", "LESSTHAN", "GREATERTHAN", "PLUS", "MINUS", "NOT")


def table_equality():
    """F: the tables the loaded parser uses equal the tables PLY generates in memory from the grammar source"""
    orig = getattr(yacc.yacc, "_vf_orig", yacc.yacc)
    fresh = orig(module=sys.modules["luqum.parser"], tabmodule="__vf_no_such_parsetab__", write_tables=False, debug=False,
                 errorlog=yacc.NullLogger())
    fails = []
    n = 0
    for what in ("action", "goto"):
        a = {k: v for k, v in getattr(P.parser, what).items() if v}
        b = {k: v for k, v in getattr(fresh, what).items() if v}      # the cached file omits empty rows
        n += len(b)
        if a != b:
            bad = [s for s in set(a) | set(b) if a.get(s) != b.get(s)]
            fails.append({"id": what, "table": what, "states_differing": sorted(bad)[:10], "native_confirmed": True})
    pa = [p.str for p in P.parser.productions]
    pb = [p.str for p in fresh.productions]
    n += len(pb)
    if pa != pb:
        fails.append({"id": "productions", "loaded": pa[:5], "regenerated": pb[:5], "native_confirmed": True})
    return {"ok": not fails, "checked": n, "failures": fails, "exhaustive": True,
            "samples": [{"states": len(fresh.action), "productions": len(pb)}],
            "detail": "action / goto tables and production list of the loaded parser vs an in-memory LALR regeneration"}


def conflict_audit():
    """F: in every LALR state holding a completed `E -> E OR E .` / `E -> E AND E .`, the action on each lookahead
    is the one the binding order of the statement mandates"""
    prods = P.parser.productions
    fails, known, samples = [], [], []
    n = 0
    kf = [e for e in core.KNOWN_FINDINGS if e.get("property") == "C03" and e.get("table_entries")]
    for i, pr in enumerate(prods):
        rhs = pr.str.split("->")[1].split()
        if not (len(rhs) == 3 and rhs[0] == rhs[2] == "expression" and rhs[1] in ("OR_OP", "AND_OP")):
            continue
        op = rhs[1]
        for state, acts in P.parser.action.items():
            if not any(a == -i for a in acts.values()):
                continue
            for la in list(OPERAND_START) + ["OR_OP", "AND_OP", "RPAREN", "$end"]:
                a = acts.get(la)
                if a is None:
                    continue
                n += 1
                if la == "AND_OP" and op == "OR_OP":
                    want = "shift"      # AND binds tighter than OR
                else:
                    want = "reduce"     # left associativity, OR looser than AND, juxtaposition loosest
                got = "shift" if a > 0 else "reduce"
                if len(samples) < 3:
                    samples.append({"item": pr.str + " .", "lookahead": la, "action": got})
                if got != want:
                    entry = {"id": "%s.%s" % (op, la), "item": pr.str + " .", "lookahead": la, "action": got, "mandated": want}
                    hit = [e["id"] for e in kf if any(t["operator"] == op and t["lookahead"] == la for t in e["table_entries"])]
                    if hit:
                        known.extend(hit)
                    else:
                        fails.append(entry)
    return {"ok": not fails, "checked": n, "failures": fails, "known": sorted(set(known)), "samples": samples, "exhaustive": True,
            "detail": "states with a completed binary AND/OR item x lookaheads"}


def precedence_facts():
    """F: the reserved-word table and the token list are the documented ones"""
    fails = []
    if dict(P.reserved) != {"AND": "AND_OP", "OR": "OR_OP", "NOT": "NOT", "TO": "TO"}:
        fails.append({"id": "reserved", "reserved": dict(P.reserved)})
    return {"ok": not fails, "checked": 1, "failures": fails, "samples": [dict(P.reserved)], "detail": "reserved words"}


def canary():
    prod = [p for p in parsing.productions() if p[3] == "p_range"][0]

    def run(cx):
        vals = [parsing.arrange_token("LBRACKET", "p1", True), parsing.arrange_nonterminal("phrase_or_possibly_negative_term", "p2", "abs", False),
                parsing.arrange_token("TO", "p3", False), parsing.arrange_nonterminal("phrase_or_possibly_negative_term", "p4", "abs", False),
                parsing.arrange_token("RBRACKET", "p5", False)]
        p = parsing.mkp([v.v for v in vals])
        prod[4](p)
        from vfkit.sym import B
        return [("canary/both-ends-of-a-range-have-the-same-inclusiveness", B(p[0].include_low) == B(p[0].include_high))]
    return core.Case("canary/range", run, canary=True)


def plan(tier, seed):
    pl = Plan("C03", "exploration")
    want = {"C03"}
    pl.cases = c01.production_cases(want) + [c for c in lexing.lexer_cases(want) if "/t_TERM/" in c.key]
    pl.canaries = [canary()]
    pl.finite = [("C03-K/token-languages", token_languages), ("C03-T/table-equality", table_equality), ("C03-T/conflict-audit", conflict_audit),
                 ("C03-T/reserved-words", precedence_facts), ("C03-T/left-assoc", parsing.left_assoc_table)]
    n = 5 if tier == "quick" else 7

    def differential():
        return bounded.run_native("c03_structure", {"max_tokens": n, "seed": seed, "known": bounded.known_for("C03", "C03-P")})
    def term_extent():
        return bounded.run_native("c03_term", {"len_mixed": 6 if tier == "quick" else 7, "len_time": 12 if tier == "quick" else 13,
                                               "known": bounded.known_for("C03", "C03-W")})
    pl.bounded = [("C03-P/differential vs the reference parser written from the statement", differential),
                  ("C03-W/extent of a term (escapes, time expressions) vs a hand-written scanner of the documented token shape", term_extent)]
    pl.functions = sorted(set(parsing.functions_under_contract() + ["luqum.parser.t_TERM", "luqum.tree.create_operation",
                                                                   "luqum.tree.group_to_fieldgroup", "luqum.parser._field_expression"]))
    pl.min_obligations = len(parsing.productions())
    pl.replay_builder = parsing.replay_requests("C03")
    pl.assumptions = c01.ASSUMPTIONS
    pl.trusted_base = c01.TRUSTED + ["bounded/refparser.py (reference written from the statement)"]
    pl.lemmas = ["C03-S/F/K/I (proved): each action builds the documented node from the right-hand-side values in order; "
                 "same-class operands are spliced (any operand count, runs); reserved words are operators iff the WHOLE "
                 "token text is the word; the result's fingerprint depends on token texts and children only",
                 "C03-T (finite, exhaustive): loaded tables = regenerated tables; conflict resolution in the states holding a "
                 "completed AND/OR item",
                 "C03-P is BOUNDED: which production applies where (the LR automaton's behaviour on all strings) has no "
                 "mechanised meta-theory here; the differential check against the reference parser stands in"]
    pl.claim = ("shape, flattening, reserved words and layout independence of each action / lexer rule are proved; precedence "
                "end to end is decided by a bounded differential check, hence level exploration.")
    return pl


def token_languages():
    """F / exact (regular-language equivalence by derivatives, all strings): the lexer rules for phrases, regexes and the one-character
    tokens accept exactly the documented languages, and the reserved words are exactly AND OR NOT TO in upper case.
    Documented: a phrase is a double quote, any run of characters other than a double quote and a backslash or of backslash-escaped
    characters, a double quote; a regex the same between slashes; modifiers are ~ and ^ followed by an optional numeral."""
    import re as _re
    from vfkit import ext
    from vfkit import relang as RL
    fails = []
    n = 0
    spec = {
        "t_PHRASE": r'"(?:[^\\"]|\\.)*"', "t_REGEX": r'/(?:[^\\/]|\\.)*/',
        "t_APPROX": r'~[0-9.]*', "t_BOOST": r'\^[0-9.]*', "t_COLUMN": r':', "t_PLUS": r'\+', "t_MINUS": r'-', "t_LPAREN": r'\(', "t_RPAREN": r'\)',
        "t_LBRACKET": r'[\[{]', "t_RBRACKET": r'[\]}]', "t_LESSTHAN": r'<=?', "t_GREATERTHAN": r'>=?',
    }
    for name, want in spec.items():
        n += 1
        fn = getattr(P, name, None)
        rx = getattr(fn, "regex", None) or getattr(fn, "__doc__", None) if fn is not None else None
        if not isinstance(rx, str):
            fails.append({"id": name, "why": "lexer rule %s not found" % name, "native_confirmed": False})
            continue
        try:
            got = ext.full_language_rx(rx, _re.VERBOSE)
        except EngineUnsupported as e:
            raise EngineUnsupported("token language of %s: %s" % (name, e))
        exp = ext.full_language_rx(want, 0)
        if not (RL.included(got, exp) and RL.included(exp, got)):
            w = RL.witness_nonempty(RL.conj(got, RL.neg(exp))) or RL.witness_nonempty(RL.conj(exp, RL.neg(got)))
            fails.append({"id": name, "why": "the rule %s accepts a different language than documented" % name, "example": w, "native_confirmed": False})
    n += 1
    if dict(P.reserved) != {"AND": "AND_OP", "OR": "OR_OP", "NOT": "NOT", "TO": "TO"}:
        fails.append({"id": "reserved", "why": "reserved words are %r" % (dict(P.reserved),), "native_confirmed": False})
    return {"ok": not fails, "checked": n, "failures": fails, "exhaustive": True, "samples": [{"t_PHRASE": spec["t_PHRASE"]}],
            "detail": "regular-language equivalence (both inclusions, exact) of 13 token rules with their documented languages; reserved-word table"}
