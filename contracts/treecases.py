"""Per-class arrangements of concrete nodes with abstract children (the step cases of structural induction)."""
from vfkit import model
from vfkit.sym import EngineUnsupported

import luqum.tree as T


def variants(cls, ops_shapes=(0, 1, 2, 3)):
    """arrangement variants of a class: implicit/explicit numerals, operand shapes"""
    cname = cls.__name__
    if cname in ("Fuzzy", "Proximity", "Boost"):
        return [{"implicit": False}, {"implicit": True}, {"from_string": True}]
    if issubclass(cls, T.BaseOperation):
        return [{"nops": n} for n in ops_shapes]
    return [{}]


def label(cls, var):
    bits = [cls.__name__]
    if var.get("implicit"):
        bits.append("implicit")
    if var.get("from_string"):
        bits.append("parsed")
    if "nops" in var:
        bits.append({0: "ops0", 1: "ops1", 2: "ops2", 3: "ops2+run", -3: "run+ops2"}[var["nops"]])
    return ".".join(bits)


def instances(layout="sym", ops_shapes=(0, 1, 2, 3), skip=()):
    """[(label, maker)] for every concrete class of the live universe; maker(name) -> (instance, kids)"""
    out = []
    for cls in model.UNIVERSE:
        if cls.__name__ in skip:
            continue
        for var in variants(cls, ops_shapes):
            out.append((label(cls, var),
                        (lambda name, cls=cls, var=var, layout=layout: model.make_instance(cls, name, layout=layout, **var)),
                        cls))
    return out
