"""Spec functions written from the property statements and the class docstrings (NOT from the code):
print templates (C01-T), meaning-bearing attribute lists are in vfkit.model.SPEC (C09)."""
import z3

from vfkit import model, rewrite
from vfkit.sym import EngineUnsupported, SymBool, SymStr, S, B, ctx

import luqum.tree as T

OP_WORD = {"OrOperation": "OR", "AndOperation": "AND", "UnknownOperation": "", "BoolOperation": ""}
PREFIX = {"Plus": "+", "Not": "NOT", "Prohibit": "-"}


def num_text(x):
    """spelling of a degree/force value as printed by `%s`"""
    return rewrite.vf_str(x)


def body_template(x):
    """documented printed form of a concrete node without its own head/tail, in terms of text(child)"""
    cname = type(x).__name__
    tx = model.text
    if cname == "NoneItem":
        return ""
    if cname in ("Word", "Phrase", "Regex", "Term"):
        return x.value
    if cname == "SearchField":
        return x.name + ":" + tx(x.expr)
    if cname in ("Group", "FieldGroup", "BaseGroup"):
        return "(" + tx(x.expr) + ")"
    if cname == "Range":
        lo = SymStr(z3.If(B(x.include_low), z3.StringVal("["), z3.StringVal("{")))
        hi = SymStr(z3.If(B(x.include_high), z3.StringVal("]"), z3.StringVal("}")))
        return lo + tx(x.low) + "TO" + tx(x.high) + hi
    if cname in ("Fuzzy", "Proximity"):
        implicit = x._implicit_degree
        return tx(x.term) + "~" + ("" if implicit else num_text(x.degree))
    if cname == "Boost":
        return tx(x.expr) + "^" + ("" if x.implicit_force else num_text(x.force))
    if cname in OP_WORD:
        op = OP_WORD[cname]
        out = None
        for o in x.operands:
            piece = o.jointext if isinstance(o, model.Run) else tx(o)
            out = piece if out is None else out + op + piece
        return "" if out is None else out
    if cname in PREFIX:
        return PREFIX[cname] + tx(x.a)
    if cname in ("From", "To"):
        sign = ">" if cname == "From" else "<"
        eq = SymStr(z3.If(B(x.include), z3.StringVal("="), z3.StringVal("")))
        return sign + eq + tx(x.a)
    raise EngineUnsupported("no print template for %s" % cname)
