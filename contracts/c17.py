"""C17 — HTML marking.  DESIGN 3.C17: structural marking contract (per class), mark_node with a cut-point invariant
for its while loop, and the lemma L-MARK (z3 step + paper induction)."""
import z3

from vfkit import bounded, core, model, paths, rewrite, sym, uniform
from vfkit.check import Plan
from vfkit.paths import SymPath, SymSet, P
from vfkit.sym import EngineUnsupported, PathStop, S, SymBool, SymStr, ctx

from . import c01, c08, c09, treecases

import luqum.tree as T
import luqum.naming as N

# Option(String): the css class of a path
_Opt = z3.Datatype("OptClass")
_Opt.declare("NoClass")
_Opt.declare("Class", ("name", z3.StringSort()))
Opt = _Opt.create()
eff = z3.Function("eff", paths.PATH, Opt)     # class of the nearest marked ancestor-or-self (spec, recursive)

WHILE_KEY = "luqum.naming.HTMLMarker.mark_node#while0"
# the loop may live in mark_node or in a private helper of the marker
import re as _re
MARK_LOOPS = _re.compile(r"luqum\.naming\.HTMLMarker\.\w+#while\d+")


def opt(v):
    if v is None:
        return Opt.NoClass
    return Opt.Class(S(v))


def css_spec(q, ok, ko, marker):
    return z3.If(z3.IsMember(P(q), ok.t), Opt.Class(S(marker.ok_class)),
                 z3.If(z3.IsMember(P(q), ko.t), Opt.Class(S(marker.ko_class)), Opt.NoClass))


def parent_term(q):
    t = P(q)
    return z3.If(z3.Length(t) > 0, z3.Extract(t, 0, z3.Length(t) - 1), z3.Empty(paths.PATH))


def eff_axiom(q_term, ok, ko, marker):
    """one unfolding of the recursive definition of eff at q"""
    q = SymPath(q_term)
    c = css_spec(q, ok, ko, marker)
    return eff(q_term) == z3.If(c != Opt.NoClass, c,
                                z3.If(z3.Length(q_term) == 0, Opt.NoClass, eff(parent_term(q))))


def eff_parent(path, ok, ko, marker):
    """eff(parent(path)), None for the root"""
    return z3.If(z3.Length(P(path)) == 0, Opt.NoClass, eff(parent_term(path)))


def make_marker():
    return N.HTMLMarker(ok_class=SymStr(name="ok_class"), ko_class=SymStr(name="ko_class"), element=SymStr(name="element"))


class MarkCut:
    """cut-point for `while parent_class is None and parent_path:` in HTMLMarker.mark_node.
    Invariant I(parent_path, parent_class):
      (A) parent_path == path and parent_class is None                     (no iteration yet), or
      (B) parent_path is shorter than path, parent_class == css(parent_path) and
          eff(parent(path)) == (parent_class if not None else (None if parent_path == () else eff(parent_path[:-1])))
    decreases len(parent_path)."""

    def __init__(self, mode, path, ok, ko, marker):
        self.mode, self.path, self.ok, self.ko, self.marker = mode, path, ok, ko, marker
        self.entered = 0
        self.pre_len = None

    def inv(self, pp, pc):
        path, ok, ko, m = self.path, self.ok, self.ko, self.marker
        A = z3.And(P(pp) == P(path), opt(pc) == Opt.NoClass)
        lp, ln = z3.Length(P(pp)), z3.Length(P(path))
        B = z3.And(lp < ln, opt(pc) == css_spec(pp, ok, ko, m),
                   eff_parent(path, ok, ko, m) == z3.If(opt(pc) != Opt.NoClass, opt(pc),
                                                        z3.If(lp == 0, Opt.NoClass, eff(parent_term(pp)))))
        return z3.Or(A, B)

    def enter(self, loc):
        self.entered += 1
        # the two state variables of the loop, whatever they are called: the one that starts as the node's own path, the one that starts as None
        names = getattr(self, "rebindable", ()) or ("parent_path", "parent_class")
        self.v_path = rewrite.state_variable(loc, names, lambda v: v is self.path, "the path walked towards the root")
        self.v_class = rewrite.state_variable(loc, names, lambda v: v is None, "the class found so far")
        if self.mode == "init":
            raise PathStop([("C17-M/mark_node/while/invariant-holds-on-entry", self.inv(loc[self.v_path], loc[self.v_class]))])
        cx = ctx()
        pp = SymPath(name="parent_path")
        isnone = z3.Bool("parent_class_is_none")
        cx.register("parent_class_is_none", isnone)
        pc = None if cx.decide(isnone) else SymStr(name="parent_class")
        cx.assume(self.inv(pp, pc))
        # unfoldings of eff the proof needs: at parent(path), at pp, at parent(pp)
        for q in (parent_term(self.path), P(pp), parent_term(pp)):
            cx.assume(eff_axiom(q, self.ok, self.ko, self.marker))
        self.pre_len = z3.Length(P(pp))
        return {self.v_path: pp, self.v_class: pc}

    def step(self, loc):
        if self.mode != "havoc":
            return
        pp, pc = loc[self.v_path], loc[self.v_class]
        raise PathStop([("C17-M/mark_node/while/invariant-preserved", self.inv(pp, pc)),
                        ("C17-M/mark_node/while/decreases", z3.And(z3.Length(P(pp)) < self.pre_len, z3.Length(P(pp)) >= 0))])


def mark_node_cases():
    cases = []

    def arrange(cx):
        m = make_marker()
        node = model.AbsNode("n", layout="sym")
        path = SymPath(name="path")
        ok, ko = SymSet(name="paths_ok"), SymSet(name="paths_ko")
        return m, node, path, ok, ko

    def run_css(cx):
        m, node, path, ok, ko = arrange(cx)
        r = m.css_class(path, ok, ko)
        return [("C17-K/css_class/ok-else-ko-else-none", opt(r) == css_spec(path, ok, ko, m))]
    cases.append(core.Case("C17-K/css_class", run_css, functions=["luqum.naming.HTMLMarker.css_class"]))

    def wrap_obligations(m, node, pre, must_emit, marked, key):
        """what the statement needs: a node is either left untouched or wrapped with ITS OWN class; it is wrapped
        whenever its class differs from the class inherited from the nearest marked ancestor (must_emit), and only
        if it is marked at all.  (Whether a redundant element is emitted when both classes agree is not observable
        in the rendered classes and is left free.)"""
        h0, t0 = pre
        cls = SymStr(z3.If(z3.IsMember(P(node.__dict__["vf_path"]), node.__dict__["vf_ok"].t), S(m.ok_class), S(m.ko_class)))
        opened = '<' + m.element + ' class="' + cls + '">' + h0
        closed = t0 + '</' + m.element + '>'
        wrapped = z3.And(S(node.head) == S(opened), S(node.tail) == S(closed))
        untouched = z3.And(S(node.head) == S(h0), S(node.tail) == S(t0))
        return [(key + "/wrapped-with-own-class-or-untouched", z3.Or(z3.And(wrapped, marked), untouched)),
                (key + "/wrapped-when-class-differs-from-inherited", z3.Implies(must_emit, wrapped)),
                (key + "/unmarked-node-untouched", z3.Implies(z3.Not(marked), untouched))]

    def run_plain(cx):
        m, node, path, ok, ko = arrange(cx)
        node.__dict__.update(vf_path=path, vf_ok=ok)
        pre = (node.head, node.tail)
        pos, size = node.pos, node.size
        r = m.mark_node(node, path, ok, ko, False)
        emit = css_spec(path, ok, ko, m) != Opt.NoClass
        return wrap_obligations(m, node, pre, emit, emit, "C17-M/mark_node/plain") + \
            [("C17-M/mark_node/plain/returns-the-node-positions-untouched", r is node and node.pos is pos and node.size is size)]
    cases.append(core.Case("C17-M/mark_node/plain", run_plain, functions=["luqum.naming.HTMLMarker.mark_node"]))

    def run_parsi(mode):
        def run(cx):
            m, node, path, ok, ko = arrange(cx)
            node.__dict__.update(vf_path=path, vf_ok=ok)
            pre = (node.head, node.tail)
            cut = MarkCut(mode, path, ok, ko, m)
            rewrite.WHILE_CUT_PATTERNS.append((MARK_LOOPS, cut))
            try:
                r = m.mark_node(node, path, ok, ko, True)
            finally:
                rewrite.WHILE_CUT_PATTERNS.remove((MARK_LOOPS, cut))
            c = css_spec(path, ok, ko, m)
            if cut.entered == 0:
                # the loop is only reached for a marked node
                return [("C17-M/mark_node/parsimonious/unmarked-node-untouched",
                         z3.And(c == Opt.NoClass, S(node.head) == S(pre[0]), S(node.tail) == S(pre[1])))]
            if mode == "init":
                raise EngineUnsupported("the loop under a cut-point contract was not reached: the code was restructured")
            emit = z3.And(c != Opt.NoClass, c != eff_parent(path, ok, ko, m))
            return wrap_obligations(m, node, pre, emit, c != Opt.NoClass, "C17-M/mark_node/parsimonious") + \
                [("C17-M/mark_node/parsimonious/returns-the-node", r is node)]
        return run
    cases.append(core.Case("C17-M/mark_node/parsimonious/init", run_parsi("init"), functions=["luqum.naming.HTMLMarker.mark_node"]))
    cases.append(core.Case("C17-M/mark_node/parsimonious/loop", run_parsi("havoc"), functions=["luqum.naming.HTMLMarker.mark_node"]))

    def run_lemma(cx):
        """L-MARK step: with E(p) = class of the nearest EMITTING ancestor-or-self, E(p) == eff(p) follows from
        E(parent p) == eff(parent p), in both modes"""
        m = make_marker()
        path = SymPath(name="path")
        ok, ko = SymSet(name="paths_ok"), SymSet(name="paths_ko")
        E_parent = z3.Const("E_parent", Opt)
        cx.assume(z3.Length(P(path)) >= 0)
        effp = eff_parent(path, ok, ko, m)
        cx.assume(E_parent == effp)                       # induction hypothesis (None for the root)
        cx.assume(eff_axiom(P(path), ok, ko, m))
        c = css_spec(path, ok, ko, m)
        out = []
        emitted = z3.Bool("emitted")      # what mark_node actually did, constrained only by its contract
        for mode, must in (("plain", c != Opt.NoClass), ("parsimonious", z3.And(c != Opt.NoClass, c != effp))):
            E = z3.If(emitted, c, E_parent)
            contract = z3.And(z3.Implies(must, emitted), z3.Implies(emitted, c != Opt.NoClass))
            out.append(("C17-L/innermost-emitting-element-has-the-class-eff/%s" % mode,
                        z3.Implies(contract, E == eff(P(path)))))
        return out
    cases.append(core.Case("C17-L/lemma", run_lemma))
    return cases


class StubMark:
    def __init__(self, real):
        self.calls = []
        self.results = []
        self.real = real

    def __call__(self, node, context):
        if isinstance(node, (model.AbsNode, model.Run)):
            self.calls.append((node, dict(context)))
            r = c09.copy_of(node, "res%d" % len(self.calls))
            self.results.append(r)
            return iter([r])
        return self.real(node, context)


def visit_cases():
    cases = []
    for la, mk, cls in treecases.instances(layout="sym"):
        def run(cx, la=la, mk=mk, cls=cls):
            x, kids = mk("x")
            m = make_marker()
            marks = []

            def mark_node(node, path, *info):
                marks.append((node, path, info))
                return ("marked", node)
            m.mark_node = mark_node
            stub = StubMark(m.visit_iter)
            m.visit_iter = stub
            path = SymPath(name="path")
            info = (object(), object(), object())
            ctx0 = {"path": path, "info": info}
            snap = dict(ctx0)
            before = dict(x.__dict__)
            mark = len(cx.log)
            out = list(N.HTMLMarker.visit_iter(m, x, ctx0))
            key = "C17-G/%s" % la
            if len(out) != 1 or len(marks) != 1:
                return [(key + "/marked-exactly-once", False)]
            y = marks[0][0]
            children = list(x.children)
            obls = [(key + "/marked-exactly-once", True),
                    (key + "/yields-what-mark_node-returns", out[0] == ("marked", y)),
                    (key + "/mark_node-gets-the-copy-its-own-path-and-the-info",
                     marks[0][1] is path and len(marks[0][2]) == 3 and all(a is b for a, b in zip(marks[0][2], info))),
                    (key + "/copy: same type, fresh, same layout", type(y) is type(x) and (y is not x or x is T.NONE_ITEM) and c08.layout_same(y, x)),
                    (key + "/copy: children are the marked children in order",
                     len(y.children) == len(stub.results) == len(children) and all(a is b for a, b in zip(y.children, stub.results))),
                    (key + "/copy: equal and same text before marking",
                     z3.And(c09._truth(y.__eq__(x)), S(model.text(y)) == S(model.text(x)))),
                    (key + "/input-untouched",
                     all(x.__dict__.get(k) is v for k, v in before.items()) and len(x.__dict__) == len(before)
                     and not [e for e in cx.log[mark:] if e[0] == "write" and any(e[1] is k_ for k_ in kids)]),
                    (key + "/context-not-mutated", all(ctx0.get(k) is v for k, v in snap.items()) and len(ctx0) == len(snap))]
            # children visited with path + (j,)
            conj = []
            idx = 0
            okp = True
            for (ch, cctx) in stub.calls:
                pth = cctx.get("path")
                if not isinstance(pth, SymPath):
                    okp = False
                    break
                conj.append(pth.t == z3.Concat(path.t, z3.Unit(sym.I(idx))))
                okp = okp and all(a is b for a, b in zip(cctx.get("info", ()), info))
                idx = idx + (ch.count if isinstance(ch, model.Run) else 1)
            obls.append((key + "/children-visited-with-their-index-paths", z3.And([z3.BoolVal(okp)] + conj) if conj else okp))
            return obls
        cases.append(core.Case("C17-G/" + la, run, functions=["luqum.naming.ExpressionMarker.generic_visit",
                                                              "luqum.visitor.PathTrackingTransformer.clone_children"]))

    def run_call(cx):
        m = make_marker()
        seen = []

        def visit(tree, context=None):
            seen.append((tree, context))
            return T.Word(SymStr(name="printed"), head=SymStr(name="h"), tail=SymStr(name="t"))
        m.visit = visit
        t = T.Word("x")
        ok, ko = SymSet(name="ok"), SymSet(name="ko")
        r = m(t, ok, ko)
        r2 = m(t, ok, ko, parcimonious=False)
        good = (len(seen) == 2 and seen[0][0] is t and seen[0][1]["info"][0] is ok and seen[0][1]["info"][1] is ko
                and seen[0][1]["info"][2] is True and seen[1][1]["info"][2] is False)
        return [("C17-G/call/passes-tree-sets-and-mode-and-prints-with-head-and-tail", good),
                ("C17-G/call/result-is-the-text-of-the-marked-copy", S(r) == S(SymStr(z3.String("h")) + SymStr(z3.String("printed")) + SymStr(z3.String("t"))))]
    cases.append(core.Case("C17-G/call", run_call, functions=["luqum.naming.HTMLMarker.__call__", "luqum.naming.ExpressionMarker.__call__"]))
    return cases


def replay_builder(rec):
    from vfkit import witness
    name = rec["obligation"]
    m = rec.get("model") or {}
    parts = name.split("/")
    la = parts[1] if name.startswith("C17-G/") and len(parts) >= 3 and parts[1] != "call" else "AndOperation.ops2"
    code = witness.PRELUDE + "import re, itertools\nfrom luqum.naming import HTMLMarker\nfrom luqum.parser import parser\n" \
        "trees = [T.Group(T.OrOperation(%s, T.Word('z', head=' '), tail=' ')), parser.parse('a AND (b OR c:d~2 ) \"e f\"^3')]\n" % witness.instance_code(la, "x", m) + \
        "problems = []\n" \
        "def paths_of(n, p=()):\n    yield p\n    for i, c in enumerate(n.children):\n        yield from paths_of(c, p + (i,))\n" \
        "def render(n, p, cls, ok, ko):\n" \
        "    own = 'ok' if p in ok else 'ko' if p in ko else None\n" \
        "    cls = own or cls\n" \
        "    # characters directly in this node (head, literals, tail) get cls; children recursively\n" \
        "    out = []\n" \
        "    body = n.__str__()\n" \
        "    full = n.__str__(head_tail=True)\n" \
        "    kids = [c.__str__(head_tail=True) for c in n.children]\n" \
        "    pos = 0\n    txt = full\n    i = 0\n" \
        "    for j, (c, k) in enumerate(zip(n.children, kids)):\n" \
        "        at = txt.index(k, i)\n        out.extend((ch, cls) for ch in txt[i:at])\n        out.extend(render(c, p + (j,), cls, ok, ko))\n        i = at + len(k)\n" \
        "    out.extend((ch, cls) for ch in txt[i:])\n    return out\n" \
        "def parse_html(s):\n" \
        "    out = []\n    stack = [None]\n    i = 0\n" \
        "    for m_ in re.finditer(r'<span class=\"(\\w+)\">|</span>', s):\n" \
        "        out.extend((ch, stack[-1]) for ch in s[i:m_.start()])\n        i = m_.end()\n" \
        "        if m_.group(1):\n            stack.append(m_.group(1))\n        else:\n            if len(stack) == 1:\n                return None\n            stack.pop()\n" \
        "    out.extend((ch, stack[-1]) for ch in s[i:])\n    return out if len(stack) == 1 else None\n" \
        "for t in trees:\n" \
        "    allp = list(paths_of(t))\n    text = t.__str__(head_tail=True)\n    f0, l0 = fingerprint(t), layout(t)\n" \
        "    import random\n    rnd = random.Random(1)\n" \
        "    for trial in range(60):\n" \
        "        ok = {p for p in allp if rnd.random() < 0.3}\n        ko = {p for p in allp if p not in ok and rnd.random() < 0.3}\n" \
        "        exp = render(t, (), None, ok, ko)\n" \
        "        for parc in (True, False):\n" \
        "            html = HTMLMarker()(t, ok, ko, parcimonious=parc)\n" \
        "            got = parse_html(html)\n" \
        "            if got is None:\n                problems.append('not properly nested: %r' % html)\n" \
        "            elif ''.join(ch for ch, _ in got) != text:\n                problems.append('erasing the elements gives %r, not %r' % (''.join(ch for ch, _ in got), text))\n" \
        "            elif got != exp:\n                problems.append('classes differ for ok=%r ko=%r parc=%s: %r' % (sorted(ok), sorted(ko), parc, html))\n" \
        "        if problems:\n            break\n" \
        "    if fingerprint(t) != f0 or layout(t) != l0:\n        problems.append('input tree modified')\n" \
        "violated = bool(problems)\nobservation = '; '.join(problems[:2]) or 'marked as specified'\n"
    return [{"kind": "script", "code": code}]


def canary():
    def run(cx):
        m = make_marker()
        node = model.AbsNode("n", layout="sym")
        h0 = node.head
        m.mark_node(node, SymPath(name="path"), SymSet(name="paths_ok"), SymSet(name="paths_ko"), False)
        return [("canary/head-never-changes", S(node.head) == S(h0))]
    return core.Case("canary/mark", run, canary=True)


LOOPS = [("luqum.visitor.PathTrackingTransformer.clone_children", 0)]


def plan(tier, seed):
    pl = Plan("C17", "proof")
    pl.cases = mark_node_cases() + visit_cases()
    pl.canaries = [canary()]
    pl.finite = [("C17-U/uniform-loops", lambda: uniform.check(LOOPS))]
    from vfkit import lean as _leanc
    pl.finite.append(("A6/Lean re-check of the composition lemmas L-IND, L-MARK", _leanc.compose_check('L-IND', 'L-MARK')))
    pl.functions = ["luqum.naming.ExpressionMarker.generic_visit", "luqum.naming.ExpressionMarker.__call__",
                    "luqum.naming.HTMLMarker.__init__", "luqum.naming.HTMLMarker.css_class",
                    "luqum.naming.HTMLMarker.mark_node", "luqum.naming.HTMLMarker.__call__",
                    "luqum.visitor.PathTrackingTransformer.clone_children", "luqum.visitor.TreeTransformer.generic_visit"]
    pl.min_obligations = len(model.UNIVERSE) * 6
    pl.replay_builder = replay_builder
    ntok = 3 if tier == "quick" else 5

    def marking():
        return bounded.run_native("c17_marking", {"max_tokens": ntok, "seed": seed, "known": bounded.known_for("C17", "C17-B")})
    pl.bounded = [("C17-B/rendered-classes end to end (safety net for restructured marking code)", marking)]
    pl.assumptions = c01.ASSUMPTIONS
    pl.trusted_base = c01.TRUSTED
    pl.lemmas = ["L-MARK (paper + z3 step C17-L): printing is head + body + tail recursively (C01-T), so the tags of a "
                 "node wrap exactly its widened text: (1) erasing the inserted elements gives text(x) (the copy prints "
                 "like the input: C17-G, and tags only extend head/tail: C17-M); (2) elements are properly nested; "
                 "(3) a character directly in node p is rendered with the class of the nearest emitting "
                 "ancestor-or-self, which equals eff(p) in both modes (induction over p with the z3 step)",
                 "cut-point invariant of mark_node's while loop (init / preserved / decreases / exit) -- unbounded path depth",
                 "L-IND for the per-class contract of ExpressionMarker.generic_visit"]
    pl.claim = ("marking contract proved per class and for paths of any depth (loop invariant), for arbitrary class / "
                "element names; the statement about rendered classes follows by L-MARK.")
    return pl
