"""C01 — parsing is lossless.  DESIGN 3.C01."""
import z3
from z3 import z3util

from vfkit import bounded, core, ext, model
from vfkit.check import Plan
from vfkit.sym import S

from . import lexing, parsing, spec, treecases

import luqum.tree as T


def print_contract_cases():
    """C01-T: for every concrete class, text(x) = head + body(x) + tail, body(x) is the documented
    concatenation of literals and text(child), and does not depend on x's own head/tail"""
    cases = []
    for label, maker, cls in treecases.instances(layout="sym"):
        def run(cx, label=label, maker=maker, cls=cls):
            inst, kids = maker("x")
            tmpl = spec.body_template(inst)
            b = model.body(inst)
            t = model.text(inst)
            obls = [("C01-T/%s/body-is-documented-form" % label, S(b) == S(tmpl)),
                    ("C01-T/%s/text-is-head-body-tail" % label, S(t) == S(inst.head + tmpl + inst.tail))]
            if cls is not T.NoneItem:
                names = {str(v) for v in z3util.get_vars(z3.simplify(S(b)))} if not isinstance(b, str) else set()
                obls.append(("C01-T/%s/body-ignores-own-layout" % label,
                             not ({"x_head", "x_tail", "x_pos", "x_size"} & names)))
            return obls
        cases.append(core.Case("C01-T/" + label, run,
                               functions=["luqum.tree.%s.__str__" % c.__name__ for c in cls.__mro__
                                          if "__str__" in c.__dict__ and c.__module__ == T.__name__][:1]))
    return cases


def production_cases(want, reachable_only=False):
    cases = []

    def mk(prod, sh):
        key = "prod/%s#%d[%s]" % (prod[3], prod[0], parsing.shape_label(sh))
        return core.Case(key, (lambda cx, prod=prod, sh=sh: parsing.run_production(cx, prod, sh, want)),
                         functions=["luqum.parser." + prod[3]])
    for prod in parsing.productions():
        for sh in parsing.shapes_for(prod[1], prod[2], prod[3], reachable_only):
            c = mk(prod, sh)
            if any(v == "abs" or v[0] == "abs-not" for v in sh.values()):
                c.fallback = (lambda prod=prod, sh=sh: [mk(prod, u) for u in parsing.unfolded_shapes(prod[2], sh)])
            cases.append(c)
    return cases + parsing.field_expression_cases(want)


def canary():
    """must be refuted: the text of a 3-symbol rule is NOT the text of its first symbol"""
    prod = [p for p in parsing.productions() if p[3] == "p_grouping"][0]

    def run(cx):
        vals = [parsing.arrange_token("LPAREN", "p1", True), parsing.arrange_nonterminal("expression", "p2", "abs", False),
                parsing.arrange_token("RPAREN", "p3", False)]
        for v in vals:
            v.snapshot()
        p = parsing.mkp([v.v for v in vals])
        prod[4](p)
        return [("canary/p_grouping/text-equals-first-symbol", S(model.text(p[0])) == S(vals[0].pre_text))]
    return core.Case("canary/p_grouping", run, canary=True)


def plan(tier, seed):
    pl = Plan("C01", "proof")
    want = {"C01"}
    pl.cases = production_cases(want) + lexing.lexer_cases(want) + print_contract_cases()
    pl.canaries = [canary()]
    pl.finite = [("C01-F/grammar-facts", parsing.grammar_facts)]
    from vfkit import lean as _leanc
    pl.finite.append(("A6/Lean re-check of the composition lemmas L-LEX, L-LR", _leanc.compose_check('L-LEX', 'L-LR')))
    from vfkit import lean as _lean
    pl.finite.append(("A5/Lean re-check of the lifting lemmas for operand runs", _lean.lemma_check))
    L = 4 if tier == "quick" else 6

    def numerals():
        return bounded.run_native("c01_numerals", {"max_len": L, "long_max": 40,
                                                  "known": bounded.known_for("C01", "C01-N")})
    ntok = 4 if tier == "quick" else 7

    def roundtrip():
        return bounded.run_native("c01_roundtrip", {"max_tokens": ntok, "seed": seed, "want": ["C01"],
                                                   "known": bounded.known_for("C01", "C01-B")})
    pl.bounded = [("C01-N/numeral-spelling", numerals),
                  ("C01-B/print-of-parse (safety net, audit of A3/A8)", roundtrip)]
    pl.functions = sorted(set(parsing.functions_under_contract() + lexing.functions_under_contract()
                              + ["luqum.tree.Item._head_tail", "luqum.tree._number_str"]
                              + [f for c in pl.cases for f in c.functions]))
    nprod = len(parsing.productions())
    nrules = len(lexing.rules())
    pl.min_obligations = nprod * 4 + nrules * 3 + len(model.UNIVERSE) * 2
    pl.replay_builder = parsing.replay_requests("C01")
    pl.assumptions = ASSUMPTIONS
    pl.trusted_base = TRUSTED
    pl.lemmas = ["L-LR (Lean: lr_accept over a shift / reduce model, lemmas/Compose.lean; DESIGN 3.C01; model link A8 assumed): the concatenation of text() of the LR value stack followed by the "
                 "texts of the unread tokens equals the input; shift preserves it trivially, reduce by C01-G "
                 "(the lookahead, hence every separator after the handle, is lexed before the reduce: F-fact "
                 "defaulted_states == {}); on acceptance the stack holds one value, so text(result) == input",
                 "L-LEX (Lean: run_observation; model link assumed): Inv_L of C01-L is established by the first match (lexpos 0) and preserved by "
                 "every later match; matches are contiguous (A8)",
                 "L-J (Lean, lemmas/Seq.lean): a non-empty run of operands inside a join behaves like one element"]
    pl.claim = ("every grammar action, every lexer rule and every __str__ is proved for all values of its symbolic "
                "inputs; composition to 'print(parse(q)) == q for every accepted q' is by L-LR/L-LEX under A8. "
                "Numeral re-spelling (C01-N) is BOUNDED and not counted as proved.")
    pl.notes = ["numerals: during C01-G/C02-G the conversion results of Decimal()/int() print their source spelling "
                "(the statement's permitted re-spelling); the real spelling is decided by the bounded C01-N"]
    return pl


ASSUMPTIONS = [
    "A1 CPython executes the instrumented module as it executes the original (redirects are identities on concrete operands)",
    "A2 hooks on proxies agree with the native operations",
    "A3 re: a successful match of P yields groups in the languages of their sub-patterns; \\s+ is maximal",
    "A5 Python join/zip/all/any/sum/tuple are the list functions of the Lean lemmas",
    "A6 the composition lemmas L-LR, L-LEX, L-TILE, L-IND, L-CONF, L-MARK are Lean theorems over explicit models (lemmas/Compose.lean); that the Python run is an instance of those models is assumed",
    "A7 node-class universe = leaf subclasses of Item in luqum.tree; attribute types as documented",
    "A8 PLY 3.11 lexer/parser contracts (token order, one rule call per match, contiguous matches, reduce calls "
    "the action once with the top-of-stack values, lookahead fetched before every reduce)",
    "A9 unbounded resources (no RecursionError/MemoryError)", "A10 z3 / cvc5 sound",
] + ext.ASSUMED_CONTRACTS
TRUSTED = ["CPython 3.12", "PLY 3.11 (lex.py, yacc.py)", "z3 5.1.0", "cvc5 1.0.3 (fallback only)",
           "vfkit engine (proxies, rewriter, explorer)", "re, decimal (external, contracts A3/A4)"]
