"""C19 — schema-derived options make the builder nest and type each mapped field right; equivalent spellings of field specs
configure identical behaviour.  DESIGN 3.C19.

Proved (symbolic names / types, recursion stubbed by contract):
  C19-K  classification of one walked field by its (symbolic) type / index strings (not_analyzed_fields: a leaf is listed iff
         it is not analysed text, multi-fields included), object_fields (only full paths below a parent) and the dotted name
         (_dot_name), for parent chains of length 0..3.  Deliberately no stronger than what the statement needs: what is
         listed for containers, and sub_fields() (not part of query_builder_options), are left open.
  C19-W  one step of _walk_properties (own entry first, multi-fields with the merged definition when asked, then the recursive
         walk of inner properties with the extended parent chain) - finite table of entry shapes
  C19-S  one level of the spec functions with opaque distinct names and stubbed recursive calls: leaf spellings None / {} / []
         agree, a list of leaves agrees with the dict of the same leaves, a dict level prefixes the sub-results in order;
         the set-valued front ends join exactly those paths with '.'
Bounded: SchemaAnalyzer.nested_fields (history-dependent reconstruction of the nested spec), the builder's prefix matching and
the whole pipeline - bounded/c19_schema.py."""
import z3

from vfkit import bounded, core, rewrite, sym
from vfkit.check import Plan
from vfkit.sym import EngineUnsupported, PathStop, S, SymBool, SymStr

from . import c01, c05

import luqum.utils as U
import luqum.elasticsearch.schema as SC

CONTAINER = ("object", "nested")


class KeyStr(SymStr):
    """an arbitrary field name used as a dictionary key: hashed by identity, which agrees with value hashing under the
    stated precondition that the names of one level are pairwise distinct"""

    def __hash__(self):
        return id(self)


def keys(cx, n, stem="k"):
    ks = [KeyStr(name="%s%d" % (stem, i)) for i in range(n)]
    for i in range(n):
        for j in range(i):
            cx.assume(ks[i].t != ks[j].t)
    return ks


def same_paths(a, b):
    """two lists of paths (lists of names) are identical, name objects compared by identity"""
    return (isinstance(a, list) and isinstance(b, list) and len(a) == len(b) and
            all(isinstance(p, list) and isinstance(q, list) and len(p) == len(q) and all(x is y for x, y in zip(p, q)) for p, q in zip(a, b)))


def same_dict(a, b):
    if not (isinstance(a, dict) and isinstance(b, dict)) or len(a) != len(b):
        return False
    for (ka, va), (kb, vb) in zip(a.items(), b.items()):
        if ka is not kb or not same_dict(va, vb):
            return False
    return True


class Opaque:
    """a sub-specification whose content is only reachable through the (stubbed) recursive call"""
    __vf_symbolic__ = True

    def __init__(self, tag):
        self.tag = tag

    def __bool__(self):
        raise EngineUnsupported("truth value of an abstract sub-specification")

    def __getattr__(self, k):
        if k.startswith("__") and k.endswith("__"):
            raise AttributeError(k)
        raise EngineUnsupported("abstract sub-specification .%s" % k)


def spec_cases():
    cases = []

    def leafs(cx):
        out = []
        for nm, v in (("None", None), ("empty-dict", {}), ("empty-list", []), ("empty-tuple", ())):
            out.append(("C19-S/flatten/leaf-spelling-%s-is-the-single-empty-path" % nm, U._flatten_fields_specs(v) == [[]]))
            out.append(("C19-S/normalize-nested/leaf-spelling-%s-is-the-empty-dict" % nm, U.normalize_nested_fields_specs(v) == {}))
        out.append(("C19-S/flatten-nested/None-is-the-empty-set", U.flatten_nested_fields_specs(None) == set()))
        out.append(("C19-S/normalize-object/None-is-kept", U.normalize_object_fields_specs(None) is None))
        return out
    cases.append(core.Case("C19-S/leaf-spellings", leafs, functions=["luqum.utils._flatten_fields_specs", "luqum.utils.normalize_nested_fields_specs"]))

    for n in (1, 2, 3):
        def list_vs_dict(cx, n=n):
            ks = keys(cx, n)
            as_list = U._flatten_fields_specs(list(ks))
            exp = [[k] for k in ks]
            out = [("C19-S/flatten/list-of-%d-leaves" % n, same_paths(as_list, exp))]
            for fill_name, fill in (("None", lambda: None), ("empty-dict", dict), ("empty-list", list)):
                d = {k: fill() for k in ks}
                out.append(("C19-S/flatten/dict-of-%d-leaves-spelled-%s-equals-the-list" % (n, fill_name), same_paths(U._flatten_fields_specs(d), exp)))
                out.append(("C19-S/normalize-nested/dict-of-%d-leaves-spelled-%s-equals-the-list" % (n, fill_name),
                            same_dict(U.normalize_nested_fields_specs(d), U.normalize_nested_fields_specs(list(ks))) and
                            same_dict(U.normalize_nested_fields_specs(d), {k: {} for k in ks})))
            return out
        cases.append(core.Case("C19-S/list-vs-dict/%d" % n, list_vs_dict, functions=["luqum.utils._flatten_fields_specs", "luqum.utils.normalize_nested_fields_specs"]))

        def dict_step(cx, n=n):
            """a dict level with abstract sub-specs: the recursive calls are stubbed by their contract (a list of paths / a dict),
            the level's result is determined by the stubs' results alone - hence equal for sub-specs of equal denotation"""
            ks = keys(cx, n)
            subs = [Opaque("V%d" % i) for i in range(n)]
            subkeys = keys(cx, 2 * n, "s")
            stub_paths = {id(subs[i]): [[subkeys[2 * i]], [subkeys[2 * i + 1], subkeys[2 * i]]][: 1 + i % 2] for i in range(n)}
            stub_dict = {id(subs[i]): {subkeys[2 * i]: {}} for i in range(n)}
            real_flat, real_norm = U._flatten_fields_specs, U.normalize_nested_fields_specs
            calls = []

            def flat(x):
                if isinstance(x, Opaque):
                    calls.append(("flat", x.tag))
                    return stub_paths[id(x)]
                return real_flat(x)

            def norm(x):
                if isinstance(x, Opaque):
                    calls.append(("norm", x.tag))
                    return stub_dict[id(x)]
                return real_norm(x)
            U._flatten_fields_specs, U.normalize_nested_fields_specs = flat, norm
            try:
                d = dict(zip(ks, subs))
                got = real_flat(d)
                gotn = real_norm(d)
            finally:
                U._flatten_fields_specs, U.normalize_nested_fields_specs = real_flat, real_norm
            exp = [[k] + p for k, v in zip(ks, subs) for p in stub_paths[id(v)]]
            expn = {k: stub_dict[id(v)] for k, v in zip(ks, subs)}
            return [("C19-S/flatten/dict-level-%d-prefixes-each-sub-path-with-its-key-in-order" % n, same_paths(got, exp)),
                    ("C19-S/normalize-nested/dict-level-%d-maps-each-key-to-the-normalised-sub-spec" % n,
                     isinstance(gotn, dict) and list(gotn) == list(expn) and all(gotn[k] is expn[k] for k in expn)),
                    ("C19-S/dict-level-%d/each-sub-spec-is-normalised-exactly-once" % n,
                     sorted(calls) == sorted([("flat", "V%d" % i) for i in range(n)] + [("norm", "V%d" % i) for i in range(n)]))]
        cases.append(core.Case("C19-S/dict-step/%d" % n, dict_step, functions=["luqum.utils._flatten_fields_specs", "luqum.utils.normalize_nested_fields_specs"]))

    def front_ends(cx):
        """flatten_nested_fields_specs / normalize_object_fields_specs of a dict are the '.'-joins of the flattened paths; of a
        list, the list's own (dotted) names - so a dotted name and the corresponding path denote the same member"""
        ks = keys(cx, 3)
        paths = [[ks[0], ks[1]], [ks[0], ks[2]], [ks[2]]]
        real_flat = U._flatten_fields_specs
        captured = []
        real_set = U.__dict__["__vf_set__"]

        def spy_set(*a):
            items = list(a[0]) if a else []
            captured.append(items)
            return ("set-of", len(captured) - 1)
        U._flatten_fields_specs = lambda x: paths
        U.__dict__["__vf_set__"] = spy_set
        try:
            a = U.flatten_nested_fields_specs({ks[0]: None})
            b = U.normalize_object_fields_specs({ks[0]: None})
            dotted = [ks[0] + "." + ks[1], ks[0] + "." + ks[2], ks[2] + ""]
            c = U.flatten_nested_fields_specs(list(dotted))
            d = U.normalize_object_fields_specs(list(dotted))
        finally:
            U._flatten_fields_specs = real_flat
            U.__dict__["__vf_set__"] = real_set
        out = []
        exp = [S(p[0]) if len(p) == 1 else z3.Concat(S(p[0]), z3.StringVal("."), S(p[1])) for p in paths]
        for nm, r in (("flatten-nested/dict", a), ("normalize-object/dict", b), ("flatten-nested/dotted-list", c), ("normalize-object/dotted-list", d)):
            ok = isinstance(r, tuple) and r[0] == "set-of" and len(captured[r[1]]) == 3
            if ok:
                goal = z3.And([S(x) == e for x, e in zip(captured[r[1]], exp)])
            else:
                goal = False
            out.append(("C19-S/%s-is-the-set-of-dot-joined-paths" % nm, goal))
        return out
    cases.append(core.Case("C19-S/front-ends", front_ends, functions=["luqum.utils.flatten_nested_fields_specs", "luqum.utils.normalize_object_fields_specs"]))
    return cases


# ------------------------------------------------------------------------------------------------ C19-K / C19-W
def _analyzer_with(entries, only_with_subfields=False):
    an = SC.SchemaAnalyzer({"mappings": {"properties": {"dummy": {"type": "text"}}}})
    seen = []

    def iter_fields(subfields=False):
        seen.append(subfields)
        return iter(entries if subfields or not only_with_subfields else [])
    an.iter_fields = iter_fields
    return an, seen


def classify_cases():
    cases = []
    for depth in (0, 1, 2, 3):
        for shape in ("type+index", "type", "neither"):
            def run(cx, depth=depth, shape=shape):
                names = [SymStr(name="p%d" % i) for i in range(depth)]
                ptypes = [SymStr(name="ptype%d" % i) for i in range(depth)]
                fname = SymStr(name="fname")
                for v in names + ptypes + [fname]:
                    cx.register(str(v.t), v.t)
                fdef = {}
                t = i = None
                if shape != "neither":
                    t = SymStr(name="ftype")
                    cx.register("ftype", t.t)
                    fdef["type"] = t
                if shape == "type+index":
                    i = SymStr(name="findex")
                    cx.register("findex", i.t)
                    fdef["index"] = i
                parents = [(names[k], {"type": ptypes[k]}) for k in range(depth)]
                # the entry under test is one that the walk only yields when multi-fields are asked for
                an, seen = _analyzer_with([(fname, fdef, parents)], only_with_subfields=True)
                dotted = S(fname)
                for nm in reversed(names):
                    dotted = z3.Concat(S(nm), z3.StringVal("."), dotted)
                out = []
                # --- not analysed: the statement's "term-level exactly when the mapped type is not analysed text"; analysed text is
                # `text`, or the legacy `string` unless marked not_analyzed.  Only leaves matter: what is listed for containers
                # (object / nested / an entry without a type) cannot change the clause of a leaf field and is left open.
                got = list(an.not_analyzed_fields())
                key = "C19-K/depth%d/%s" % (depth, shape)
                tt = S(t) if t is not None else None
                if tt is not None:
                    leaf = z3.And(tt != "object", tt != "nested")
                    legacy_analysed = z3.And(tt == "string", (S(i) != "not_analyzed") if i is not None else z3.BoolVal(True))
                    analysed = z3.Or(tt == "text", legacy_analysed)
                    out.append((key + "/leaf-listed-as-not-analysed-iff-its-type-is-not-analysed-text",
                                z3.Implies(leaf, z3.BoolVal(len(got) >= 1) == z3.Not(analysed))))
                if got:
                    out.append((key + "/listed-under-its-full-dotted-path", z3.And([S(g) == dotted for g in got])))
                # --- object fields feed the container check of the builder: a listed name makes its dotted prefix a container, so
                # it has to be the full path of a walked field below some parent (never a top-level name, never below a leaf)
                an, seen = _analyzer_with([(fname, fdef, parents)], only_with_subfields=False)
                got = list(an.object_fields())
                if got:
                    out.append((key + "/object-field-listed-only-below-a-parent-under-its-full-dotted-path",
                                z3.And([S(g) == dotted for g in got]) if depth else False))
                else:
                    out.append((key + "/object-field-listed-only-below-a-parent-under-its-full-dotted-path", True))
                return out
            cases.append(core.Case("C19-K/%d/%s" % (depth, shape), run,
                                   functions=["luqum.elasticsearch.schema.SchemaAnalyzer.not_analyzed_fields", "luqum.elasticsearch.schema.SchemaAnalyzer.object_fields",
                                              "luqum.elasticsearch.schema.SchemaAnalyzer._dot_name"]))

    return cases


def walk_table():
    """F: one step of _walk_properties on every entry shape (with / without multi-fields, with / without inner properties,
    subfields flag, 0..2 parents), recursive call stubbed"""
    n = 0
    bad = []
    for nparents in (0, 1, 2):
        for has_fields in (False, True):
            for has_props in (False, True, "empty"):
                for subfields in (False, True):
                    for two in (False, True):
                        if has_fields and has_props is True and subfields:
                            # not a mapping: ES refuses multi-fields on object / nested fields (the sub-field loop of
                            # _walk_properties re-binds fname / fdef, which only shows on this shape)
                            continue
                        n += 1
                        parents = [("p%d" % i, {"type": "object"}) for i in range(nparents)]
                        fdef = {"type": "text", "analyzer": "std"}
                        if has_fields:
                            fdef["fields"] = {"raw": {"type": "keyword"}, "en": {"analyzer": "english"}}
                        if has_props:
                            fdef = {"type": "nested", "properties": {} if has_props == "empty" else {"inner": {"type": "text"}}}
                            if has_fields:
                                fdef["fields"] = {"raw": {"type": "keyword"}}
                        props = {"f": fdef}
                        if two:
                            props["g"] = {"type": "keyword"}
                        an = SC.SchemaAnalyzer({})
                        real = SC.SchemaAnalyzer._walk_properties
                        rec = []

                        def stub(properties, parents=None, subfields=False, *more, _first=[True], real=real, an=an, rec=rec, **kw):
                            # extra parameters a refactoring may add to the walk are passed through untouched
                            if _first[0]:
                                _first[0] = False
                                return real(an, properties, parents, subfields, *more, **kw)
                            rec.append((properties, parents, subfields))
                            return iter([("REC", len(rec) - 1)])
                        an._walk_properties = stub
                        snapshot = repr(props) + repr(parents)
                        got = list(an._walk_properties(props, parents if nparents else None, subfields))
                        exp = [("f", fdef, parents)]
                        ext = parents + [("f", fdef)]
                        if subfields and has_fields:
                            base = {k: v for k, v in fdef.items() if k != "fields"}
                            for sn, sd in fdef["fields"].items():
                                exp.append((sn, dict(base, **sd), ext))
                        if has_props is True:
                            exp.append(("REC", 0))
                        if two:
                            exp.append(("g", props["g"], parents))
                        ok = got == exp and snapshot == repr(props) + repr(parents)
                        if has_props is True:
                            ok = ok and rec == [(fdef["properties"], ext, subfields)]
                        else:
                            ok = ok and rec == []
                        if not ok:
                            bad.append({"id": "-".join(map(str, [nparents, has_fields, has_props, subfields, two])), "got": repr(got)[:600],
                                        "expected": repr(exp)[:600], "native_confirmed": True})
    return {"ok": not bad, "checked": n, "failures": bad, "exhaustive": True, "samples": [{"shape": "2 parents, multi-fields, inner properties, subfields"}],
            "detail": "parents 0..2 x multi-fields x inner properties (none / empty / some) x subfields flag x 1-2 entries"}


def plan(tier, seed):
    pl = Plan("C19", "exploration")
    pl.cases = spec_cases() + classify_cases()
    pl.finite = [("C19-W/one step of _walk_properties per entry shape", walk_table)]
    if tier == "quick":
        payload = {"deep": [[1, 1, 2], [1, 1, 2, 1]], "ext": [[2, 1], [1, 2], [1, 1, 1]]}
    else:
        payload = {"deep": [[1, 2, 2], [2, 1, 1], [1, 1, 2, 1], [1, 1, 1, 2], [1, 2, 2, 1]], "ext": [[2, 2], [1, 1, 2], [1, 2, 1], [1, 1, 1, 1]]}

    def sch():
        return bounded.run_native("c19_schema", dict(payload, known=bounded.known_for("C19", "C19-B")))
    pl.bounded = [("C19-B/schema-derived builder: clause on the full path, term-level iff not analysed text, nested on the innermost nested ancestor; "
                   "equivalent spec spellings behave identically", sch)]
    pl.functions = ["luqum.elasticsearch.schema.SchemaAnalyzer." + f for f in
                    ("__init__", "_dot_name", "_walk_properties", "iter_fields", "not_analyzed_fields", "nested_fields", "object_fields",
                     "query_builder_options")] + \
                   ["luqum.utils." + f for f in ("normalize_nested_fields_specs", "_flatten_fields_specs", "flatten_nested_fields_specs", "normalize_object_fields_specs")] + \
                   ["luqum.elasticsearch.visitor.ElasticsearchQueryBuilder.__init__", "luqum.elasticsearch.visitor.ElasticsearchQueryBuilder._split_nested"]
    pl.min_obligations = 40
    pl.replay_builder = replay_builder
    pl.assumptions = c01.ASSUMPTIONS + ["names of one dict level are pairwise distinct (dict keys); a field without a `type` is read as a non-text leaf or, "
                                        "with properties, as an object"]
    pl.trusted_base = c01.TRUSTED + ["bounded/c19_schema.py (mapping generator and the oracle written from the statement)"]
    pl.lemmas = ["C19-K (proved, any names / type strings, parent chains of length 0..3): a walked leaf (multi-fields included) is listed as not "
                 "analysed iff its type is not analysed text (text, or legacy string not marked not_analyzed), always under its full dotted path; "
                 "object fields are listed only below a parent and under their full dotted path (so that only real containers become "
                 "container prefixes)",
                 "C19-W (finite exhaustive): one step of the property walk per entry shape, recursion stubbed",
                 "C19-S (proved, arbitrary distinct names, 1..3 entries per level, recursion stubbed by contract): leaf spellings agree, a list of "
                 "leaves equals the dict of the same leaves, a dict level is determined by its sub-results; the set-valued front ends are the "
                 "dot-joins of those paths (so dotted names and nested spellings denote the same members); induction over the depth of the "
                 "spec is a paper step",
                 "C19-B (BOUNDED): whole pipeline over generated mappings (see rule), incl. SchemaAnalyzer.nested_fields whose reconstruction of "
                 "the nested spec depends on the walk history and the builder's prefix matching"]
    pl.claim = "classification, naming and spec-spelling steps proved; the end-to-end statement over all mappings is bounded (exploration)."
    return pl


def replay_builder(rec):
    code = ("import sys, json\nsys.path.insert(0, %r)\nimport c19_schema as B\n" % (core.VERIF + "/bounded",) +
            "problems = []\nitems = []\nidx = 0\n"
            "for props in B.gen_props(2, ['f', 'g']) + B.gen_props(3, ['f', 'g'], (1, 1, 2)) + B.gen_props(4, ['f', 'g'], (1, 1, 2, 1)) + B.gen_props(2, ['f', 'g'], (1, 2), True):\n"
            "    for layout in ('current', 'typed'):\n        items.append((idx, props, layout)); idx += 1\n"
            "for it in items:\n    n, fails = B.check(it)\n    problems += ['%s on %s: %s' % (f.get('input'), f.get('schema'), f.get('observation')) for f in fails if not f.get('innermost_nested_ancestor_lost')]\n"
            "    if len(problems) > 2:\n        break\n"
            "n2, f2 = B.spelling_cases()\nproblems += ['%s: %s' % (f.get('input'), f.get('observation')) for f in f2]\n"
            "violated = bool(problems)\nobservation = '; '.join(problems[:2])[:1500] or 'as specified'\n")
    return [{"kind": "script", "code": code}]
