"""Deductive obligations on the helpers of the Elasticsearch translation that are within the engine's reach
(DESIGN C05-H, C06-L, C06-F, C07-M, C07-N).  The whole-visitor statements stay bounded."""
import itertools
import json
import re as _re

import z3

from vfkit import core, ext, frame, model, sym
from vfkit import relang as RL
from vfkit.sym import EngineUnsupported, S, SymBool, SymStr, ctx

from . import c08

import luqum.tree as T
import luqum.check as CK
import luqum.exceptions as X
import luqum.elasticsearch.visitor as EV
import luqum.elasticsearch.tree as ET


# ------------------------------------------------------------------------------------------------ C07-M / C05-H
def _fresh_str(s):
    """an equal string that is not the same object as the builder's class constant (configuration read from a file, lower-cased, ...)"""
    return "".join([s[:2], s[2:]])


def kind_table():
    """F (exhaustive over node classes x default operator): _is_must / _is_should"""
    fails = []
    n = 0
    for default in ("should", "must", _fresh_str("should"), _fresh_str("must")):
        b = EV.ElasticsearchQueryBuilder(default_operator=default)
        for cls in model.UNIVERSE:
            if cls is T.NoneItem:
                continue
            x = c08.model_witness(cls)
            n += 1
            em = cls is T.AndOperation or (cls is T.UnknownOperation and default == "must")
            es = cls is T.OrOperation or (cls is T.UnknownOperation and default == "should")
            if bool(b._is_must(x)) != em or bool(b._is_should(x)) != es:
                fails.append({"id": "%s.%s" % (cls.__name__, default), "class": cls.__name__, "default": default,
                              "is_must": bool(b._is_must(x)), "is_should": bool(b._is_should(x)), "native_confirmed": True})
    return {"ok": not fails, "checked": n, "failures": fails, "exhaustive": True,
            "samples": [{"class": "UnknownOperation", "default": "must", "is_must": True}], "detail": "class x default operator"}


def clash_table():
    """F (exhaustive over parent class x child class x default): _yield_nested_children raises OrAndAndOnSameLevel iff the
    parent is AND-like and the child OR-like or vice versa, and yields the children unchanged, in order, otherwise"""
    fails = []
    n = 0
    classes = [c for c in model.UNIVERSE if c is not T.NoneItem]
    for default in (_fresh_str("should"), _fresh_str("must")):
        b = EV.ElasticsearchQueryBuilder(default_operator=default)

        def m(c):
            return c is T.AndOperation or (c is T.UnknownOperation and default == "must")

        def s_(c):
            return c is T.OrOperation or (c is T.UnknownOperation and default == "should")
        for pc in classes:
            parent = c08.model_witness(pc)
            for cc, arity in [(c, a) for c in classes for a in ((1, 2, 3, 4) if issubclass(c, T.BaseOperation) else (None,))]:
                n += 1
                child = c08.model_witness(cc) if arity is None else cc(*[T.Word("w%d" % i, head=" " if i else "", tail=" ") for i in range(arity)])
                kids = [T.Word("first", tail=" "), child, T.Word("last", head=" ")]
                clash = (m(pc) and s_(cc)) or (s_(pc) and m(cc))
                got = []
                try:
                    for k in b._yield_nested_children(parent, kids):
                        got.append(k)
                    raised = None
                except X.OrAndAndOnSameLevel:
                    raised = "OrAndAndOnSameLevel"
                except Exception as e:  # noqa: BLE001
                    raised = type(e).__name__
                ok = (raised == "OrAndAndOnSameLevel" and got == kids[:1] and all(a is b_ for a, b_ in zip(got, kids))) if clash else \
                    (raised is None and len(got) == 3 and all(a is b_ for a, b_ in zip(got, kids)))
                if not ok:
                    fails.append({"id": "%s.%s%s.%s" % (pc.__name__, cc.__name__, arity or "", default), "parent": pc.__name__, "child": cc.__name__, "operands": arity,
                                  "default": default, "raised": raised, "yielded": len(got), "native_confirmed": True})
    return {"ok": not fails, "checked": n, "failures": fails[:10], "exhaustive": True,
            "samples": [{"parent": "AndOperation", "child": "OrOperation", "raises": "OrAndAndOnSameLevel"}],
            "detail": "parent class x child class (operations with 1 to 4 operands) x default operator"}


def simplify_cases():
    """P: simplify_if_same yields the flattening (recursive call on a same-type child stubbed by its contract)"""
    cases = []
    for cls in [c for c in model.UNIVERSE if issubclass(c, T.BaseOperation) or c in (T.Not, T.Prohibit, T.Plus)]:
        def run(cx, cls=cls):
            b = EV.ElasticsearchQueryBuilder()
            cur = c08.model_witness(cls)
            same, kids = model.make_instance(cls, "same", layout="none", nops=2) if issubclass(cls, T.BaseOperation) else model.make_instance(cls, "same", layout="none")
            other = model.AbsNode("other", layout="none", classes=[k.__name__ for k in model.UNIVERSE if k is not cls])
            real = EV.ElasticsearchQueryBuilder.simplify_if_same
            marks = []
            top = [other, same]

            def wrapped(children, current_node):
                if children is top:
                    return real(b, children, current_node)
                marks.append((children, current_node))          # recursive call: by contract
                return iter([("flattened", children)])
            b.simplify_if_same = wrapped
            out = list(b.simplify_if_same(top, cur))
            ok = (len(out) == 2 and out[0] is other and out[1] == ("flattened", same.children)
                  and len(marks) == 1 and marks[0][1] is cur)
            return [("C05-H/simplify_if_same/%s: other-type children kept, same-type children replaced by their flattening, in order" % cls.__name__, ok)]
        cases.append(core.Case("C05-H/simplify_if_same/" + cls.__name__, run,
                               functions=["luqum.elasticsearch.visitor.ElasticsearchQueryBuilder.simplify_if_same"]))
    return cases


class Leaf(ET.JsonSerializableMixin):
    def __init__(self, tag):
        self.tag = tag

    @property
    def json(self):
        return {"leaf": self.tag}


def ejson_table():
    """F (exhaustive over small item lists): EOperation / EBoolOperation / ENested json assembly"""
    fails = []
    n = 0
    A, B_, C = Leaf("a"), Leaf("b"), Leaf("c")
    for cls, key in ((ET.EMust, "must"), (ET.EShould, "should"), (ET.EMustNot, "must_not")):
        for items in ([], [A], [A, B_], [A, B_, C]):
            n += 1
            j = cls(items=list(items)).json
            if j != {"bool": {key: [i.json for i in items]}}:
                fails.append({"id": "%s.%d" % (key, len(items)), "json": j, "native_confirmed": True})
    # boolean operation: items of EMust operands are musts, of EMustNot operands must_nots, the rest shoulds, order kept
    for combo in itertools.product(("must", "must_not", "should"), repeat=3):
        n += 1
        leaves = [Leaf("x%d" % i) for i in range(3)]
        items = []
        for kind, leaf in zip(combo, leaves):
            items.append(ET.EMust(items=[leaf]) if kind == "must" else ET.EMustNot(items=[leaf]) if kind == "must_not" else leaf)
        j = ET.EBoolOperation(items=items).json
        exp = {}
        for sect in ("must", "should", "must_not"):
            xs = [leaf.json for kind, leaf in zip(combo, leaves) if kind == sect]
            if xs:
                exp[sect] = xs
        if j != {"bool": exp}:
            fails.append({"id": "bool." + ".".join(combo), "json": j, "expected": {"bool": exp}, "native_confirmed": True})
    for name in (None, "nm"):
        n += 1
        j = ET.ENested(nested_path="n", nested_fields=None, items=A, _name=name).json
        exp = {"nested": {"path": "n", "query": A.json}}
        if name:
            exp["nested"]["_name"] = name
        if j != exp:
            fails.append({"id": "nested.%s" % name, "json": j, "native_confirmed": True})
    # redundant inner nested wrappers of the SAME path are removed, others kept
    n += 1
    inner_same = ET.ENested(nested_path="n", nested_fields=None, items=A)
    inner_other = ET.ENested(nested_path="n.m", nested_fields=None, items=B_)
    outer = ET.ENested(nested_path="n", nested_fields=None, items=ET.EMust(items=[inner_same, inner_other, C]))
    exp = {"nested": {"path": "n", "query": {"bool": {"must": [A.json, inner_other.json, C.json]}}}}
    if outer.json != exp:
        fails.append({"id": "nested.exclude", "json": outer.json, "expected": exp, "native_confirmed": True})
    return {"ok": not fails, "checked": n, "failures": fails[:10], "exhaustive": True,
            "samples": [{"items": ["must", "should", "must_not"], "json": ET.EBoolOperation(items=[ET.EMust(items=[A]), B_, ET.EMustNot(items=[C])]).json}],
            "detail": "clause lists by item class, order kept; nested wrapper layout; same-path wrapper exclusion"}


# ------------------------------------------------------------------------------------------------ C07-N
def final_operation_cases():
    """P: CheckNestedFields._check_final_operation as a decision table over (symbolic) membership of the full name in the
    declared sets, against the statement"""
    cases = []
    for nprefix in (0, 1, 2, 3):
        for obj_declared in (False, True):
            for sub_declared in (False, True):
                def run(cx, nprefix=nprefix, obj_declared=obj_declared, sub_declared=sub_declared):
                    chk = CK.CheckNestedFields({}, object_fields=["o.x"] if obj_declared else None,
                                               sub_fields=["t.raw"] if sub_declared else None)
                    prefix = ["seg%d" % i for i in range(nprefix)]
                    full = ".".join(prefix)
                    bits = {}
                    for nm in ("nested_prefixes", "object_prefixes", "nested_fields", "object_fields", "sub_fields"):
                        b = z3.Bool("in_" + nm)
                        cx.register("in_" + nm, b)
                        bits[nm] = b

                    class Mem:
                        """a declared set: membership of the full name is an arbitrary Boolean"""
                        __vf_symbolic__ = True

                        def __init__(self, b):
                            self.b = b

                        def __vf_contains__(self, k):
                            if k != full:
                                raise EngineUnsupported("membership of another name")
                            return SymBool(self.b)
                    chk.nested_prefixes = Mem(bits["nested_prefixes"])
                    chk.object_prefixes = Mem(bits["object_prefixes"])
                    chk.nested_fields = Mem(bits["nested_fields"])
                    if obj_declared:
                        chk.object_fields = Mem(bits["object_fields"])
                    if sub_declared:
                        chk.sub_fields = Mem(bits["sub_fields"])
                    node = T.Word("w")
                    try:
                        chk._check_final_operation(node, {"prefix": prefix})
                        got = None
                    except X.NestedSearchFieldException:
                        got = "nested"
                    except X.ObjectSearchFieldException:
                        got = "object"
                    except (EngineUnsupported, sym.PathStop):
                        raise
                    except Exception as e:  # noqa: BLE001
                        return [("C07-N/check_final_operation/only-documented-exceptions", (False, {"exception": core.exc_desc(e)}))]
                    container = z3.Or(bits["nested_prefixes"], bits["object_prefixes"]) if nprefix else z3.BoolVal(False)
                    undeclared = z3.BoolVal(nprefix > 1 and obj_declared and sub_declared)
                    unknown = z3.And(undeclared, z3.Not(bits["sub_fields"]), z3.Not(bits["object_fields"]), z3.Not(bits["nested_fields"]))
                    exp_nested = container
                    exp_object = z3.And(z3.Not(container), unknown)
                    key = "C07-N/check_final_operation/prefix%d/objects-%s/subs-%s" % (nprefix, obj_declared, sub_declared)
                    return [(key + "/container-misuse-iff-term-directly-on-a-nested-or-object-container", z3.BoolVal(got == "nested") == exp_nested),
                            (key + "/unknown-field-iff-dotted-undeclared-and-both-specs-given", z3.BoolVal(got == "object") == exp_object)]
                cases.append(core.Case("C07-N/final/%d/%s/%s" % (nprefix, obj_declared, sub_declared), run,
                                       functions=["luqum.check.CheckNestedFields._check_final_operation"]))

    def run_visit(cx):
        """field names extend the prefix by their dot-separated parts; terms and phrases are checked, under every class"""
        chk = CK.CheckNestedFields({"n": ["x"]})
        seen = []
        chk._check_final_operation = lambda node, context: seen.append((node, list(context["prefix"])))
        t = T.AndOperation(T.SearchField("a.b", T.Group(T.OrOperation(T.Word("w1"), T.Phrase('"p"')))),
                           T.Not(T.SearchField("c", T.FieldGroup(T.Boost(T.Fuzzy(T.Word("w2"), 1), 2)))),
                           T.Range(T.Word("lo"), T.Word("hi")), T.Plus(T.Prohibit(T.Proximity(T.Phrase('"q"'), 1))))
        chk(t)
        got = [(type(n).__name__, getattr(n, "value", None), p) for n, p in seen]
        exp = [("Word", "w1", ["a", "b"]), ("Phrase", '"p"', ["a", "b"]), ("Word", "w2", ["c"]), ("Word", "lo", []), ("Word", "hi", []),
               ("Phrase", '"q"', [])]
        return [("C07-N/visit/every-term-and-phrase-checked-once-with-the-accumulated-field-path", got == exp)]
    def run_specs(cx):
        """the declared sets of a checker / builder are a function of the specs it was given: same-looking specs with different
        contents in one process, and no module / class state written by the helpers"""
        from vfkit import frame
        import luqum.utils as U
        from luqum.elasticsearch import ElasticsearchQueryBuilder as B
        out = []
        snap = frame.snapshot()
        specs = [({"o": ["x"]}, {"o.x"}), ({"o": ["y"]}, {"o.y"}), ({"o": {"x": None, "p": ["q"]}}, {"o.x", "o.p.q"}), (["o.x"], {"o.x"}), (["o.z"], {"o.z"}),
                 ({"o": ["x"], "t": ["k"]}, {"o.x", "t.k"}), ({"t": ["raw"]}, {"t.raw"}), ([], set()), (("o.x", "o.y"), {"o.x", "o.y"}),
                 # any iterable of names is a list of leaves: sets, frozensets, dict views, generators
                 ({"o": {"x", "y"}}, {"o.x", "o.y"}), ({"o": frozenset(["x"]), "t": {"k": None}.keys()}, {"o.x", "t.k"}),
                 ({"e": {"name": None, "address": {"city", "zip"}}}, {"e.name", "e.address.city", "e.address.zip"}), ({"o.x"}, {"o.x"})]
        for rnd in (1, 2):
            for spec, want in specs:
                out.append(("C07-S/normalize_object_fields_specs/is-a-function-of-the-spec", set(U.normalize_object_fields_specs(spec)) == want))
                out.append(("C07-S/flatten_nested_fields_specs/is-a-function-of-the-spec", set(U.flatten_nested_fields_specs(spec)) == want))
                chk = CK.CheckNestedFields({"n": ["x"]}, object_fields=spec, sub_fields=specs[(specs.index((spec, want)) + 3) % len(specs)][0])
                out.append(("C07-S/CheckNestedFields/declared-sets-are-those-of-its-own-specs",
                            set(chk.object_fields) == want and set(chk.sub_fields) == specs[(specs.index((spec, want)) + 3) % len(specs)][1]
                            and set(chk.object_prefixes) == {k.rsplit(".", 1)[0] for k in want if "." in k}))
                b = B(nested_fields=spec, object_fields=spec)
                out.append(("C07-S/builder/declared-sets-are-those-of-its-own-specs",
                            set(b.object_fields) == want and set(b.nested_fields) == set(U.normalize_nested_fields_specs(spec))))
        out.append(("C07-S/helpers-write-no-module-or-class-state", not frame.diff(snap, frame.snapshot())))
        return out
    cases.append(core.Case("C07-S/specs", run_specs, functions=["luqum.utils.normalize_object_fields_specs", "luqum.utils.flatten_nested_fields_specs",
                                                                "luqum.check.CheckNestedFields.__init__",
                                                                "luqum.elasticsearch.visitor.ElasticsearchQueryBuilder.__init__"]))
    cases.append(core.Case("C07-N/visit", run_visit, functions=["luqum.check.CheckNestedFields.visit_search_field",
                                                                "luqum.check.CheckNestedFields.visit_term",
                                                                "luqum.check.CheckNestedFields.visit_phrase"]))
    return cases


# ------------------------------------------------------------------------------------------------ C06-L
def expected_leaf(kind, q, field, analysed, wild, star, opts, fuzz, boost, name, ztq, base_method):
    """the documented leaf table (one clause), values may be symbolic"""
    fo = dict(opts)
    mt = fo.pop("match_type", None)
    ty = None if mt else fo.pop("type", None)
    inner = dict(fo)
    if kind == "word" and star:
        c = {"exists": {"field": field}}
        if name is not None:
            c["exists"]["_name"] = name
        return c
    if fuzz is not None:
        method = "fuzzy"
        if wild:
            method = "query_string" if analysed else "wildcard"
    elif not analysed:
        method = "wildcard" if wild else "term"
    elif wild:
        method = "query_string"
    else:
        method = (mt or ty or base_method) if base_method.startswith("match") else base_method
    if method == "query_string":
        inner.update({"query": q, "default_field": field, "analyze_wildcard": True, "allow_leading_wildcard": True})
        outer = {"query_string": inner}
    else:
        if "match" in method:
            inner["query"] = q
            if method == "match":
                inner["zero_terms_query"] = ztq
        else:
            inner["value"] = q
        outer = {method: {field: inner}}
    if boost is not None:
        inner["boost"] = boost
    if fuzz is not None:
        inner["fuzziness"] = fuzz
    if name is not None:
        inner["_name"] = name
    return outer


def same_json(a, b):
    """structural equality of two json-like values whose string leaves may be symbolic: returns z3 term / bool"""
    if isinstance(a, dict) and isinstance(b, dict):
        if set(a) != set(b):
            return False
        conj = []
        for k in a:
            r = same_json(a[k], b[k])
            if r is False:
                return False
            if r is not True:
                conj.append(r)
        return z3.And(conj) if conj else True
    if isinstance(a, (str, SymStr)) and isinstance(b, (str, SymStr)):
        if isinstance(a, str) and isinstance(b, str):
            return a == b
        return S(a) == S(b)
    if isinstance(a, (dict, list)) or isinstance(b, (dict, list)):
        return a == b
    return a == b and type(a) is type(b)


UNESCAPED_WILDCARD = RL.to_z3(RL.cat(ext.full_language_rx(r"(?:\\.|[^\\*?])*[*?]", _re.DOTALL), RL.ALL))


def leaf_cases():
    cases = []
    optsets = {"none": {}, "options": {"t": {"analyzer": "english"}}, "match_type": {"t": {"match_type": "match_phrase", "x": 1}},
               "type": {"t": {"type": "match_phrase"}}}
    for analysed in (True, False):
        for oname, opts in optsets.items():
            for base in (("match", "match_phrase") if analysed else ("term",)):      # what the visitor passes
                for mods in ("plain", "fuzzy", "boost+name", "ztq-all"):
                    def run(cx, analysed=analysed, oname=oname, opts=opts, base=base, mods=mods):
                        q = SymStr(name="q")
                        na = [] if analysed else ["t"]
                        before = frame.snapshot()
                        w = ET.EWord(q=q, no_analyze=na, method=base, fields=["t"], field_options=opts,
                                     _name=("nm" if mods == "boost+name" else None))
                        fuzz = boost = None
                        if mods == "fuzzy":
                            w.fuzziness = 2.0
                            fuzz = 2.0
                        if mods == "boost+name":
                            w.boost = 3.0
                            boost = 3.0
                        ztq = "none"
                        if mods == "ztq-all":
                            ET.EMust(items=[w])
                            ztq = "all"
                        j = w.json
                        changed = frame.diff(before, frame.snapshot())
                        # on this path the code has decided whether q is the star and whether it has a wildcard
                        star = _decided(cx, q.t == z3.StringVal("*"))
                        # "wildcard forms for unescaped * or ?" (statement): a backslash escapes the character after it
                        wild = _decided(cx, z3.InRe(q.t, UNESCAPED_WILDCARD))
                        if wild is None:
                            wild = cx.decide(z3.InRe(q.t, UNESCAPED_WILDCARD))
                        if star is None:
                            star = False if not _is_star_path(cx, q) else True
                        exp = expected_leaf("word", q, "t", analysed, bool(wild), bool(star), opts.get("t", {}), fuzz, boost,
                                            "nm" if mods == "boost+name" else None, ztq, base)
                        key = "C06-L/EWord/%s/%s/%s/%s" % ("analysed" if analysed else "not-analysed", oname, base, mods)
                        return [(key + "/clause-is-the-documented-one", same_json(j, exp)),
                                (key + "/no-class-level-state-written", (not changed, {"written": changed[:6]}))]
                    cases.append(core.Case("C06-L/EWord/%s/%s/%s/%s" % (analysed, oname, base, mods), run,
                                           functions=["luqum.elasticsearch.tree.AbstractEItem.json", "luqum.elasticsearch.tree.AbstractEItem.method",
                                                      "luqum.elasticsearch.tree.EWord.json", "luqum.elasticsearch.tree.AbstractEItem._value_has_wildcard_char"]))

    def run_phrase(cx):
        out = []
        for analysed in (True, False):
            before = frame.snapshot()
            p1 = ET.EPhrase(phrase='"a  b\nc"', no_analyze=[] if analysed else ["t"], fields=["t"], field_options={})
            p2 = ET.EPhrase(phrase='"x y"', no_analyze=[] if analysed else ["t"], fields=["t"], field_options={})
            p3 = ET.EPhrase(phrase='"he said \\"hello\\""', no_analyze=[] if analysed else ["t"], fields=["t"], field_options={})
            p4 = ET.EPhrase(phrase='"\\"q\\" x"', no_analyze=[] if analysed else ["t"], fields=["t"], field_options={})
            p1.slop = 2.0
            j1, j2 = p1.json, p2.json
            if analysed:
                out.append(("C06-L/EPhrase/only-the-enclosing-quotes-are-stripped",
                            p3.json == {"match_phrase": {"t": {"query": 'he said \\"hello\\"'}}} and p4.json == {"match_phrase": {"t": {"query": '\\"q\\" x'}}}))
            changed = frame.diff(before, frame.snapshot())
            out.append(("C06-L/EPhrase/%s/quotes-stripped-blanks-folded-slop-on-this-item-only" % analysed,
                        j1 == {"match_phrase": {"t": {"query": "a b c", "slop": 2.0}}} and j2 == {"match_phrase": {"t": {"query": "x y"}}}
                        if analysed else j1.get("match_phrase", j1.get("term")) is not None))
            out.append(("C06-F/EPhrase/%s/class-level-keys-not-extended" % analysed,
                        (not changed and ET.EPhrase.ADDITIONAL_KEYS_TO_ADD == ("q",), {"written": changed[:6]})))
        return out
    cases.append(core.Case("C06-L/EPhrase", run_phrase, functions=["luqum.elasticsearch.tree.EPhrase.__init__", "luqum.elasticsearch.tree.EPhrase.slop"]))

    def run_range(cx):
        out = []
        before = frame.snapshot()
        for kw, exp in (({"gte": "1", "lte": "5"}, {"gte": "1", "lte": "5"}), ({"gt": "1", "lt": "5"}, {"gt": "1", "lt": "5"}),
                        ({"gte": "*", "lt": "5"}, {"lt": "5"}), ({"gt": "1", "lte": "*"}, {"gt": "1"}), ({"gte": "*", "lte": "*"}, {})):
            r = ET.ERange(fields=["t"], no_analyze=[], field_options={}, **kw)
            out.append(("C06-L/ERange/bounds-under-their-keys-star-omitted", r.json == {"range": {"t": exp}}))
        r2 = ET.ERange(fields=["t"], no_analyze=[], field_options={})
        out.append(("C06-F/ERange/keys-of-one-range-do-not-leak-into-another", r2.json == {"range": {"t": {}}} and
                    ET.ERange.ADDITIONAL_KEYS_TO_ADD == () and not frame.diff(before, frame.snapshot())))
        return out
    cases.append(core.Case("C06-L/ERange", run_range, functions=["luqum.elasticsearch.tree.ERange.__init__"]))
    return cases


def _decided(cx, cond):
    """truth value of cond under the current path condition, None if not determined (or not determined within 5 s)"""
    s = z3.Solver()
    s.set("timeout", 5000)
    from vfkit import relang
    fs = list(cx.pc) + [cond]
    pairs, clauses, _ = relang.exact_abstraction(fs + [z3.Not(cond)])
    sub = (lambda c: z3.substitute(c, *pairs)) if pairs else (lambda c: c)
    for c in cx.pc:
        s.add(sub(c))
    for c in clauses:
        s.add(sub(c))
    s.push()
    s.add(sub(z3.Not(cond)))
    if s.check() == z3.unsat:
        return True
    s.pop()
    s.add(sub(cond))
    if s.check() == z3.unsat:
        return False
    return None


def _is_star_path(cx, q):
    return _decided(cx, q.t == z3.StringVal("*")) is True


# ------------------------------------------------------------------------------------------------ C05-S  (semantic step, per class)
class SemLeaf(ET.JsonSerializableMixin):
    """the translation of an arbitrary sub-tree whose meaning is an arbitrary truth value `val` (z3 Bool): the induction
    hypothesis of the structural induction.  Accepts the attribute writes the builder performs on items."""

    def __init__(self, val, tag):
        self.val = val
        self.tag = tag

    @property
    def json(self):
        return {"__leaf__": self}


def es_meaning(js):
    """meaning of an ES bool query over abstract leaves, from the ES documentation: must / filter all match, no must_not matches,
    and - when there is no must / filter clause - at least one should clause matches if there is any"""
    (kind, body), = js.items()
    if kind == "__leaf__":
        return body.val
    if kind != "bool":
        raise EngineUnsupported("ES clause %r in a boolean skeleton" % kind)
    extra = set(body) - {"must", "filter", "must_not", "should"}
    if extra:
        raise EngineUnsupported("bool options %s" % sorted(extra))
    must = [es_meaning(c) for c in body.get("must", []) + body.get("filter", [])]
    mnot = [es_meaning(c) for c in body.get("must_not", [])]
    should = [es_meaning(c) for c in body.get("should", [])]
    parts = list(must) + [z3.Not(x) for x in mnot]
    if should and not must:
        parts.append(z3.Or(should))
    return z3.And(parts) if parts else z3.BoolVal(True)


def _operand(kind, i, cx, top_cls, default="should"):
    """(node, stubs {id(node): E-item}, meaning) of one operand of the given kind; the stub is what the operand's own visit
    returns by ITS contract (proved in its own case), its meaning is the induction hypothesis"""
    def fresh(nm):
        b = z3.Bool("%s%d" % (nm, i))
        cx.register("%s%d" % (nm, i), b)
        return b
    if kind == "leaf":
        n = T.Word("w%d" % i)
        v = fresh("v")
        return n, {id(n): SemLeaf(v, "w%d" % i)}, v
    if kind == "group":
        n = T.Group(T.Word("g%d" % i))
        v = fresh("v")
        return n, {id(n): SemLeaf(v, "g%d" % i)}, v
    if kind in ("plus", "not", "prohibit"):
        inner = T.Word("p%d" % i)
        cls = {"plus": T.Plus, "not": T.Not, "prohibit": T.Prohibit}[kind]
        n = cls(inner)
        v = fresh("v")
        leaf = SemLeaf(v, "p%d" % i)
        item = ET.EMust(items=[leaf]) if kind == "plus" else ET.EMustNot(items=[leaf])
        # translations arranged at both depths (the prefixed node and its operand), so that code looking through the prefix is decided
        return n, {id(n): item, id(inner): leaf}, (v if kind == "plus" else z3.Not(v))
    if kind in ("and", "or"):
        a, b = T.Word("a%d" % i), T.Word("b%d" % i)
        cls = T.AndOperation if kind == "and" else T.OrOperation
        n = cls(a, b)
        va, vb = fresh("va"), fresh("vb")
        la, lb = SemLeaf(va, "a%d" % i), SemLeaf(vb, "b%d" % i)
        meaning = z3.And(va, vb) if kind == "and" else z3.Or(va, vb)
        if cls is top_cls:
            # flattened by simplify_if_same: its operands are visited in its place
            return n, {id(a): la, id(b): lb}, meaning
        item = (ET.EMust if kind == "and" else ET.EShould)(items=[la, lb])
        return n, {id(n): item}, meaning
    if kind.startswith("group-"):
        # a parenthesised operation: translations are arranged at every depth (the group, the operation inside, its operands), each
        # with the meaning its own contract gives it, so that code looking through the parentheses is still decided
        opk = kind.split("-", 1)[1]
        a, b = T.Word("a%d" % i), T.Word("b%d" % i)
        cls = {"or": T.OrOperation, "and": T.AndOperation, "unknown": T.UnknownOperation}[opk]
        op = cls(a, b)
        n = T.Group(op)
        va, vb = fresh("va"), fresh("vb")
        la, lb = SemLeaf(va, "a%d" % i), SemLeaf(vb, "b%d" % i)
        conj = opk == "and" or (opk == "unknown" and default == "must")
        item = (ET.EMust if conj else ET.EShould)(items=[la, lb])
        return n, {id(n): item, id(op): item, id(a): la, id(b): lb}, (z3.And(va, vb) if conj else z3.Or(va, vb))
    raise ValueError(kind)


def semantic_cases():
    """P (all truth values of the sub-terms, z3): one step of the structural induction for the boolean skeleton - the JSON produced
    by the REAL visit of a node, evaluated by the ES semantics of bool queries over the (stubbed) translations of its operands,
    has the meaning of the node, provided each operand's translation has the meaning of the operand.  Nested fields change the
    scope of evaluation and are not part of this lemma (bounded part C05-B)."""
    cases = []
    shapes = {
        "AndOperation": [("leaf", "leaf"), ("leaf", "leaf", "leaf"), ("leaf", "and"), ("and", "leaf"), ("leaf", "not"), ("plus", "prohibit"), ("group", "leaf"),
                         ("leaf", "group-or"), ("group-unknown", "leaf"), ("group-and", "group-or")],
        "OrOperation": [("leaf", "leaf"), ("leaf", "leaf", "leaf"), ("leaf", "or"), ("or", "leaf"), ("leaf", "not"), ("plus", "prohibit"), ("group", "leaf"),
                        ("leaf", "group-and"), ("group-unknown", "leaf")],
        "UnknownOperation": [("leaf", "leaf"), ("leaf", "leaf", "leaf"), ("leaf", "not"), ("plus", "prohibit"), ("plus", "leaf"), ("group", "leaf"), ("leaf", "and"), ("or", "leaf")],
        "BoolOperation": [("leaf", "leaf"), ("plus", "leaf"), ("plus", "prohibit", "leaf"), ("prohibit", "leaf"), ("not", "leaf"), ("plus", "plus"), ("prohibit",),
                          ("plus",), ("leaf",), ("leaf", "or"), ("leaf", "and"), ("group", "plus")],
        "Plus": [("leaf",), ("group",), ("or",), ("not",), ("group-or",), ("group-unknown",)],
        "Not": [("leaf",), ("group",), ("not",), ("and",), ("group-or",), ("group-and",), ("group-unknown",)],
        "Prohibit": [("leaf",), ("prohibit",), ("or",), ("group-or",), ("group-and",), ("group-unknown",)],
    }
    for default in ("should", "must"):
        for cname, variants in shapes.items():
            for kinds in variants:
                def run(cx, default=default, cname=cname, kinds=kinds):
                    cls = getattr(T, cname)
                    b = EV.ElasticsearchQueryBuilder(default_operator=default)
                    ops, stubs, meanings = [], {}, []
                    for i, k in enumerate(kinds):
                        n, st, mv = _operand(k, i, cx, cls, default)
                        ops.append(n)
                        stubs.update(st)
                        meanings.append((k, mv))
                    node = cls(*ops)
                    visited = []

                    def stub_visit_iter(self_or_node, *a):
                        # both call shapes: TreeVisitor.visit_iter(node, ctx) via super(), and self.visit_iter(node, ctx)
                        child = self_or_node
                        if id(child) not in stubs:
                            raise EngineUnsupported("visit of a node that is not an arranged operand")
                        visited.append(child)
                        return iter([stubs[id(child)]])
                    real_super = EV.TreeVisitor.visit_iter
                    EV.TreeVisitor.visit_iter = lambda self, n, c: stub_visit_iter(n, c)
                    b.visit_iter = lambda n, c: stub_visit_iter(n, c)
                    meth = b._get_method(node)
                    try:
                        try:
                            out = list(meth(node, {}))
                        except X.OrAndAndOnSameLevel:
                            out = "mix"
                    finally:
                        EV.TreeVisitor.visit_iter = real_super
                    key = "C05-S/%s/%s/%s" % (default, cname, "+".join(kinds))
                    andlike = cname == "AndOperation" or (cname == "UnknownOperation" and default == "must")
                    orlike = cname == "OrOperation" or (cname == "UnknownOperation" and default == "should")
                    clash = (andlike and any(k == "or" or (k == "unknown" and default == "should") for k in kinds)) or \
                            (orlike and any(k == "and" for k in kinds))
                    if cname == "UnknownOperation":
                        clash = (default == "must" and "or" in kinds) or (default == "should" and "and" in kinds)
                    if out == "mix" or clash:
                        return [(key + "/refused-exactly-when-an-unparenthesised-AND-OR-mix", (out == "mix") == bool(clash))]
                    vals = [mv for _, mv in meanings]
                    if andlike:
                        spec = z3.And(vals)
                    elif orlike:
                        spec = z3.Or(vals)
                    elif cname == "Plus":
                        spec = vals[0]
                    elif cname in ("Not", "Prohibit"):
                        spec = z3.Not(vals[0])
                    else:   # BoolOperation, Lucene's boolean query: + required, - / NOT prohibited, the rest optional but one of
                        #     them needed when nothing is required
                        req = [mv for k, mv in meanings if k == "plus"]
                        neg = [mv for k, mv in meanings if k in ("prohibit", "not")]      # already negated meanings
                        opt = [mv for k, mv in meanings if k not in ("plus", "prohibit", "not")]
                        parts = req + neg
                        if opt and not req:
                            parts.append(z3.Or(opt))
                        spec = z3.And(parts) if parts else z3.BoolVal(True)
                    if len(out) != 1:
                        return [(key + "/one-clause", False)]
                    got = es_meaning(out[0].json)
                    cx.notes["replay_info"] = {"class": cname, "operands": list(kinds), "default": default}
                    extra_obls = []
                    if cname in ("Plus", "Not", "Prohibit"):
                        # the boolean operation tells required / prohibited operands by the KIND of their translation
                        # (EBoolOperation.json): a + must give a must clause, a - / NOT a must_not clause, whatever is below
                        want_cls = ET.EMust if cname == "Plus" else ET.EMustNot
                        extra_obls.append((key + "/clause-kind-is-the-one-the-boolean-operation-sorts-on", type(out[0]) is want_cls))
                    return extra_obls + [(key + "/meaning-of-the-generated-bool-clause-is-the-meaning-of-the-node", got == spec),
                            (key + "/no-operand-translated-twice-none-skipped", len({id(v) for v in visited}) == len(visited) and len(visited) >= len(ops) - sum(1 for k in kinds if k in ("and", "or") and getattr(T, {"and": "AndOperation", "or": "OrOperation"}[k]) is cls) and bool(visited))]
                cases.append(core.Case("C05-S/%s/%s/%s" % (default, cname, "+".join(kinds)), run,
                                       functions=["luqum.elasticsearch.visitor.ElasticsearchQueryBuilder._binary_operation",
                                                  "luqum.elasticsearch.visitor.ElasticsearchQueryBuilder.visit_not",
                                                  "luqum.elasticsearch.visitor.ElasticsearchQueryBuilder.visit_bool_operation",
                                                  "luqum.elasticsearch.visitor.ElasticsearchQueryBuilder.visit_unknown_operation",
                                                  "luqum.elasticsearch.tree.EOperation.json", "luqum.elasticsearch.tree.EBoolOperation.json"]))
    return cases


# ------------------------------------------------------------------------------------------------ C06-V  (visitor -> item -> clause)
def visit_leaf_cases():
    """P: the REAL visit of a word / phrase / range / fuzzy / proximity / boost node in an arbitrary field context yields one item
    whose JSON is the documented clause - for every term text and every name (symbolic strings), per field path, analysed or
    not, per-field options, match_word_as_phrase, own / inherited / no name."""
    from luqum.naming import set_name
    cases = []
    field_ctx = {"default": (None, "text"), "t": (["t"], "t"), "n.x": (["n", "x"], "n.x")}
    for fkey, (prefix, field) in field_ctx.items():
        for analysed in (True, False):
            for mwp in (False, True):
                for naming in ("none", "own", "inherited", "own-over-inherited"):
                    for mod in ("plain", "fuzzy", "boost", "boosted-fuzzy"):
                        if (mwp and (not analysed or mod != "plain")) or (fkey == "n.x" and naming in ("own-over-inherited",) and mod != "plain"):
                            continue

                        def run(cx, prefix=prefix, field=field, analysed=analysed, mwp=mwp, naming=naming, mod=mod, fkey=fkey):
                            opts = {"t": {"analyzer": "english"}} if fkey == "t" else {}
                            b = EV.ElasticsearchQueryBuilder(default_field="text", not_analyzed_fields=[] if analysed else [field],
                                                             match_word_as_phrase=mwp, field_options=opts)
                            q = SymStr(name="q")
                            node = T.Word(q)
                            own = inherited = None
                            ctx0 = {}
                            if prefix is not None:
                                ctx0[b.CONTEXT_FIELD_PREFIX] = list(prefix)
                                ctx0[b.CONTEXT_ANALYZE_MARKER] = analysed
                            if naming in ("inherited", "own-over-inherited"):
                                inherited = SymStr(name="inherited_name")
                                ctx0["name"] = inherited
                            top = node
                            fuzz = boost = None
                            if mod in ("fuzzy", "boosted-fuzzy"):
                                top = T.Fuzzy(top, 2)
                                fuzz = 2.0
                            if mod in ("boost", "boosted-fuzzy"):
                                top = T.Boost(top, 3)
                                boost = 3.0
                            if naming in ("own", "own-over-inherited"):
                                own = SymStr(name="own_name")
                                cx.assume(z3.Length(own.t) > 0)       # names given by set_name / auto_name are non-empty
                                set_name(top, own)
                            snap = dict(ctx0)
                            before = frame.snapshot()
                            items = list(b.visit_iter(top, ctx0))
                            changed = frame.diff(before, frame.snapshot())
                            key = "C06-V/word/%s/%s/%s/%s/%s" % (fkey, "analysed" if analysed else "not-analysed", "phrase-mode" if mwp else "word-mode", naming, mod)
                            if len(items) != 1:
                                return [(key + "/one-item", False)]
                            j = items[0].json
                            star = _decided(cx, q.t == z3.StringVal("*"))
                            if star is None:
                                star = False
                            wild = _decided(cx, z3.InRe(q.t, UNESCAPED_WILDCARD))
                            if wild is None:
                                wild = cx.decide(z3.InRe(q.t, UNESCAPED_WILDCARD))
                            name = own if own is not None else inherited
                            base = ("match_phrase" if mwp else "match") if analysed else "term"
                            exp = expected_leaf("word", q, field, analysed, bool(wild), bool(star), opts.get(field, {}), fuzz, boost, name, "none", base)
                            return [(key + "/clause-is-the-documented-one-for-every-text-and-name", same_json(j, exp)),
                                    (key + "/context-of-the-caller-untouched", ctx0 == snap and not changed)]
                        cases.append(core.Case("C06-V/word/%s/%s/%s/%s/%s" % (fkey, analysed, mwp, naming, mod), run,
                                               functions=["luqum.elasticsearch.visitor.ElasticsearchQueryBuilder." + f for f in
                                                          ("visit_word", "visit_fuzzy", "visit_boost", "generic_visit", "get_name", "_fields", "_is_analyzed",
                                                           "_propagate_name")] + ["luqum.elasticsearch.tree.EWord.json", "luqum.elasticsearch.tree.AbstractEItem.json"]))

    for prefix, field in ((None, "text"), (["n", "x"], "n.x")):
        for neg in (False, True):
            def run_range(cx, prefix=prefix, field=field, neg=neg):
                b = EV.ElasticsearchQueryBuilder(default_field="text")
                lo, hi = SymStr(name="lo"), SymStr(name="hi")
                cx.assume(z3.Length(lo.t) > 0)      # a bound is a parsed term or phrase: never empty
                cx.assume(z3.Length(hi.t) > 0)
                il, ih = SymBool(z3.Bool("include_low")), SymBool(z3.Bool("include_high"))
                cx.register("include_low", il.t)
                cx.register("include_high", ih.t)
                # bounds as the parser leaves them: blanks around TO live in the heads / tails of the bounds (and of the inner word of a
                # negative bound)
                wl = T.Word(lo, head=SymStr(name="lo_head"), tail=SymStr(name="lo_tail"))
                low = T.Prohibit(wl, head=SymStr(name="neg_head"), tail=SymStr(name="neg_tail")) if neg else wl
                node = T.Range(low, T.Word(hi, head=SymStr(name="hi_head"), tail=SymStr(name="hi_tail")), include_low=il, include_high=ih)
                ctx0 = {}
                if prefix is not None:
                    ctx0[b.CONTEXT_FIELD_PREFIX] = list(prefix)
                    ctx0[b.CONTEXT_ANALYZE_MARKER] = True
                nm = SymStr(name="range_name")
                ctx0["name"] = nm
                items = list(b.visit_iter(node, ctx0))
                if len(items) != 1:
                    return [("C06-V/range/%s/one-item" % field, False)]
                j = items[0].json
                lov = ("-" + lo) if neg else lo
                inner = {"_name": nm}
                lo_star = False if neg else bool(cx.decide(lo.t == z3.StringVal("*")))
                hi_star = bool(cx.decide(hi.t == z3.StringVal("*")))
                il_v, ih_v = bool(cx.decide(il.t)), bool(cx.decide(ih.t))
                if not lo_star:
                    inner["gte" if il_v else "gt"] = lov
                if not hi_star:
                    inner["lte" if ih_v else "lt"] = hi
                return [("C06-V/range/%s/%s/bounds-under-gte-gt-lte-lt-by-bracket-kind-star-omitted-name-kept" % (field, "negative-low" if neg else "plain"),
                         same_json(j, {"range": {field: inner}}))]
            cases.append(core.Case("C06-V/range/%s/%s" % (field, neg), run_range,
                                   functions=["luqum.elasticsearch.visitor.ElasticsearchQueryBuilder.visit_range",
                                              "luqum.elasticsearch.visitor.ElasticsearchQueryBuilder._range_bound", "luqum.elasticsearch.tree.ERange.__init__"]))

    def run_phrase(cx):
        out = []
        b = EV.ElasticsearchQueryBuilder(default_field="text", not_analyzed_fields=["k"])
        inner = SymStr(name="phrase_inner")
        nm = SymStr(name="phrase_name")
        node = T.Phrase('"' + inner + '"')
        # not analysed field: a term clause on the text between the quotes (any text)
        ctx0 = {b.CONTEXT_FIELD_PREFIX: ["k"], b.CONTEXT_ANALYZE_MARKER: False, "name": nm}
        items = list(b.visit_iter(node, ctx0))
        held = getattr(items[0], "q", None) if len(items) == 1 else None
        if not isinstance(held, (str, SymStr)):
            return [("C06-V/phrase/not-analysed/one-word-item", False)]
        out.append(("C06-V/phrase/not-analysed/the-item-holds-exactly-the-text-between-the-quotes", S(held) == inner.t))
        cx.assume(S(held) == inner.t)          # established by the obligation above; lets the decisions below speak about `inner`
        j = items[0].json
        star = _decided(cx, inner.t == z3.StringVal("*"))
        if star is None:
            star = cx.decide(inner.t == z3.StringVal("*"))
        wild = _decided(cx, z3.InRe(inner.t, UNESCAPED_WILDCARD))
        if wild is None:
            wild = cx.decide(z3.InRe(inner.t, UNESCAPED_WILDCARD))
        exp = expected_leaf("word", inner, "k", False, bool(wild), bool(star), {}, None, None, nm, "none", "term")
        out.append(("C06-V/phrase/not-analysed/term-clause-on-the-text-between-the-quotes", same_json(j, exp)))
        # analysed: concrete phrases (the item folds line breaks with a regular expression substitution), proximity = slop
        for text, want in (('"a b"', "a b"), ('"he said \\"hi\\""', 'he said \\"hi\\"'), ('"x  y"', "x y")):      # runs of blanks are folded on analysed fields (irrelevant to match_phrase)
            ph = T.Proximity(T.Phrase(text), 3)
            it = list(b.visit_iter(ph, {"name": nm}))
            out.append(("C06-V/phrase/analysed/%s/match_phrase-with-slop-and-name" % want,
                        same_json(it[0].json, {"match_phrase": {"text": {"query": want, "slop": 3.0, "_name": nm}}}) if len(it) == 1 else False))
            it = list(b.visit_iter(T.Proximity(T.Phrase(text), 3), {b.CONTEXT_FIELD_PREFIX: ["k"], b.CONTEXT_ANALYZE_MARKER: False}))
            out.append(("C06-V/phrase/not-analysed/%s/proximity-becomes-fuzziness-on-the-unchanged-text" % want,
                        it[0].json == {"fuzzy": {"k": {"value": text[1:-1], "fuzziness": 3.0}}} if len(it) == 1 else False))
        return out
    cases.append(core.Case("C06-V/phrase", run_phrase, functions=["luqum.elasticsearch.visitor.ElasticsearchQueryBuilder.visit_phrase",
                                                                  "luqum.elasticsearch.visitor.ElasticsearchQueryBuilder.visit_proximity"]))
    return cases


# ------------------------------------------------------------------------------------------------ C05-N  (field step)
def search_field_table():
    """F (exhaustive over the table below): one step of visit_search_field - the child is translated once, in a context whose field
    prefix is the enclosing prefix extended by the dot-separated parts of the name, whose analysed marker says whether that full
    name is declared not analysed, with the node added to the parents; the result is the child's translation, wrapped in ONE nested
    clause on the longest declared nested path that the full name reaches beyond the enclosing prefix - unless there is none, or
    the child's translation already is a nested clause (a nested clause on a deeper level stands on its own in ES).  Every entry is
    answered twice: by a fresh builder and by one builder shared by the whole table (no dependence on earlier calls)."""
    from luqum.naming import set_name
    fails = []
    n = 0
    specs = [{"n": {"x": None, "y": None, "m": ["z"]}}, {"a.b": ["c"]}, None]
    names = ["t", "n", "n.x", "n.m", "n.m.z", "x", "m.z", "m", "z", "nx", "n_m.z", "a", "a.b", "a.b.c", "b.c", "b", "c"]
    prefixes = [[], ["n"], ["n", "m"], ["a"], ["a", "b"], ["o"]]
    for spec in specs:
        npaths = set()
        shared = EV.ElasticsearchQueryBuilder(nested_fields=spec, not_analyzed_fields=["n.x", "t"])      # one builder for the whole table: history

        def walk(d, pre):
            for k, v in (d or {}).items():
                p = pre + k.split(".")
                if v:
                    npaths.add(".".join(p))
                    if isinstance(v, dict):
                        walk(v, p)
        walk(spec, [])
        for name in names:
            for prefix in prefixes:
                for kind in ("leaf", "must", "must-of-deeper-nested", "nested-deeper", "nested-same"):
                    for named in (False, True):
                        n += 1
                        b = EV.ElasticsearchQueryBuilder(nested_fields=spec, not_analyzed_fields=["n.x", "t"])
                        expr = T.Word("w")
                        node = T.SearchField(name, expr)
                        if named:
                            set_name(node, "nm")
                        full = prefix + name.split(".")
                        cands = [".".join(full[:i]) for i in range(len(prefix) + 1, len(full) + 1)]
                        want_path = next((p for p in reversed(cands) if p in npaths), None)
                        A = Leaf("a")
                        deeper = ".".join(full + ["deeper"])
                        child = {"leaf": A, "must": ET.EMust(items=[A, Leaf("b")]),
                                 "must-of-deeper-nested": ET.EMust(items=[ET.ENested(nested_path=deeper, nested_fields=None, items=A),
                                                                          ET.ENested(nested_path=deeper, nested_fields=None, items=Leaf("b"))]),
                                 "nested-deeper": ET.ENested(nested_path=".".join(full + ["deeper"]), nested_fields=None, items=A),
                                 "nested-same": ET.ENested(nested_path=want_path or "elsewhere", nested_fields=None, items=A)}[kind]
                        seen = []

                        def stub(nd, ctx, child=child, seen=seen):
                            seen.append((nd, dict(ctx)))
                            return iter([child])
                        b.visit_iter = stub
                        ctx0 = {"parents": ("P",), "name": "inherited"}
                        if prefix:
                            ctx0[b.CONTEXT_FIELD_PREFIX] = list(prefix)
                        snap = repr(ctx0)
                        try:
                            out = list(b.visit_search_field(node, ctx0))
                        except Exception as e:  # noqa: BLE001
                            fails.append({"id": "%s|%s|%s|%s" % (spec, name, prefix, kind), "raised": repr(e), "native_confirmed": True})
                            continue
                        ok = len(seen) == 1 and seen[0][0] is expr and len(out) == 1 and repr(ctx0) == snap
                        if ok:
                            cctx = seen[0][1]
                            ok = (cctx.get(b.CONTEXT_FIELD_PREFIX) == full and cctx.get(b.CONTEXT_ANALYZE_MARKER) == (".".join(full) not in ("n.x", "t"))
                                  and cctx.get("parents") == ("P", node) and cctx.get("name") == ("nm" if named else "inherited"))
                        if ok:
                            r = out[0]
                            if want_path is None or isinstance(child, ET.ENested):
                                ok = r is child
                            else:
                                ok = (isinstance(r, ET.ENested) and r.nested_path == want_path and r.items is child
                                      and getattr(r, "_name", None) == ("nm" if named else "inherited"))
                        if ok and not isinstance(child, ET.ENested):
                            # the same step on a builder that has answered every earlier entry of the table
                            shared.visit_iter = lambda nd, ctx, child=child: iter([child])
                            try:
                                r2 = list(shared.visit_search_field(node, dict(ctx0)))
                            except Exception as e:  # noqa: BLE001
                                r2 = [e]
                            same = len(r2) == 1 and ((r2[0] is child) if want_path is None else
                                                     (isinstance(r2[0], ET.ENested) and r2[0].nested_path == want_path))
                            if not same:
                                ok = False
                                out = ["history-dependent: a builder used before answers %r" % (r2,)]
                        if not ok:
                            fails.append({"id": "%s|%s|%s|%s|%s" % (spec, name, prefix, kind, named), "expected_nested_path": want_path,
                                          "got": repr(out)[:200], "child_context": repr(seen[0][1])[:300] if seen else None, "native_confirmed": True})
    return {"ok": not fails, "checked": n, "failures": fails[:10], "exhaustive": True,
            "samples": [{"spec": specs[0], "name": "m.z", "prefix": ["n"], "nested_path": "n.m"}],
            "detail": "3 nested specs x 17 field names (incl. names that extend a nested path without a dot) x 6 enclosing prefixes x 5 kinds of "
                      "child translation x named / unnamed"}
