"""C18 — pretty-printing never changes the query.  DESIGN 3.C18: chunk contract of _get_chains proved per class (C18-C),
frame / determinism (C18-F); the re-join functions and the parse-back clause are BOUNDED (C18-J, C18-B)."""
import z3

from vfkit import bounded, core, frame, model, rewrite, sym
from vfkit.check import Plan
from vfkit.sym import EngineUnsupported, S, SymStr, ctx

from . import c01, treecases

import luqum.tree as T
import luqum.pretty as PR


class Marker:
    """stands for the chunk sequence of a strict sub-term (contract: its chunks are the sub-term's printed pieces
    in order)"""

    def __init__(self, node):
        self.node = node

    def __repr__(self):
        return "<chunks of %s>" % getattr(self.node, "vf_name", self.node)


def flatten(x):
    out = []
    for e in x:
        if isinstance(e, list):
            out.append(("level", flatten(e)))
        else:
            out.append(e)
    return out


def expected(x, kids, inline, parent_kind):
    """spec: the pieces of x in print order, nothing dropped or duplicated; a new indentation level for a group's
    content and for an operation nested directly in an operation of another operator"""
    cname = type(x).__name__
    if isinstance(x, T.BaseOperation):
        seq = []
        for j, k in enumerate(kids):
            seq.append(("child", k))
            if j < len(kids) - 1:
                if inline:
                    seq.append("STICK")
                if x.op:
                    seq.append(x.op)
        if parent_kind == "other-operation":
            return [("level", seq)]
        return seq
    if isinstance(x, T.BaseGroup):
        return ["(", ("level", [("child", kids[0])])] + (["STICK"] if inline else []) + [")"]
    if cname == "SearchField":
        return [("name", x.name), "STICK", ("child", kids[0])]
    return [("atom", x)]


def same(got, exp):
    """structural comparison; returns a z3 term / bool"""
    if len(got) != len(exp):
        return False
    conj = []
    for g, e in zip(got, exp):
        if isinstance(e, tuple) and e[0] == "level":
            if not (isinstance(g, tuple) and g[0] == "level"):
                return False
            r = same(g[1], e[1])
            if r is False:
                return False
            if r is not True:
                conj.append(r)
        elif isinstance(e, tuple) and e[0] == "child":
            if not (isinstance(g, Marker) and g.node is e[1]):
                return False
        elif isinstance(e, tuple) and e[0] == "name":
            if not isinstance(g, (str, SymStr)):
                return False
            conj.append(S(g) == S(e[1] + ":"))
        elif isinstance(e, tuple) and e[0] == "atom":
            if not isinstance(g, (str, SymStr)):
                return False
            conj.append(S(g) == S(model.body(e[1])))
        elif e == "STICK":
            if g is not PR._STICK_MARKER:
                return False
        else:
            if not (isinstance(g, str) and g == e):
                return False
    if not conj:
        return True
    return z3.And(conj)


def chain_cases():
    cases = []
    for cls in model.UNIVERSE:
        if cls is T.NoneItem:
            continue
        shapes = [{}]
        if issubclass(cls, T.BaseOperation):
            shapes = [{"nops": 1}, {"nops": 2}, {"nops": "mid"}]
        elif cls in (T.Fuzzy, T.Proximity, T.Boost):
            shapes = [{"implicit": False}, {"implicit": True}]
        for sh in shapes:
            for inline in (False, True):
                for parent_kind in ("none", "same-operation", "other-operation", "group"):
                    if parent_kind in ("same-operation", "other-operation") and not issubclass(cls, T.BaseOperation):
                        continue
                    la = cls.__name__ + ("." + ("x0+run+x1" if sh.get("nops") == "mid" else "ops%s" % sh["nops"]) if "nops" in sh else "") + \
                        (".implicit" if sh.get("implicit") else "")

                    def run(cx, cls=cls, sh=sh, inline=inline, parent_kind=parent_kind, la=la):
                        if sh.get("nops") == "mid":
                            x, kids = model.make_instance(cls, "x", layout="sym", nops=2)
                            r = model.Run("x_run", cls.op)
                            x.operands = model.RunTuple((x.operands[0], r, x.operands[1]))
                            kids = list(x.operands)
                        else:
                            x, kids = model.make_instance(cls, "x", layout="sym", **sh)
                        pp = PR.Prettifier(inline_ops=inline)
                        real = pp._get_chains

                        def stub(element, parent=None):
                            if isinstance(element, (model.AbsNode, model.Run)):
                                return iter([Marker(element)])
                            return real(element, parent)
                        pp._get_chains = stub
                        if parent_kind == "none":
                            parent = None
                        elif parent_kind == "group":
                            parent = T.Group(T.Word("w"))
                        elif parent_kind == "same-operation":
                            parent = cls(T.Word("a"), T.Word("b"))
                        else:
                            other = [c for c in (T.AndOperation, T.OrOperation) if c.op != cls.op][0]
                            parent = other(T.Word("a"), T.Word("b"))
                        before = dict(x.__dict__)
                        fsnap = frame.snapshot()
                        pdict = dict(pp.__dict__)
                        mark = len(cx.log)
                        got = flatten(list(real(x, parent)))
                        key = "C18-C/%s/%s/%s" % (la, "inline" if inline else "newline", parent_kind)
                        exp = expected(x, kids, inline, parent_kind)
                        return [(key + "/chunks-are-the-printed-pieces-in-order-nothing-dropped-or-duplicated", same(got, exp)),
                                (key + "/tree-printer-and-module-state-untouched",
                                 all(x.__dict__.get(k) is v for k, v in before.items()) and len(x.__dict__) == len(before)
                                 and not [e for e in cx.log[mark:] if e[0] == "write"]
                                 and {k: v for k, v in pp.__dict__.items() if k != "_get_chains"} == {k: v for k, v in pdict.items() if k != "_get_chains"}
                                 and not frame.diff(fsnap, frame.snapshot()))]
                    cases.append(core.Case("C18-C/%s/%s/%s" % (la, "inline" if inline else "newline", parent_kind), run,
                                           functions=["luqum.pretty.Prettifier._get_chains"]))
    return cases


REPLAY_CODE = '''
import sys
sys.path.insert(0, %r)
import c18_pretty as B
problems = []
for q in ['a AND b', 'f:x OR g:(y z)', 'a AND (b OR c) AND d', 'alpha_beta_gamma_delta OR epsilonzetaetatheta AND NOT iotakappalambdamu',
          '(a OR b) AND (c OR d)', 'f:(a b)^2 -c +d', '"p q"~2 [1 TO 2] /r/', 'a b c d e f g']:
    n, fails = B.check(q)
    for f in fails:
        problems.append('%%r settings %%r: %%s' %% (f.get('input'), f.get('settings'), f.get('observation')))
    if len(problems) > 2:
        break
violated = bool(problems)
observation = '; '.join(problems[:3]) or 'as specified'
'''


def replay_builder(rec):
    return [{"kind": "script", "code": REPLAY_CODE % (core.VERIF + "/bounded",)}]


def canary():
    def run(cx):
        x, kids = model.make_instance(T.Group, "x", layout="sym")
        pp = PR.Prettifier()
        real = pp._get_chains
        pp._get_chains = lambda e, p=None: iter([Marker(e)]) if isinstance(e, model.AbsNode) else real(e, p)
        got = flatten(list(real(x, None)))
        return [("canary/a-group-is-one-chunk", len(got) == 1)]
    return core.Case("canary/chains", run, canary=True)


def plan(tier, seed):
    pl = Plan("C18", "exploration")
    pl.cases = chain_cases() + join_cases()
    pl.canaries = [canary()]
    n = 4 if tier == "quick" else 6

    def pretty():
        return bounded.run_native("c18_pretty", {"max_tokens": n, "known": bounded.known_for("C18", "C18-B")})

    def joiner():
        return bounded.run_native("c18_join", {"depth": 3, "known": bounded.known_for("C18", "C18-J")})
    pl.bounded = [("C18-B/pretty text parses back to an equal tree", pretty),
                  ("C18-J/chunks re-joined with blanks only", joiner)]
    pl.functions = ["luqum.pretty.Prettifier." + f for f in ("__init__", "_get_chains", "_count_chars", "_apply_stick", "_lines", "_concatenates", "__call__")]
    pl.min_obligations = len(model.UNIVERSE) * 2
    pl.replay_builder = replay_builder
    pl.assumptions = c01.ASSUMPTIONS
    pl.trusted_base = c01.TRUSTED
    pl.lemmas = ["C18-C (proved per class, L-IND): the chunk sequence of a tree is its printed pieces (atoms printed by their own "
                 "__str__, field names with their colon, parentheses, operator words) in print order, nothing dropped or duplicated",
                 "C18-L (proved per level, recursion stubbed; induction over depth on paper): _lines / _apply_stick / _count_chars emit every chunk and every sub-level line verbatim, in order, separated by blanks / line breaks only",
                 "C18-J (BOUNDED safety net): the same end to end on seeded nested chunk lists",
                 "C18-B (BOUNDED): the pretty text is accepted and parses to an equal tree (needs the parser on a constructed string)"]
    pl.claim = ("chunking proved per class, re-joining proved per level; the parse-back clause is decided by a bounded stand-in, hence exploration.")
    return pl


# ------------------------------------------------------------------------------------------------ C18-L  (one level of re-joining)
def _level_shapes(maxlen=4):
    """element sequences of one level: S = a chunk, B = a sub-level (recursive call), M = the stick marker (between two elements)"""
    import itertools
    out = []
    for n in range(1, maxlen + 1):
        for seq in itertools.product("SBM", repeat=n):
            if seq[0] == "M" or seq[-1] == "M" or any(a == "M" and b == "M" for a, b in zip(seq, seq[1:])):
                continue
            out.append("".join(seq))
    return out


def _only_blanks(piece):
    return isinstance(piece, str) and piece != "" and all(ch in " \n" for ch in piece)


def _is_item_sequence(text, items):
    """text (python str or SymStr built by the code) is: optional blanks, item 1, blanks, item 2, ... item n - every item (a z3 string
    term) verbatim, in order, separated by non-empty runs of blanks / line breaks only.  Decided syntactically on the parts of the
    term, which is exact because items are distinct uninterpreted constants"""
    parts = text._parts() if isinstance(text, SymStr) else ([text] if text else [])
    k = 0
    sep_ok = True       # a separator (or the start) has just been seen
    for p in parts:
        if isinstance(p, str):
            if not _only_blanks(p):
                return False
            sep_ok = True
        else:
            if k >= len(items) or not p.eq(items[k]) or not sep_ok:
                return False
            k += 1
            sep_ok = False
    return k == len(items)


def join_cases():
    """P (every chunk text, every max_len / level / char count - symbolic; indent 0, 2, 4): one level of Prettifier._lines with the
    recursive call on sub-levels stubbed by the same contract, together with the real _apply_stick: the lines it returns, joined by
    line breaks, are the level's chunks and the sub-levels' lines verbatim and in order, separated by blanks / line breaks only;
    stuck elements end up on one line.  _count_chars carries every element over in order (its numbers only steer line breaking)."""
    cases = []
    for indent in (0, 2, 4):
        for shape in _level_shapes():
            def run(cx, indent=indent, shape=shape):
                pp = PR.Prettifier(indent=indent, max_len=sym.SymInt(name="max_len"))
                level = sym.SymInt(name="level")
                cx.assume(level.t >= 0)
                total = sym.SymInt(name="char_counts")
                in_one = bool(cx.decide(z3.Bool(sym.fresh("in_one_liner"))))
                items = []         # expected order of verbatim pieces
                chain = []
                sub_results = {}
                for i, kind in enumerate(shape):
                    if kind == "S":
                        c = SymStr(name="chunk%d" % i)
                        items.append(c.t)
                        chain.append((c, sym.SymInt(name="n%d" % i)))
                    elif kind == "M":
                        chain.append((PR._STICK_MARKER, 0))
                    else:
                        sub = ["<sub%d>" % i]            # stands for a sub-level (only its identity matters)
                        two = bool(cx.decide(z3.Bool(sym.fresh("sub%d_has_two_lines" % i))))
                        lines = [SymStr(name="sub%d_line%d" % (i, j)) for j in range(2 if two else 1)]
                        # induction hypothesis: a sub-level's lines are themselves item sequences; here each line is one opaque item
                        sub_results[id(sub)] = PR._Block(lines)
                        items.extend(x.t for x in lines)
                        chain.append((sub, sym.SymInt(name="n%d" % i)))
                real = PR.Prettifier._lines
                calls = []

                def stub(self, cwc, n, level=0, in_one_liner=False):
                    if id(cwc) in sub_results:
                        calls.append((id(cwc), level, in_one_liner))
                        return sub_results[id(cwc)]
                    return real(self, cwc, n, level, in_one_liner)
                PR.Prettifier._lines = stub
                try:
                    res = real(pp, chain, total, level, in_one)
                finally:
                    PR.Prettifier._lines = real
                key = "C18-L/_lines/indent%d/%s" % (indent, shape)
                if not isinstance(res, PR._Block):
                    return [(key + "/returns-a-block-of-lines", False)]
                text = rewrite.vf_join("\n", list(res))
                out = [(key + "/lines-are-the-chunks-and-sub-level-lines-verbatim-in-order-separated-by-blanks-only", _is_item_sequence(text, items)),
                       (key + "/every-sub-level-formatted-exactly-once", sorted(c[0] for c in calls) == sorted(sub_results))]
                # stuck neighbours share a line: the piece before and after a marker are on the same line
                for i, kind in enumerate(shape):
                    if kind == "M":
                        left = chain[i - 1][0]
                        right = chain[i + 1][0]
                        lt = (sub_results[id(left)][-1] if isinstance(left, list) else left).t
                        rt = (sub_results[id(right)][0] if isinstance(right, list) else right).t
                        same_line = any(isinstance(ln, SymStr) and any((not isinstance(p, str)) and p.eq(lt) for p in ln._parts())
                                        and any((not isinstance(p, str)) and p.eq(rt) for p in ln._parts()) for ln in res)
                        out.append((key + "/stuck-elements-%d-share-a-line" % i, same_line))
                return out
            cases.append(core.Case("C18-L/_lines/%d/%s" % (indent, shape), run,
                                   functions=["luqum.pretty.Prettifier._lines", "luqum.pretty.Prettifier._apply_stick", "luqum.pretty.Prettifier._concatenates"]))

    for shape in ("S", "SS", "SB", "BSB", "SMS", "SMB", "B", "SSSS", "SBSMSS"):
        def run_count(cx, shape=shape):
            pp = PR.Prettifier()
            elems, lens = [], []
            for i, kind in enumerate(shape):
                if kind == "S":
                    c = SymStr(name="chunk%d" % i)
                    elems.append(c)
                    lens.append(z3.Length(c.t))
                elif kind == "M":
                    elems.append(PR._STICK_MARKER)
                    lens.append(z3.IntVal(0))
                else:
                    a, b = SymStr(name="sub%da" % i), SymStr(name="sub%db" % i)
                    elems.append([a, b])
                    lens.append(z3.Length(a.t) + 1 + z3.Length(b.t))
            with_counts, total = pp._count_chars(elems)
            exp = sum(lens[1:], lens[0]) + (len(lens) - 1)
            ok_struct = len(with_counts) == len(elems) and all((wc[0] is e) or isinstance(e, list) for wc, e in zip(with_counts, elems))
            # the counts only steer where lines are broken (layout, not part of the property): what matters is that every element is
            # carried over, in order, each with a count
            def same(wc, e):
                if isinstance(e, list):
                    return isinstance(wc[0], list) and len(wc[0]) == len(e) and all(same(w2, e2) for w2, e2 in zip(wc[0], e))
                return wc[0] is e
            ok_struct = len(with_counts) == len(elems) and all(same(wc, e) for wc, e in zip(with_counts, elems))
            return [("C18-L/_count_chars/%s/every-element-carried-over-in-order-with-a-count" % shape, ok_struct)]
        cases.append(core.Case("C18-L/_count_chars/" + shape, run_count, functions=["luqum.pretty.Prettifier._count_chars"]))
    return cases
