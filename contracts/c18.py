"""C18 — pretty-printing never changes the query.  DESIGN 3.C18: chunk contract of _get_chains proved per class (C18-C),
frame / determinism (C18-F); the re-join functions and the parse-back clause are BOUNDED (C18-J, C18-B)."""
import z3

from vfkit import bounded, core, frame, model, sym
from vfkit.check import Plan
from vfkit.sym import EngineUnsupported, S, SymStr, ctx

from . import c01, treecases

import luqum.tree as T
import luqum.pretty as PR


class Marker:
    """stands for the chunk sequence of a strict sub-term (contract: its chunks are the sub-term's printed pieces
    in order)"""

    def __init__(self, node):
        self.node = node

    def __repr__(self):
        return "<chunks of %s>" % getattr(self.node, "vf_name", self.node)


def flatten(x):
    out = []
    for e in x:
        if isinstance(e, list):
            out.append(("level", flatten(e)))
        else:
            out.append(e)
    return out


def expected(x, kids, inline, parent_kind):
    """spec: the pieces of x in print order, nothing dropped or duplicated; a new indentation level for a group's
    content and for an operation nested directly in an operation of another operator"""
    cname = type(x).__name__
    if isinstance(x, T.BaseOperation):
        seq = []
        for j, k in enumerate(kids):
            seq.append(("child", k))
            if j < len(kids) - 1:
                if inline:
                    seq.append("STICK")
                if x.op:
                    seq.append(x.op)
        if parent_kind == "other-operation":
            return [("level", seq)]
        return seq
    if isinstance(x, T.BaseGroup):
        return ["(", ("level", [("child", kids[0])])] + (["STICK"] if inline else []) + [")"]
    if cname == "SearchField":
        return [("name", x.name), "STICK", ("child", kids[0])]
    return [("atom", x)]


def same(got, exp):
    """structural comparison; returns a z3 term / bool"""
    if len(got) != len(exp):
        return False
    conj = []
    for g, e in zip(got, exp):
        if isinstance(e, tuple) and e[0] == "level":
            if not (isinstance(g, tuple) and g[0] == "level"):
                return False
            r = same(g[1], e[1])
            if r is False:
                return False
            if r is not True:
                conj.append(r)
        elif isinstance(e, tuple) and e[0] == "child":
            if not (isinstance(g, Marker) and g.node is e[1]):
                return False
        elif isinstance(e, tuple) and e[0] == "name":
            if not isinstance(g, (str, SymStr)):
                return False
            conj.append(S(g) == S(e[1] + ":"))
        elif isinstance(e, tuple) and e[0] == "atom":
            if not isinstance(g, (str, SymStr)):
                return False
            conj.append(S(g) == S(model.body(e[1])))
        elif e == "STICK":
            if g is not PR._STICK_MARKER:
                return False
        else:
            if not (isinstance(g, str) and g == e):
                return False
    if not conj:
        return True
    return z3.And(conj)


def chain_cases():
    cases = []
    for cls in model.UNIVERSE:
        if cls is T.NoneItem:
            continue
        shapes = [{}]
        if issubclass(cls, T.BaseOperation):
            shapes = [{"nops": 1}, {"nops": 2}, {"nops": "mid"}]
        elif cls in (T.Fuzzy, T.Proximity, T.Boost):
            shapes = [{"implicit": False}, {"implicit": True}]
        for sh in shapes:
            for inline in (False, True):
                for parent_kind in ("none", "same-operation", "other-operation", "group"):
                    if parent_kind in ("same-operation", "other-operation") and not issubclass(cls, T.BaseOperation):
                        continue
                    la = cls.__name__ + ("." + ("x0+run+x1" if sh.get("nops") == "mid" else "ops%s" % sh["nops"]) if "nops" in sh else "") + \
                        (".implicit" if sh.get("implicit") else "")

                    def run(cx, cls=cls, sh=sh, inline=inline, parent_kind=parent_kind, la=la):
                        if sh.get("nops") == "mid":
                            x, kids = model.make_instance(cls, "x", layout="sym", nops=2)
                            r = model.Run("x_run", cls.op)
                            x.operands = model.RunTuple((x.operands[0], r, x.operands[1]))
                            kids = list(x.operands)
                        else:
                            x, kids = model.make_instance(cls, "x", layout="sym", **sh)
                        pp = PR.Prettifier(inline_ops=inline)
                        real = pp._get_chains

                        def stub(element, parent=None):
                            if isinstance(element, (model.AbsNode, model.Run)):
                                return iter([Marker(element)])
                            return real(element, parent)
                        pp._get_chains = stub
                        if parent_kind == "none":
                            parent = None
                        elif parent_kind == "group":
                            parent = T.Group(T.Word("w"))
                        elif parent_kind == "same-operation":
                            parent = cls(T.Word("a"), T.Word("b"))
                        else:
                            other = [c for c in (T.AndOperation, T.OrOperation) if c.op != cls.op][0]
                            parent = other(T.Word("a"), T.Word("b"))
                        before = dict(x.__dict__)
                        fsnap = frame.snapshot()
                        pdict = dict(pp.__dict__)
                        mark = len(cx.log)
                        got = flatten(list(real(x, parent)))
                        key = "C18-C/%s/%s/%s" % (la, "inline" if inline else "newline", parent_kind)
                        exp = expected(x, kids, inline, parent_kind)
                        return [(key + "/chunks-are-the-printed-pieces-in-order-nothing-dropped-or-duplicated", same(got, exp)),
                                (key + "/tree-printer-and-module-state-untouched",
                                 all(x.__dict__.get(k) is v for k, v in before.items()) and len(x.__dict__) == len(before)
                                 and not [e for e in cx.log[mark:] if e[0] == "write"]
                                 and {k: v for k, v in pp.__dict__.items() if k != "_get_chains"} == {k: v for k, v in pdict.items() if k != "_get_chains"}
                                 and not frame.diff(fsnap, frame.snapshot()))]
                    cases.append(core.Case("C18-C/%s/%s/%s" % (la, "inline" if inline else "newline", parent_kind), run,
                                           functions=["luqum.pretty.Prettifier._get_chains"]))
    return cases


REPLAY_CODE = '''
import sys
sys.path.insert(0, %r)
import c18_pretty as B
problems = []
for q in ['a AND b', 'f:x OR g:(y z)', 'a AND (b OR c) AND d', 'alpha_beta_gamma_delta OR epsilonzetaetatheta AND NOT iotakappalambdamu',
          '(a OR b) AND (c OR d)', 'f:(a b)^2 -c +d', '"p q"~2 [1 TO 2] /r/', 'a b c d e f g']:
    n, fails = B.check(q)
    for f in fails:
        problems.append('%%r settings %%r: %%s' %% (f.get('input'), f.get('settings'), f.get('observation')))
    if len(problems) > 2:
        break
violated = bool(problems)
observation = '; '.join(problems[:3]) or 'as specified'
'''


def replay_builder(rec):
    return [{"kind": "script", "code": REPLAY_CODE % (core.VERIF + "/bounded",)}]


def canary():
    def run(cx):
        x, kids = model.make_instance(T.Group, "x", layout="sym")
        pp = PR.Prettifier()
        real = pp._get_chains
        pp._get_chains = lambda e, p=None: iter([Marker(e)]) if isinstance(e, model.AbsNode) else real(e, p)
        got = flatten(list(real(x, None)))
        return [("canary/a-group-is-one-chunk", len(got) == 1)]
    return core.Case("canary/chains", run, canary=True)


def plan(tier, seed):
    pl = Plan("C18", "exploration")
    pl.cases = chain_cases()
    pl.canaries = [canary()]
    n = 4 if tier == "quick" else 5

    def pretty():
        return bounded.run_native("c18_pretty", {"max_tokens": n, "known": bounded.known_for("C18", "C18-B")})

    def joiner():
        return bounded.run_native("c18_join", {"depth": 3, "known": bounded.known_for("C18", "C18-J")})
    pl.bounded = [("C18-B/pretty text parses back to an equal tree", pretty),
                  ("C18-J/chunks re-joined with blanks only", joiner)]
    pl.functions = ["luqum.pretty.Prettifier." + f for f in ("__init__", "_get_chains", "_count_chars", "_apply_stick", "_concatenates", "__call__")]
    pl.min_obligations = len(model.UNIVERSE) * 2
    pl.replay_builder = replay_builder
    pl.assumptions = c01.ASSUMPTIONS
    pl.trusted_base = c01.TRUSTED
    pl.lemmas = ["C18-C (proved per class, L-IND): the chunk sequence of a tree is its printed pieces (atoms printed by their own "
                 "__str__, field names with their colon, parentheses, operator words) in print order, nothing dropped or duplicated",
                 "C18-J (BOUNDED): _concatenates / _apply_stick / _count_chars emit every chunk unchanged, in order, separated by blanks only",
                 "C18-B (BOUNDED): the pretty text is accepted and parses to an equal tree (needs the parser on a constructed string)"]
    pl.claim = ("chunking proved per class; re-joining and the parse-back clause decided by bounded stand-ins, hence exploration.")
    return pl
