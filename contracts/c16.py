"""C16 — match propagation marks a sub-expression as matching exactly when it is true.  DESIGN 3.C16."""
import re

import z3

from vfkit import bounded, core, model, paths, rewrite, sym
from vfkit.check import Plan
from vfkit.paths import SymPath, SymSet, P
from vfkit.sym import EngineUnsupported, PathStop, S, B, SymBool, SymInt, ctx

from . import c01, c08, treecases

import luqum.tree as T
import luqum.naming as N

near = z3.Function("status_of_nearest_named_ancestor_or_self", paths.PATH, z3.BoolSort())


def near_axiom(p_term, matching, other):
    parent = z3.If(z3.Length(p_term) > 0, z3.Extract(p_term, 0, z3.Length(p_term) - 1), z3.Empty(paths.PATH))
    return near(p_term) == z3.If(z3.IsMember(p_term, matching.t), z3.BoolVal(True),
                                 z3.If(z3.IsMember(p_term, other.t), z3.BoolVal(False),
                                       z3.If(z3.Length(p_term) == 0, z3.BoolVal(False), near(parent))))


class StatusCut:
    """cut-point for the iterative spelling of _status_from_parent (`while True: ... path = path[:-1]`): the status of the path in
    hand is the status of the path asked for; decreases the length of the path in hand"""

    def __init__(self, mode, cx, path0, matching, other):
        self.mode, self.cx, self.path0, self.matching, self.other = mode, cx, path0, matching, other
        self.entered = 0
        self.pre = None

    def inv(self, p):
        pt = P(p)
        return z3.And(near(pt) == near(self.path0.t), z3.Length(pt) <= z3.Length(self.path0.t))

    def enter(self, loc):
        self.entered += 1
        names = getattr(self, "rebindable", ()) or tuple(loc)
        self.v = rewrite.state_variable(loc, names, lambda v: v is self.path0, "the path in hand")
        if self.mode == "init":
            raise PathStop([("C16-S/status_from_parent/loop/invariant-holds-on-entry", self.inv(loc[self.v]))])
        q = SymPath(name="path_in_hand")
        self.cx.assume(self.inv(q))
        self.cx.assume(near_axiom(q.t, self.matching, self.other))
        self.pre = z3.Length(q.t)
        return {self.v: q}

    def step(self, loc):
        if self.mode != "havoc":
            return
        p2 = loc[self.v]
        raise PathStop([("C16-S/status_from_parent/loop/invariant-preserved", self.inv(p2)),
                        ("C16-S/status_from_parent/loop/decreases", z3.And(z3.Length(P(p2)) < self.pre, z3.Length(P(p2)) >= 0))])


STATUS_LOOPS = re.compile(r"luqum\.naming\.MatchingPropagator\.\w+#while\d+")


def status_cases():
    def make(mode):
        def run(cx):
            """C16-S: _status_from_parent(path) == near(path).  Recursive spelling: the call on the strict prefix is stubbed by near.
            Iterative spelling: loop invariant (StatusCut); `init` stops at the loop head, `havoc` runs one iteration from an arbitrary state."""
            mp = N.MatchingPropagator()
            path = SymPath(name="path")
            matching, other = SymSet(name="matching"), SymSet(name="other")
            depth = [0]
            real = N.MatchingPropagator._status_from_parent
            seen = []

            def wrapped(p, m, o):
                depth[0] += 1
                try:
                    if depth[0] == 1:
                        return real(mp, p, m, o)
                    seen.append(p)
                    return SymBool(near(P(p)))
                finally:
                    depth[0] -= 1
            mp._status_from_parent = wrapped
            cx.assume(near_axiom(path.t, matching, other))
            m0, o0 = matching.t, other.t
            cut = StatusCut(mode, cx, path, matching, other)
            rewrite.WHILE_CUT_PATTERNS.append((STATUS_LOOPS, cut))
            try:
                r = mp._status_from_parent(path, matching, other)
            finally:
                rewrite.WHILE_CUT_PATTERNS.remove((STATUS_LOOPS, cut))
            if mode == "havoc" and not cut.entered:
                return [("C16-S/status_from_parent/loop/no-loop: the recursive spelling is decided by the other case", True)]
            rt = B(r)
            obls = [("C16-S/status_from_parent/is-the-status-of-the-nearest-named-ancestor-or-self", rt == near(path.t)),
                    # frame: the look-up is used while the sets are still being read by the propagation of other nodes
                    ("C16-S/status_from_parent/the-given-path-sets-are-not-modified", z3.And(matching.t == m0, other.t == o0))]
            if seen:
                obls.append(("C16-S/status_from_parent/recursion-on-the-strict-prefix",
                             z3.And(P(seen[0]) == z3.Extract(path.t, 0, z3.Length(path.t) - 1), z3.Length(path.t) > 0)))
            return obls
        return run
    return [core.Case("C16-S/status_from_parent", make("init"), functions=["luqum.naming.MatchingPropagator._status_from_parent"]),
            core.Case("C16-S/status_from_parent/loop", make("havoc"), functions=["luqum.naming.MatchingPropagator._status_from_parent"])]


def propagate_cases():
    cases = []
    for la, mk, cls in treecases.instances(layout="none", ops_shapes=(0, 1, 2, 3)):
        if ".parsed" in la or ".implicit" in la:
            continue
        for default in ("or", "and"):
            def run(cx, la=la, mk=mk, cls=cls, default=default):
                x, kids = mk("x")
                mp = N.MatchingPropagator(T.OrOperation if default == "or" else T.AndOperation)
                path = SymPath(name="path")
                matching, other = SymSet(name="matching"), SymSet(name="other")
                or_like = isinstance(x, (T.OrOperation,)) or (default == "or" and isinstance(x, T.UnknownOperation))
                real = N.MatchingPropagator._propagate
                calls = []

                def stub(node, m, o, p):
                    if isinstance(node, (model.AbsNode, model.Run)):
                        k = len(calls)
                        st = z3.Bool("child%d_ok" % k)
                        cx.register("child%d_ok" % k, st)
                        sok, sko = SymSet(name="sub_ok%d" % k), SymSet(name="sub_ko%d" % k)
                        # contract of the recursive call (induction hypothesis): its two sets are disjoint and hold only
                        # paths below p, hence neither `path` nor anything from another branch
                        cx.assume(z3.SetIntersect(sok.t, sko.t) == z3.EmptySet(paths.PATH))
                        cx.assume(z3.Not(z3.IsMember(path.t, sok.t)))
                        cx.assume(z3.Not(z3.IsMember(path.t, sko.t)))
                        for (_, _, _, ok2, ko2, _) in calls:
                            for a_, b_ in ((sok, ok2), (sok, ko2), (sko, ok2), (sko, ko2)):
                                cx.assume(z3.SetIntersect(a_.t, b_.t) == z3.EmptySet(paths.PATH))
                        calls.append((node, p, st, sok, sko, (m, o)))
                        return SymBool(st), sok, sko
                    return real(mp, node, m, o, p)
                mp._propagate = stub
                mp._status_from_parent = lambda p, m, o: SymBool(near(P(p)))       # callee contract (C16-S)
                before = dict(x.__dict__)
                mark = len(cx.log)
                ok, s_ok, s_ko = real(mp, x, matching, other, path)
                key = "C16-P/%s/default-%s" % (la, default)
                propagates = bool(kids) and not isinstance(x, (T.Range, T.BaseApprox))
                sts = [c[2] for c in calls]
                if propagates:
                    comb = (z3.Or(sts) if or_like else z3.And(sts)) if sts else None
                else:
                    comb = None
                base = z3.If(z3.IsMember(path.t, matching.t), z3.BoolVal(True), comb if comb is not None else near(path.t))
                val = z3.Not(base) if isinstance(x, (T.Not, T.Prohibit)) else base
                okt = B(ok)
                # expected sets
                u_ok = z3.EmptySet(paths.PATH)
                u_ko = z3.EmptySet(paths.PATH)
                for c in calls:
                    u_ok = z3.SetUnion(u_ok, c[3].t)
                    u_ko = z3.SetUnion(u_ko, c[4].t)
                exp_ok = z3.If(val, z3.SetAdd(u_ok, path.t), u_ok)
                exp_ko = z3.If(val, u_ko, z3.SetAdd(u_ko, path.t))
                obls = [(key + "/status-is-the-boolean-value", okt == val),
                        (key + "/matching-set: this node iff true, plus the children's", paths.S_(s_ok) == exp_ok),
                        (key + "/non-matching-set: this node iff false, plus the children's", paths.S_(s_ko) == exp_ko),
                        (key + "/every-sub-expression-classified-exactly-once",
                         z3.And(z3.SetIntersect(paths.S_(s_ok), paths.S_(s_ko)) == z3.EmptySet(paths.PATH),
                                z3.IsMember(path.t, z3.SetUnion(paths.S_(s_ok), paths.S_(s_ko))))),
                        (key + "/children-classified-iff-the-construct-propagates",
                         (len(calls) == len(kids) and all(c[0] is k for c, k in zip(calls, kids))) if propagates else not calls),
                        (key + "/tree-untouched", all(x.__dict__.get(k) is v for k, v in before.items())
                         and len(x.__dict__) == len(before) and not [e for e in cx.log[mark:] if e[0] == "write"])]
                # children visited with path + (j,) and the same sets
                conj = []
                idx = 0
                okp = True
                for c in calls:
                    okp = okp and isinstance(c[1], SymPath) and c[5][0] is matching and c[5][1] is other
                    if okp:
                        conj.append(c[1].t == z3.Concat(path.t, z3.Unit(sym.I(idx))))
                    idx = idx + (c[0].count if isinstance(c[0], model.Run) else 1)
                obls.append((key + "/children-propagated-with-their-index-paths", z3.And([z3.BoolVal(okp)] + conj) if conj else okp))
                return obls
            cases.append(core.Case("C16-P/%s/default-%s" % (la, default), run,
                                   functions=["luqum.naming.MatchingPropagator._propagate"]))

    def run_init(cx):
        a = N.MatchingPropagator()
        b = N.MatchingPropagator(T.AndOperation)
        c = N.MatchingPropagator(T.OrOperation)
        return [("C16-P/init/default-or-adds-implicit-to-the-instance-only",
                 T.UnknownOperation in a.OR_NODES and T.UnknownOperation in c.OR_NODES and T.UnknownOperation not in b.OR_NODES
                 and N.MatchingPropagator.OR_NODES == (T.OrOperation,)),
                ("C16-P/init/class-tables", N.MatchingPropagator.NEGATION_NODES == (T.Not, T.Prohibit)
                 and N.MatchingPropagator.NO_CHILDREN_PROPAGATE == (T.Range, T.BaseApprox))]
    cases.append(core.Case("C16-P/init", run_init, functions=["luqum.naming.MatchingPropagator.__init__"]))

    def run_call(cx):
        mp = N.MatchingPropagator()
        seen = []
        r_ok, r_ko = object(), object()

        def prop(tree, m, o, p):
            seen.append((tree, m, o, p))
            return True, r_ok, r_ko
        mp._propagate = prop
        t, m = T.Word("w"), {(0,)}
        r = mp(t, m)
        r2 = mp(t, m, {(1,)})
        return [("C16-P/call/propagates-from-the-root-with-empty-path-and-returns-both-sets",
                 r == (r_ok, r_ko) and seen[0][0] is t and seen[0][1] is m and seen[0][3] == () and len(seen[0][2]) == 0
                 and seen[1][2] == {(1,)} and r2 == (r_ok, r_ko))]
    cases.append(core.Case("C16-P/call", run_call, functions=["luqum.naming.MatchingPropagator.__call__"]))
    return cases


REPLAY_CODE = '''
import sys
sys.path.insert(0, %r)
import c16_propagation as B
problems = []
queries = ['a', 'a AND b', 'a OR b', 'a b', 'a AND (b OR c)', 'a AND (b OR c) AND d', 'f:(a OR b) AND c^2', '(a b) OR (c AND d)',
           'a AND [1 TO 2] AND c~2', '"p q"~2 OR b', 'a OR b OR c OR d', '(a AND b) (c OR d)', 'f:g:h OR x', 'b c AND d',
           '((a OR b) AND (c OR d)) OR e', 'x:[1 TO 2] AND y~2 OR "p q"~3', 'a AND NOT b', 'NOT a', '-a +b c', 'a OR NOT b OR -c']
for q in queries:
    n, fails = B.check(q)
    for f in fails:
        problems.append('%%r: %%s' %% (f.get('input'), f.get('observation')))
    if len(problems) > 2:
        break
violated = bool(problems)
observation = '; '.join(problems[:3]) or 'as specified'
''' % (core.VERIF + "/bounded",)


def replay_builder(rec):
    from vfkit import witness
    return [{"kind": "script", "code": witness.PRELUDE + REPLAY_CODE}]


def canary():
    def run(cx):
        mp = N.MatchingPropagator()
        x, kids = model.make_instance(T.AndOperation, "x", layout="none", nops=2)
        st = [z3.Bool("c0"), z3.Bool("c1")]
        it = iter(st)
        mp._propagate = lambda node, m, o, p: (SymBool(next(it)), SymSet(), SymSet())
        mp._status_from_parent = lambda p, m, o: False
        ok, _, _ = N.MatchingPropagator._propagate(mp, x, SymSet(name="matching"), SymSet(name="other"), SymPath(name="path"))
        return [("canary/and-is-true-when-any-child-is", B(ok) == z3.Or(st))]
    return core.Case("canary/propagate", run, canary=True)


def plan(tier, seed):
    pl = Plan("C16", "proof")
    pl.cases = status_cases() + propagate_cases()
    pl.canaries = [canary()]
    from vfkit import lean as _leanc
    pl.finite = list(getattr(pl, 'finite', None) or []) + [("A6/Lean re-check of the composition lemmas L-IND", _leanc.compose_check('L-IND'))]

    def sweep():
        return bounded.run_native("c16_propagation", {"max_tokens": 4 if tier == "quick" else 7,
                                                      "known": bounded.known_for("C16", "C16-B")})
    pl.bounded = [("C16-B/propagation vs direct boolean evaluation (cross-check of the spec val, safety net)", sweep)]
    pl.functions = ["luqum.naming.MatchingPropagator." + f for f in ("__init__", "_status_from_parent", "_propagate", "__call__")]
    pl.min_obligations = len(model.UNIVERSE) * 8
    pl.replay_builder = replay_builder
    pl.assumptions = c01.ASSUMPTIONS
    pl.trusted_base = c01.TRUSTED
    pl.lemmas = ["spec val (from the statement): a leaf, range or fuzzy/proximity has the status of its nearest named "
                 "ancestor-or-self (false if none); an inner node is true if itself reported matching, else any (OR, and "
                 "implicit with default OR) / all of its children; negations are flipped afterwards.  Under the statement's "
                 "precondition (no negation strictly between a named element and the term it covers) val is the boolean "
                 "value of the sub-expression (paper)",
                 "L-IND (Lean: fold_ind; model link assumed) over the per-class contract of _propagate with the recursive call stubbed by the same "
                 "contract (statuses, two disjoint path sets below the child's path); L-A (Lean): any/all and set union over "
                 "an operand run behave like one element",
                 "_status_from_parent: recursion on the strict prefix stubbed by its contract (well-founded on path length)"]
    pl.claim = ("per class x default operation, for symbolic paths and arbitrary (uninterpreted) sets of matching / other "
                "paths, i.e. all truth assignments: status, classification sets (complete, disjoint), index paths, tree untouched.")
    return pl
