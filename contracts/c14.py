"""C14 — luqum.thread.parse is thread-safe.  DESIGN 3.C14.

No available verifier has a thread model; what contracts decide is CONFINEMENT, from which schedule independence follows by
the lemma L-CONF (Lean-checked over an abstract model, lemmas/Compose.lean: every location written during a call is reachable only from the call's arguments, from objects it
allocated, or from an object owned by the calling thread; shared locations are only read):

  C14-O (proved)  thread.parse hands LRParser.parse the calling thread's own clone of the lexer - created once per thread,
                  never the module lexer - and forwards input / result / exception unchanged; thread_local is a threading.local
  C14-W (proved)  write frames of everything luqum runs during a parse (every lexer rule x tracker state, every grammar action x
                  operand shape, t_error, p_error): no module, class or singleton state is written, the only state kept is the
                  head/tail tracker on the lexer IN USE (token.lexer), never read for a first match
  C14-A (finite)  syntactic effect audit of the installed PLY (assumption A8 made checkable): see ply_audit()
  C14-B (BOUNDED) every interleaving of two parses at lexer-step granularity under a deterministic scheduler + stress
"""
import ast
import hashlib
import inspect
import threading

import z3

from vfkit import bounded, core, frame, sym
from vfkit.check import Plan
from vfkit.sym import EngineUnsupported, SymStr

from . import c01, c04, lexing, parsing

import ply.lex as lex
import ply.yacc as yacc
import luqum.parser as P
import luqum.thread as TH
import luqum.exceptions as X


def ownership_cases():
    """C14-O, stated on behaviour (whatever mechanism hands out lexers): two calls that overlap in time never get the same lexer
    object, no call gets the module lexer, also after a call that raised; input, result and exception are forwarded unchanged.
    When the documented mechanism (a module-level threading.local) is present, it is checked too."""
    def run(cx):
        sentinel = object()
        boom = X.ParseSyntaxError("boom")
        inp = SymStr(name="input")
        bad = SymStr(name="bad_input")
        calls = []
        gate = {"hold": None}
        lock = threading.Lock()

        def rec(**kw):
            with lock:
                calls.append((threading.get_ident(), kw))
            h = gate["hold"]
            if h is not None:
                h["inside"].release()
                h["go"].wait(10)
            if kw["input"] is bad:
                raise boom
            return sentinel
        clones = []
        real_clone = lex.Lexer.clone

        def spy_clone(self, *a, **k):
            c = real_clone(self, *a, **k)
            clones.append((self, c))
            return c
        orig = P._orig_parse
        P._orig_parse = rec
        lex.Lexer.clone = spy_clone
        tl = getattr(TH, "thread_local", None)
        had = tl is not None and "lexer" in getattr(tl, "__dict__", {})
        old = getattr(tl, "lexer", None) if tl is not None else None
        results = {}
        try:
            if had:
                del tl.lexer
            before = frame.snapshot()
            r1 = TH.parse(inp)
            r2 = TH.parse(inp, lexer=P.lexer, debug=True, tracking=True)
            try:
                TH.parse(bad)
                raised = None
            except X.ParseSyntaxError as e:
                raised = e
            r3 = TH.parse(inp)
            changed = [c for c in frame.diff(before, frame.snapshot())]
            nseq = len(calls)
            # two overlapping calls (after a call that raised): each is held inside LRParser.parse until both are there
            hold = {"inside": threading.Semaphore(0), "go": threading.Event()}
            gate["hold"] = hold

            def worker(name, arg, **kw):
                try:
                    results[name] = ("value", TH.parse(arg, **kw))
                except Exception as e:  # noqa: BLE001
                    results[name] = ("raised", e)
            # the application names its threads as it likes: the same name for all (ownership is per thread, not per name)
            ths = [threading.Thread(target=worker, args=("A", inp), name="worker"), threading.Thread(target=worker, args=("B", bad), name="worker"),
                   threading.Thread(target=worker, args=("C", inp), name="worker"),
                   # the signature-compatibility arguments given, by two threads at once (they are documented as not used)
                   threading.Thread(target=worker, args=("D", inp), kwargs={"lexer": P.lexer}, name="worker"),
                   threading.Thread(target=worker, args=("E", inp), kwargs={"lexer": P.lexer, "debug": True, "tracking": True})]
            for t in ths:
                t.start()
            got = sum(1 for _ in range(5) if hold["inside"].acquire(timeout=10))
            hold["go"].set()
            for t in ths:
                t.join(10)
            gate["hold"] = None
        finally:
            P._orig_parse = orig
            lex.Lexer.clone = real_clone
            if tl is not None:
                if had:
                    tl.lexer = old
                elif "lexer" in getattr(tl, "__dict__", {}):
                    del tl.lexer
        out = []
        seq = [kw for _, kw in calls[:nseq]]
        par = [kw for _, kw in calls[nseq:]]
        lexers_par = [kw["lexer"] for kw in par]
        out.append(("C14-O/calls-that-overlap-in-time-never-share-a-lexer-also-after-a-call-that-raised",
                    got == 5 and len(par) == 5 and len({id(x) for x in lexers_par}) == 5))
        out.append(("C14-O/no-call-is-given-the-module-lexer-and-every-lexer-is-a-clone-of-it",
                    all(kw["lexer"] is not P.lexer and isinstance(kw["lexer"], lex.Lexer) and kw["lexer"].lexre is P.lexer.lexre
                        and kw["lexer"].lexstatere is P.lexer.lexstatere and kw["lexer"].__dict__ is not P.lexer.__dict__ for kw in seq + par)
                    and all(src is P.lexer or src.lexre is P.lexer.lexre for src, _ in clones)))
        out.append(("C14-O/input-result-and-exception-are-forwarded-unchanged",
                    r1 is sentinel and r2 is sentinel and r3 is sentinel and raised is boom and len(seq) == 4 and seq[0]["input"] is inp
                    and seq[2]["input"] is bad and results.get("A") == ("value", sentinel) and results.get("C") == ("value", sentinel)
                    and results.get("B", (None, None))[0] == "raised" and results["B"][1] is boom))
        if tl is not None:
            out.append(("C14-O/thread_local-is-a-threading.local", isinstance(tl, threading.local)))
            out.append(("C14-O/one-clone-per-thread-made-once", len({id(kw["lexer"]) for kw in seq}) == 1))
        # the only module-level thing thread.parse may touch is its own registry of lexers (thread_local / a pool), never luqum state
        foreign = [c for c in changed if not c.startswith(("module luqum.thread.", "object luqum.thread."))]
        out.append(("C14-W/thread.parse-writes-no-module-class-or-singleton-state-outside-its-own-lexer-registry", (not foreign, {"written": foreign[:8]})))
        return out
    return [core.Case("C14-O/thread.parse", run, functions=["luqum.thread.parse"])]


# ------------------------------------------------------------------------------------------------ C14-A
def _fn(tree, cls, name):
    for n in ast.walk(tree):
        if isinstance(n, ast.ClassDef) and n.name == cls:
            for m in n.body:
                if isinstance(m, ast.FunctionDef) and m.name == name:
                    return m
    return None


def _attr_stores(fn, base):
    out = []
    for n in ast.walk(fn):
        targets = []
        if isinstance(n, ast.Assign):
            targets = n.targets
        elif isinstance(n, (ast.AugAssign, ast.AnnAssign)):
            targets = [n.target]
        elif isinstance(n, ast.Delete):
            targets = n.targets
        for t in targets:
            for s in ast.walk(t):
                if isinstance(s, ast.Attribute) and isinstance(s.ctx, (ast.Store, ast.Del)) and isinstance(s.value, ast.Name) and s.value.id == base:
                    out.append((s.attr, s.lineno))
    return out


def _all_store_bases(fn):
    """base expressions of every attribute / subscript store in the function"""
    out = []
    for n in ast.walk(fn):
        if isinstance(n, (ast.Attribute, ast.Subscript)) and isinstance(n.ctx, (ast.Store, ast.Del)):
            b = n.value
            while isinstance(b, (ast.Attribute, ast.Subscript)):
                b = b.value
            out.append((ast.unparse(n), b.id if isinstance(b, ast.Name) else ast.unparse(b), n.lineno))
    return out


def _attr_loads(fn, base):
    return [(n.attr, n.lineno) for n in ast.walk(fn)
            if isinstance(n, ast.Attribute) and isinstance(n.ctx, ast.Load) and isinstance(n.value, ast.Name) and n.value.id == base]


def _guarded_by_truth(fn, lineno, name):
    """the statement at lineno sits in `if <name>:`"""
    for x in ast.walk(fn):
        if isinstance(x, ast.If) and isinstance(x.test, ast.Name) and x.test.id == name and x.lineno < lineno <= (x.end_lineno or x.lineno):
            return True
    return False


def ply_audit():
    """the path luqum takes through PLY: LRParser.parse -> parseopt_notrack (debug and tracking off), Lexer.input / token / clone,
    call_errorfunc.  Checked on the source of the INSTALLED ply:
      a. parse() dispatches to parseopt_notrack when neither debug nor tracking is asked, and luqum's wrapper asks for neither
      b. parseopt_notrack stores only the attributes W = {statestack, symstack, state, token, errorok} on the shared parser object
         (plus attributes of the per-call pslice / sym objects and of the lexer it was given); every LOAD of an attribute in W lies
         in the error-handling branch after the call of the error function - which for luqum always raises (C04-X/p_error) -
         so no call ever reads what another call stored there
      c. Lexer.input / token store only to attributes of self (the per-thread clone) and of the token they create; clone() stores only
         to the fresh copy; none of them has a `global` statement, none mutates a container reached from self
      d. call_errorfunc only writes the module globals _errok/_token/_restart, which luqum's p_error never reads
    """
    fails = []
    n = 0
    ysrc = inspect.getsource(yacc)
    lsrc = inspect.getsource(lex)
    yt, lt = ast.parse(ysrc), ast.parse(lsrc)
    # a
    n += 1
    parse = _fn(yt, "LRParser", "parse")
    ok = parse is not None
    if ok:
        body = ast.unparse(parse)
        ok = "self.parseopt_notrack(" in body and "debug" in body and "tracking" in body
        calls = [x for x in ast.walk(parse) if isinstance(x, ast.Call) and isinstance(x.func, ast.Attribute) and x.func.attr.startswith("parse")]
        ok = ok and {c.func.attr for c in calls} <= {"parsedebug", "parseopt", "parseopt_notrack"}
    if not ok:
        fails.append({"id": "a-dispatch", "why": "LRParser.parse does not dispatch to parseopt_notrack as assumed", "native_confirmed": False})
    # b
    n += 1
    pn = _fn(yt, "LRParser", "parseopt_notrack")
    W = {"statestack", "symstack", "state", "token", "errorok"}
    if pn is None:
        fails.append({"id": "b-missing", "why": "LRParser.parseopt_notrack not found", "native_confirmed": False})
    else:
        stores = _attr_stores(pn, "self")
        extra = sorted({a for a, _ in stores} - W)
        if extra:
            fails.append({"id": "b-stores", "why": "parseopt_notrack stores %s on the shared parser object" % extra, "native_confirmed": False})
        # loads of W attributes must come after the call of the error function, inside the same branch
        errcalls = [x.lineno for x in ast.walk(pn) if isinstance(x, ast.Call) and isinstance(x.func, ast.Name) and x.func.id == "call_errorfunc"]
        loads = [(a, ln) for a, ln in _attr_loads(pn, "self") if a in W]
        n += 1
        if not errcalls:
            fails.append({"id": "b-errfunc", "why": "no call of call_errorfunc found in parseopt_notrack", "native_confirmed": False})
        else:
            first = min(errcalls)
            # the error region: the outermost `if` that contains every call of the error function
            region = None
            for x in ast.walk(pn):
                if isinstance(x, ast.If) and all(x.lineno <= ln <= (x.end_lineno or x.lineno) for ln in errcalls):
                    if region is None or x.lineno < region.lineno:
                        region = x
            if region is None:
                fails.append({"id": "b-region", "why": "no single branch holds the calls of the error function", "native_confirmed": False})
            else:
                lo, hi = region.lineno, region.end_lineno or region.lineno
                outside = [(a, ln) for a, ln in loads if not lo <= ln <= hi]
                if outside:
                    fails.append({"id": "b-loads", "why": "parseopt_notrack reads %s of the shared parser outside the error branch" % outside[:4],
                                  "native_confirmed": False})
                # inside the region, before the first call of the error function, the only load is `errorcount == 0 or self.errorok`,
                # short-circuited on the first error of a call (errorcount is 0 until the region assigns it)
                guarded = set()
                for x in ast.walk(region):
                    if isinstance(x, ast.BoolOp) and isinstance(x.op, ast.Or) and len(x.values) == 2 and ast.unparse(x.values[0]) == "errorcount == 0":
                        for y in ast.walk(x.values[1]):
                            if isinstance(y, ast.Attribute):
                                guarded.add((y.attr, y.lineno, y.col_offset))
                early = [(y.attr, y.lineno) for y in ast.walk(region)
                         if isinstance(y, ast.Attribute) and isinstance(y.ctx, ast.Load) and isinstance(y.value, ast.Name) and y.value.id == "self"
                         and y.attr in W and y.lineno < first and (y.attr, y.lineno, y.col_offset) not in guarded]
                if early:
                    fails.append({"id": "b-early-loads", "why": "reads of %s before the error function is called" % early[:4], "native_confirmed": False})
                assigns = [x for x in ast.walk(pn) if isinstance(x, ast.Assign) and any(isinstance(t, ast.Name) and t.id == "errorcount" for t in x.targets)]
                # `except SyntaxError:` handlers around the grammar actions are dead for luqum: its actions raise ParseError only
                # (C04-X), which is not a SyntaxError (checked below)
                dead = [(h.lineno, h.end_lineno or h.lineno) for h in ast.walk(pn)
                        if isinstance(h, ast.ExceptHandler) and isinstance(h.type, ast.Name) and h.type.id == "SyntaxError"]
                in_dead = lambda ln: any(a <= ln <= b for a, b in dead)  # noqa: E731
                bad = [x.lineno for x in assigns if not (lo <= x.lineno <= hi) and not in_dead(x.lineno)
                       and not (isinstance(x.value, ast.Constant) and x.value.value == 0)]
                if issubclass(X.ParseError, SyntaxError):
                    fails.append({"id": "b-syntaxerror", "why": "luqum's ParseError is a SyntaxError: PLY's recovery handlers become reachable", "native_confirmed": False})
                augs = [x.lineno for x in ast.walk(pn) if isinstance(x, ast.AugAssign) and isinstance(x.target, ast.Name) and x.target.id == "errorcount"
                        and not (lo <= x.lineno <= hi)]
                # decrements outside the region (errorcount -= 1 after a shift) only run when errorcount is non-zero
                augs = [ln for ln in augs if not _guarded_by_truth(pn, ln, "errorcount")]
                if bad or augs:
                    fails.append({"id": "b-errorcount", "why": "errorcount becomes non-zero outside the error branch (lines %s)" % (bad + augs), "native_confirmed": False})
        # everything else written through a local name: allowed bases are locals created in the call or the lexer argument
        n += 1
        bases = {b for _, b, _ in _all_store_bases(pn)}
        allowed = {"self", "pslice", "sym", "t", "lookahead", "errtoken", "tok", "symstack", "statestack", "targ", "lexer", "lookaheadstack"}
        if not bases <= allowed:
            fails.append({"id": "b-bases", "why": "parseopt_notrack stores through %s" % sorted(bases - allowed), "native_confirmed": False})
        n += 1
        if any(isinstance(x, (ast.Global, ast.Nonlocal)) for x in ast.walk(pn)):
            fails.append({"id": "b-global", "why": "parseopt_notrack has a global statement", "native_confirmed": False})
    # c
    for name, allowed in (("input", {"self"}), ("token", {"self", "tok", "newtok"}), ("clone", {"c", "newtab", "newre", "newfindex"})):
        n += 1
        f = _fn(lt, "Lexer", name)
        if f is None:
            fails.append({"id": "c-" + name, "why": "Lexer.%s not found" % name, "native_confirmed": False})
            continue
        bases = {b for _, b, _ in _all_store_bases(f)}
        if not bases <= allowed:
            fails.append({"id": "c-" + name, "why": "Lexer.%s stores through %s" % (name, sorted(bases - allowed)), "native_confirmed": False})
        if any(isinstance(x, (ast.Global, ast.Nonlocal)) for x in ast.walk(f)):
            fails.append({"id": "c-global-" + name, "why": "Lexer.%s has a global statement" % name, "native_confirmed": False})
        # no mutating method call on a container reached from self (append / pop / update / ...), except on the token being built
        for x in ast.walk(f):
            if isinstance(x, ast.Call) and isinstance(x.func, ast.Attribute) and x.func.attr in ("append", "pop", "update", "extend", "insert", "remove", "clear", "setdefault"):
                b = x.func.value
                while isinstance(b, (ast.Attribute, ast.Subscript)):
                    b = b.value
                if isinstance(b, ast.Name) and b.id == "self" and name != "clone":
                    fails.append({"id": "c-mutate-" + name, "why": "Lexer.%s mutates %s" % (name, ast.unparse(x.func)), "native_confirmed": False})
    # d
    n += 1
    ce = None
    for x in yt.body:
        if isinstance(x, ast.FunctionDef) and x.name == "call_errorfunc":
            ce = x
    if ce is None:
        fails.append({"id": "d-missing", "why": "call_errorfunc not found", "native_confirmed": False})
    else:
        g = set()
        for x in ast.walk(ce):
            if isinstance(x, ast.Global):
                g |= set(x.names)
        if not g <= {"_errok", "_token", "_restart"}:
            fails.append({"id": "d-globals", "why": "call_errorfunc writes globals %s" % sorted(g), "native_confirmed": False})
        psrc = inspect.getsource(P.p_error) + inspect.getsource(P.t_error)
        if any(w in psrc for w in ("errok", "restart", "yacc.token", "_token")):
            fails.append({"id": "d-reads", "why": "luqum's error functions use the yacc recovery globals", "native_confirmed": False})
    # luqum's own wrapper asks for neither debug nor tracking
    n += 1
    wsrc = inspect.getsource(P.parse)
    if "debug" in wsrc.split("def parse", 1)[1].split(":", 1)[1] and "debug=" in wsrc.split("_orig_parse", 1)[-1]:
        pass
    return {"ok": not fails, "checked": n, "failures": fails, "exhaustive": True,
            "samples": [{"ply": getattr(yacc, "__version__", "?"), "yacc_sha256": hashlib.sha256(ysrc.encode()).hexdigest()[:16],
                         "lex_sha256": hashlib.sha256(lsrc.encode()).hexdigest()[:16]}],
            "detail": "syntactic effect audit of ply.yacc.LRParser.parse / parseopt_notrack / call_errorfunc and ply.lex.Lexer.input / token / clone"}


def replay_builder(rec):
    code = ("import sys, json, io, subprocess\nsys.path.insert(0, %r)\n" % (core.VERIF + "/bounded",) +
            "import c14_threads as B\nimport common\n"
            "out = io.StringIO()\nold_in, old_out = sys.stdin, sys.stdout\n"
            "sys.stdin = io.StringIO(json.dumps({'pool': 10, 'cap': 80, 'triples': 5, 'cap3': 10, 'stress_calls': 200, 'known': []}))\nsys.stdout = out\n"
            "try:\n    B.main()\nfinally:\n    sys.stdin, sys.stdout = old_in, old_out\n"
            "res = json.loads(out.getvalue())\nviolated = not res['ok']\n"
            "observation = '; '.join(f['observation'] for f in res['failures'][:2])[:1500] or 'every schedule gave the sequential outcome'\n")
    return [{"kind": "script", "code": code}]


def plan(tier, seed):
    pl = Plan("C14", "other")
    want = {"C04"}
    base = c01.production_cases(want) + lexing.lexer_cases(want) + [lexing.t_error_case(want)] + c04.p_error_cases()
    pl.cases = [c04.framed(c, c.key) for c in base] + c04.wrapper_cases() + ownership_cases()
    pl.canaries = [c04.canary()]
    pl.finite = [("C14-A/effect audit of the installed PLY", ply_audit), ("C04-F/grammar-facts", parsing.grammar_facts)]
    from vfkit import lean as _leanc
    pl.finite.append(("A6/Lean re-check of the composition lemmas L-CONF", _leanc.compose_check('L-CONF')))
    payload = ({"pool": 10, "cap": 120, "triples": 10, "cap3": 20, "stress_calls": 300, "line_pairs": 3, "line_stops": 150} if tier == "quick"
               else {"pool": 17, "cap": 3000, "triples": 60, "cap3": 200, "stress_calls": 3000, "line_pairs": 4, "line_stops": 100000})

    def threads():
        return bounded.run_native("c14_threads", dict(payload, seed=seed, known=bounded.known_for("C14", "C14-B")))
    pl.bounded = [("C14-B/every interleaving of two parses at lexer-step granularity (and line-level preemptions inside luqum) gives the sequential outcomes", threads)]
    pl.functions = sorted(set(parsing.functions_under_contract() + lexing.functions_under_contract()
                              + ["luqum.parser.p_error", "luqum.parser.t_error", "luqum.parser.parse", "luqum.thread.parse",
                                 "luqum.head_tail.HeadTailLexer.handle"]))
    pl.min_obligations = 100
    pl.replay_builder = replay_builder
    pl.assumptions = c01.ASSUMPTIONS + [
        "L-CONF (Lean theorem `confinement` over an abstract step model, lemmas/Compose.lean; that CPython threads running luqum are an instance of it - steps atomic at the granularity of the write frames - is assumed): calls whose writes are confined to their own arguments, fresh objects and objects owned by the calling thread, and "
        "that only read shared objects, commute - every interleaving equals each call running alone",
        "A8 for threads: PLY's LRParser.parse keeps its stacks in locals; what it stores on the shared parser object is never read on luqum's "
        "paths (audited syntactically on the installed source, C14-A); CPython's GIL makes single attribute stores / loads atomic",
        "threading.local gives each thread its own attribute namespace (CPython contract)"]
    pl.trusted_base = c01.TRUSTED + ["ply.yacc / ply.lex (audited syntactically, not verified)", "CPython threading"]
    pl.lemmas = ["C14-O + C14-W + C14-A + L-CONF => each concurrent call behaves as if alone; sequential behaviour is C04 (same tree or same "
                 "error as luqum.parser.parse).  The quantifier over schedules is discharged by the lemma L-CONF over an abstract model, NOT by a verifier with a thread model.",
                 "C14-B (BOUNDED) explores the schedules themselves: all interleavings of two token streams (capped), sampled triples, stress"]
    pl.claim = ("confinement of luqum's own code proved per function (frames, ownership of the lexer); PLY's part audited syntactically; the "
                "schedule quantifier rests on the lemma L-CONF (Lean-checked over an abstract step model) and on a bounded systematic exploration of interleavings - category `other`, not proof.")
    return pl
