"""C08 — visitors reach every node once with true context; the default transformer deep-copies.  DESIGN 3.C08."""
import itertools

import z3

from vfkit import core, frame, model, sym, uniform
from vfkit.check import Plan
from vfkit.sym import EngineUnsupported, S, SymBool, SymInt, ctx

from . import c01, c09, treecases

import luqum.tree as T
import luqum.visitor as V


# ------------------------------------------------------------------------------------------------ C08-D / C08-C
def camel(name):
    """independent statement of the naming rule: CamelCase -> camel_case"""
    out = ""
    for ch in name:
        if ch.isupper():
            out += "_" + ch.lower()
        else:
            out += ch
    return out.lstrip("_")


def dispatch_table():
    """F (exhaustive): for every node class x every subset of handler names along its MRO, the real _get_method
    returns the handler of the most specific class that has one, else generic_visit; on a cache hit too, and
    when instances of other visitor classes are interleaved"""
    fails = []
    checked = 0
    samples = []
    classes = list(model.UNIVERSE)
    # user-defined node classes with names of three and more words (the naming rule is per capital letter)
    IsoDateWord = type("IsoDateWord", (type("DateWord", (T.Word,), {}),), {})
    GeoBoundingBoxRange = type("GeoBoundingBoxRange", (T.Range,), {})
    classes += [IsoDateWord, type("HTTPSUrlWord", (T.Word,), {}), GeoBoundingBoxRange, type("MyVeryLongOrOperation", (T.OrOperation,), {})]
    # node classes with several bases: the handler is looked for along the whole method resolution order
    Annotated, Tagged = type("Annotated", (), {}), type("Tagged", (), {})
    classes += [type("AnnotatedWord", (Annotated, T.Word), {}), type("TaggedWord", (T.Word, Tagged), {}), type("TaggedGroup", (Tagged, Annotated, T.Group), {})]
    for cls, style in itertools.product(classes, ("default names", "prefix and fallback renamed")):
        mro = [c for c in cls.__mro__ if c is not object]
        prefix = "visit_" if style == "default names" else "on_"
        names = [prefix + camel(c.__name__) for c in mro]
        inst = model_witness(cls)
        for r in range(0, len(names) + 1):
            for subset in itertools.combinations(range(len(names)), r):
                ns = {}
                for i in subset:
                    def h(self, node, context, _i=i):
                        yield ("handler", _i)
                    ns[names[i]] = h
                if style != "default names":
                    # the documented class attributes that rename the handlers and the fallback
                    ns["visitor_method_prefix"] = prefix
                    ns["generic_visitor_method_name"] = "fallback"
                    ns["fallback"] = lambda self, node, context: iter([("fallback",)])
                Vis = type("Probe", (V.TreeVisitor,), ns)
                other = type("Other", (V.TreeVisitor,), {names[0]: (lambda self, node, context: iter(()))})
                a, b, o = Vis(), Vis(), other()
                expect = min(subset) if subset else None
                for rnd in range(3):
                    o._get_method(inst)            # interleave another visitor class
                    for v in (a, b):
                        m = v._get_method(inst)
                        checked += 1
                        got = list(m(inst, {}))
                        ok = (got == [("handler", expect)]) if expect is not None else \
                            ((getattr(m, "__func__", None) is V.TreeVisitor.generic_visit and m.__self__ is v) if style == "default names"
                             else (got == [("fallback",)] and getattr(m, "__self__", None) is v))
                        if expect is not None:
                            ok = ok and m.__self__ is v
                        if not ok:
                            fails.append({"id": "%s.%s (%s)" % (cls.__name__, "+".join(names[i] for i in subset) or "none", style),
                                          "class": cls.__name__, "handlers": [names[i] for i in subset], "naming": style,
                                          "expected": names[expect] if expect is not None else ("generic_visit" if style == "default names" else "fallback"),
                                          "round": rnd, "native_confirmed": True})
                if len(samples) < 3 and r == 2:
                    samples.append({"class": cls.__name__, "handlers": [names[i] for i in subset],
                                    "dispatches_to": names[expect]})
        # class-level cache must stay None (per-instance cache)
        if V.TreeVisitor._get_method_cache is not None:
            fails.append({"id": "class-cache", "problem": "TreeVisitor._get_method_cache written at class level",
                          "native_confirmed": True})
    return {"ok": not fails, "checked": checked, "failures": fails[:10], "samples": samples, "exhaustive": True,
            "detail": "node class x subset of MRO handler names x {default names, renamed prefix and fallback} x 2 instances x 3 rounds, interleaved with another visitor class"}


def model_witness(cls):
    """a tiny concrete instance of a node class (for finite checks)"""
    w = T.Word("w")
    n = cls.__name__
    if n not in model.CLASS_BY_NAME:        # a user-defined subclass: built like its nearest luqum base
        base = next(b for b in cls.__mro__ if b.__name__ in model.CLASS_BY_NAME and b.__module__ == "luqum.tree")
        inst = model_witness(base)
        inst.__class__ = cls
        return inst
    if n == "NoneItem":
        return T.NONE_ITEM
    if n in ("Word", "Term"):
        return cls("w")
    if n == "Phrase":
        return T.Phrase('"p"')
    if n == "Regex":
        return T.Regex("/r/")
    if n == "SearchField":
        return T.SearchField("f", w)
    if n in ("Group", "FieldGroup", "BaseGroup", "Plus", "Not", "Prohibit"):
        return cls(w)
    if n == "Range":
        return T.Range(T.Word("a"), T.Word("b"))
    if n == "Fuzzy":
        return T.Fuzzy(w, 2)
    if n == "Proximity":
        return T.Proximity(T.Phrase('"p"'), 2)
    if n == "Boost":
        return T.Boost(w, 2)
    if n in ("From", "To"):
        return cls(w, True)
    if issubclass(cls, T.BaseOperation):
        return cls(T.Word("a"), T.Word("b"))
    raise EngineUnsupported("no witness for %s" % n)


def cache_cases():
    """C08-C: _get_method writes only self._get_method_cache (instance attribute) and cache[T] = lookup(self, T)"""
    def run(cx):
        class Probe(V.TreeVisitor):
            def visit_term(self, node, context):
                yield "term"
        before = frame.snapshot()
        a = Probe()
        w = T.Word("w")
        m1 = a._get_method(w)
        keys = set(a.__dict__)
        m2 = a._get_method(w)
        changed = frame.diff(before, frame.snapshot())
        return [("C08-C/get_method/frame: only the instance cache is written", (not changed, {"written": changed[:8]})),
                ("C08-C/get_method/instance-cache", "_get_method_cache" in a.__dict__ and
                 V.TreeVisitor._get_method_cache is None and Probe.__dict__.get("_get_method_cache") is None),
                ("C08-C/get_method/cache-maps-type-to-looked-up-handler",
                 a._get_method_cache.get(T.Word) == m1 and m1 == m2 and m1.__self__ is a and
                 m1.__func__ is Probe.visit_term),
                ("C08-C/get_method/no-other-instance-attribute", keys <= {"track_parents", "_get_method_cache"})]
    return [core.Case("C08-C/get_method", run, functions=["luqum.visitor.TreeVisitor._get_method"])]


# ------------------------------------------------------------------------------------------------ C08-V
class StubVisit:
    """stands for the visit of a strict sub-term: records the call and yields one opaque value per child
    (for a Run: one pseudo value standing for the values of its members, in order)"""

    def __init__(self, visitor, real):
        self.calls = []
        self.visitor = visitor
        self.real = real

    def __call__(self, node, context):
        if isinstance(node, (model.AbsNode, model.Run)):
            self.calls.append((node, context, dict(context)))
            return iter([("visited", node)])
        return self.real(node, context)


def visitor_cases():
    cases = []
    for la, mk, cls in treecases.instances(layout="none"):
        for kind in ("plain", "parents", "path", "path+parents"):
            def run(cx, la=la, mk=mk, cls=cls, kind=kind):
                x, kids = mk("x")
                track = "parents" in kind
                base = V.PathTrackingVisitor if "path" in kind else V.TreeVisitor
                events = []

                class Probe(base):
                    def generic_visit(self, node, context):
                        events.append((node, context, dict(context)))
                        yield ("self", node)
                        yield from super().generic_visit(node, context)
                v = Probe(track_parents=track)
                stub = StubVisit(v, v.visit_iter)
                v.visit_iter = stub
                anc = (T.Word("root"),)
                ctx0 = {"user": object()}
                if track:
                    ctx0["parents"] = anc
                p0 = (SymInt(name="i0"), 3) if "path" in kind else None
                if p0 is not None:
                    ctx0["path"] = p0
                snap = dict(ctx0)
                fsnap = frame.snapshot()
                out = list(base.visit_iter(v, x, ctx0))
                written = frame.diff(fsnap, frame.snapshot())
                children = list(x.children) if x is not T.NONE_ITEM else []
                key = "C08-V/%s/%s" % (la, kind)
                obls = [(key + "/visit-keeps-no-state: only the handler cache is written on the visitor, nothing on classes or modules",
                         (set(v.__dict__) <= {"track_parents", "_get_method_cache", "visit_iter"} and not written,
                          {"visitor attributes": sorted(v.__dict__), "written": written[:6]})),
                        (key + "/node-event-first-with-callers-context",
                         len(events) == 1 and events[0][0] is x and events[0][1] is ctx0),
                        (key + "/each-child-visited-once-in-order",
                         len(stub.calls) == len(children) and all(c[0] is ch for c, ch in zip(stub.calls, children))),
                        (key + "/yields-in-document-order",
                         out == [("self", x)] + [("visited", ch) for ch in children]),
                        (key + "/callers-context-not-mutated", ctx0 == snap and all(ctx0[k] is snap[k] for k in snap))]
                fresh = all(c[1] is not ctx0 for c in stub.calls) and \
                    len({id(c[1]) for c in stub.calls}) == len(stub.calls)
                obls.append((key + "/child-contexts-are-new-dicts", fresh))
                conj = []
                idx = 0
                ok_static = True
                for (ch, cctx, csnap) in stub.calls:
                    exp_keys = set(snap)
                    if track:
                        got = csnap.get("parents")
                        ok_static = ok_static and isinstance(got, tuple) and len(got) == len(anc) + 1 and \
                            all(a is b for a, b in zip(got, anc + (x,)))
                    if p0 is not None:
                        pth = csnap.get("path")
                        ok_static = ok_static and isinstance(pth, tuple) and len(pth) == 3 and pth[0] is p0[0] and pth[1] == 3
                        if ok_static:
                            conj.append(sym.I(pth[2]) == sym.I(idx))
                    ok_static = ok_static and set(csnap) == exp_keys and csnap["user"] is snap["user"]
                    idx = idx + (ch.count if isinstance(ch, model.Run) else 1)
                obls.append((key + "/child-context-is-parent-context-plus-true-ancestors-and-index",
                             (z3.And([z3.BoolVal(ok_static)] + conj) if conj else ok_static)))
                return obls
            cases.append(core.Case("C08-V/%s/%s" % (la, kind), run,
                                   functions=["luqum.visitor.TreeVisitor.generic_visit", "luqum.visitor.TreeVisitor.visit_iter",
                                              "luqum.visitor.TreeVisitor.child_context",
                                              "luqum.visitor.PathTrackingVisitor.generic_visit",
                                              "luqum.visitor.PathTrackingMixin.child_context"]))

    def run_entry(cx):
        x, _ = model.make_instance(T.Group, "x", layout="none")
        seen = []

        class P(V.PathTrackingVisitor):
            def generic_visit(self, node, context):
                seen.append((node, context.get("path")))
                return iter([node])
        v = P()
        r = v.visit(x)
        r2 = V.TreeVisitor.visit(type("Q", (V.TreeVisitor,), {"generic_visit": lambda s, n, c: iter([n, c])})(), x)
        return [("C08-V/entry/path-tracking-visit-starts-with-empty-path", seen == [(x, ())] and r == [x]),
                ("C08-V/entry/visit-supplies-a-fresh-dict", r2[0] is x and r2[1] == {})]
    cases.append(core.Case("C08-V/entry", run_entry, functions=["luqum.visitor.TreeVisitor.visit",
                                                               "luqum.visitor.PathTrackingMixin.visit"]))
    return cases


# ------------------------------------------------------------------------------------------------ C08-T
class StubTransform:
    """visit of a strict sub-term by a transformer, by its contract Copy(child, result)"""

    def __init__(self, real):
        self.calls = []
        self.results = []
        self.real = real

    def __call__(self, node, context):
        if isinstance(node, (model.AbsNode, model.Run)):
            self.calls.append((node, context, dict(context)))
            r = c09.copy_of(node, "copy%d" % len(self.calls))
            self.results.append(r)
            return iter([r])
        return self.real(node, context)


def layout_same(a, b):
    return all(c09.same(getattr(a, k), getattr(b, k)) for k in ("pos", "size", "head", "tail"))


def transformer_cases():
    cases = []
    for la, mk, cls in treecases.instances(layout="sym"):
        for kind in ("plain", "path", "tracking"):
            def run(cx, la=la, mk=mk, cls=cls, kind=kind):
                x, kids = mk("x")
                if kind == "path":
                    tr = V.PathTrackingTransformer()
                    ctx0 = {"path": (1,)}
                elif kind == "tracking":
                    tr = V.TreeTransformer(track_new_parents=True, track_parents=True)
                    ctx0 = {"parents": (), "new_parents": ()}
                else:
                    tr = V.TreeTransformer()
                    ctx0 = {}
                stub = StubTransform(tr.visit_iter)
                tr.visit_iter = stub
                snap = dict(ctx0)
                before = dict(x.__dict__)
                mark = len(cx.log)
                out = list(type(tr).visit_iter(tr, x, ctx0))
                key = "C08-T/%s/%s" % (la, kind)
                if len(out) != 1 or not isinstance(out[0], T.Item):
                    return [(key + "/one-result", False)]
                y = out[0]
                children = list(x.children) if x is not T.NONE_ITEM else []
                obls = [(key + "/one-result", True),
                        (key + "/same-type", type(y) is type(x)),
                        (key + "/fresh-node", (y is not x) or x is T.NONE_ITEM),
                        (key + "/children-are-the-copies-in-order",
                         len(y.children) == len(stub.results) == len(children) and
                         all(a is b for a, b in zip(y.children, stub.results)) and
                         all(c[0] is ch for c, ch in zip(stub.calls, children))),
                        (key + "/same-layout", layout_same(y, x)),
                        (key + "/equal", c09._truth(y.__eq__(x))),
                        (key + "/same-text", S(model.text(y)) == S(model.text(x))),
                        (key + "/input-untouched",
                         all(x.__dict__.get(k) is v for k, v in before.items()) and len(getattr(x, "__dict__", {})) == len(before)
                         and not [e for e in cx.log[mark:] if e[0] == "write" and any(e[1] is k_ for k_ in kids)]),
                        (key + "/context-not-mutated", ctx0 == snap)]
                if kind == "tracking":
                    def is1(t, o):
                        return isinstance(t, tuple) and len(t) == 1 and t[0] is o
                    obls.append((key + "/new_parents-is-the-copy-chain",
                                 all(is1(c[2].get("new_parents"), y) and is1(c[2].get("parents"), x) for c in stub.calls)))
                return obls
            cases.append(core.Case("C08-T/%s/%s" % (la, kind), run,
                                   functions=["luqum.visitor.TreeTransformer.generic_visit",
                                              "luqum.visitor.TreeTransformer.clone_children",
                                              "luqum.visitor.TreeTransformer._clone_item",
                                              "luqum.visitor.TreeTransformer.child_context",
                                              "luqum.visitor.PathTrackingTransformer.clone_children"]))

    def run_visit(cx):
        x, _ = model.make_instance(T.Word, "x")
        y = V.TreeTransformer().visit(x)

        class Two(V.TreeTransformer):
            def generic_visit(self, node, context):
                yield node
                yield node
        try:
            Two().visit(x)
            two = False
        except ValueError:
            two = True
        return [("C08-T/visit/returns-the-single-copy", type(y) is T.Word and y is not x and y.value is x.value),
                ("C08-T/visit/rejects-several-results", two)]
    cases.append(core.Case("C08-T/visit", run_visit, functions=["luqum.visitor.TreeTransformer.visit"]))
    return cases


LOOPS = [("luqum.visitor.TreeVisitor.generic_visit", 0), ("luqum.visitor.TreeTransformer.clone_children", 0),
         ("luqum.visitor.PathTrackingVisitor.generic_visit", 0), ("luqum.visitor.PathTrackingTransformer.clone_children", 0)]


def replay_builder(rec):
    """a real tree from the counter-model; the top-level statement (pre-order trace with true ancestors and index
    paths for both visitor kinds; deep copy equal / same text / same positions / nothing shared / input unchanged
    for the three transformer kinds) is evaluated natively"""
    from vfkit import witness
    name = rec["obligation"]
    m = rec.get("model") or {}
    parts = name.split("/")
    if len(parts) < 3 or parts[1] in ("visit", "entry", "get_method"):
        la = "AndOperation.ops2"
    else:
        la = parts[1]
    x_src = witness.instance_code(la, "x", m)
    code = witness.PRELUDE + "from luqum.visitor import *\nx = T.Group(T.OrOperation(%s, T.Word('z')))\n" % x_src + \
        "problems = []\n" \
        "def expect(n, parents, path):\n    yield (n, parents, path)\n    for i, c in enumerate(n.children):\n        yield from expect(c, parents + (n,), path + (i,))\n" \
        "exp = list(expect(x, (), ()))\n" \
        "for base, tp in ((TreeVisitor, False), (TreeVisitor, True), (PathTrackingVisitor, False), (PathTrackingVisitor, True)):\n" \
        "    seen = []\n" \
        "    class P(base):\n" \
        "        def generic_visit(self, node, context):\n" \
        "            seen.append((node, context.get('parents'), context.get('path')))\n" \
        "            yield from super().generic_visit(node, context)\n" \
        "    for rnd in range(2):\n" \
        "        del seen[:]\n" \
        "        P(track_parents=tp).visit(x)\n" \
        "        ok = len(seen) == len(exp) and all(a[0] is b[0] for a, b in zip(seen, exp))\n" \
        "        if tp:\n            ok = ok and all(a[1] is not None and len(a[1]) == len(b[1]) and all(p is q for p, q in zip(a[1], b[1])) for a, b in zip(seen, exp))\n" \
        "        if base is PathTrackingVisitor:\n            ok = ok and all(a[2] == b[2] for a, b in zip(seen, exp))\n" \
        "        if not ok:\n            problems.append('%s(track_parents=%s): visited %r' % (base.__name__, tp, [(type(a[0]).__name__, a[2]) for a in seen][:8]))\n" \
        "fx, lx, tx = fingerprint(x), layout(x), x.__str__(head_tail=True)\nids = {id(n) for n in nodes(x) if n is not T.NONE_ITEM}\n" \
        "for mk in (lambda: TreeTransformer(), lambda: PathTrackingTransformer(), lambda: TreeTransformer(track_new_parents=True, track_parents=True)):\n" \
        "    y = mk().visit(x)\n" \
        "    shared = [n for n in nodes(y) if id(n) in ids]\n" \
        "    if not (y == x and fingerprint(y) == fx and layout(y) == lx and y.__str__(head_tail=True) == tx and not shared and fingerprint(x) == fx and layout(x) == lx and x.__str__(head_tail=True) == tx):\n" \
        "        problems.append('%s: x=%r printed %r; copy printed %r equal=%s shared=%d' % (type(mk()).__name__, x, tx, y.__str__(head_tail=True), y == x, len(shared)))\n" \
        "violated = bool(problems)\nobservation = '; '.join(problems[:3]) or 'trace and copy as specified'\n"
    return [{"kind": "script", "code": code}]


def canary():
    def run(cx):
        x, _ = model.make_instance(T.Group, "x")
        tr = V.TreeTransformer()
        stub = StubTransform(tr.visit_iter)
        tr.visit_iter = stub
        y, = V.TreeTransformer.visit_iter(tr, x, {})
        return [("canary/copy-has-empty-head", S(y.head) == "")]
    return core.Case("canary/copy", run, canary=True)


def plan(tier, seed):
    pl = Plan("C08", "proof")
    pl.cases = cache_cases() + visitor_cases() + transformer_cases()
    pl.canaries = [canary()]
    pl.finite = [("C08-D/dispatch-table", dispatch_table), ("C08-U/uniform-loops", lambda: uniform.check(LOOPS))]
    from vfkit import lean as _leanc
    pl.finite.append(("A6/Lean re-check of the composition lemmas L-IND", _leanc.compose_check('L-IND')))
    from vfkit import lean as _lean
    pl.finite.append(("A5/Lean re-check of the lifting lemmas for operand runs", _lean.lemma_check))
    ntok = 4 if tier == "quick" else 6

    def net():
        from vfkit import bounded as _b
        return _b.run_native("c08_visitors", {"max_tokens": ntok, "known": _b.known_for("C08", "C08-B")})
    pl.bounded = [("C08-B/visit traces, dispatch with alternating visitor classes and default copies on whole trees (safety net)", net)]
    pl.functions = ["luqum.visitor.TreeVisitor._get_method", "luqum.visitor.TreeVisitor.visit",
                    "luqum.visitor.TreeVisitor.visit_iter", "luqum.visitor.TreeVisitor.child_context",
                    "luqum.visitor.TreeVisitor.generic_visit", "luqum.visitor.TreeTransformer._clone_item",
                    "luqum.visitor.TreeTransformer.visit", "luqum.visitor.TreeTransformer.child_context",
                    "luqum.visitor.TreeTransformer.generic_visit", "luqum.visitor.TreeTransformer.clone_children",
                    "luqum.visitor.PathTrackingMixin.child_context", "luqum.visitor.PathTrackingMixin.visit",
                    "luqum.visitor.PathTrackingVisitor.generic_visit", "luqum.visitor.PathTrackingTransformer.clone_children",
                    "luqum.visitor.camel_to_lower", "luqum.tree.Item.clone_item", "luqum.tree.Item._clone_item"]
    pl.min_obligations = len(model.UNIVERSE) * 8
    pl.replay_builder = replay_builder
    pl.assumptions = c01.ASSUMPTIONS
    pl.trusted_base = c01.TRUSTED
    pl.lemmas = ["L-IND (Lean: lemmas/Compose.lean fold_ind; model link assumed): evts(node, ctx) = [(node, ctx)] ++ concat_j evts(c_j, ctx_j) per class with the child "
                 "visit stubbed by the same contract gives pre-order, each node exactly once, true ancestor chain and "
                 "index path on all finite trees; Copy(x, y) likewise for the default transformer",
                 "uniform loops (F, syntactic): the traversal loops carry no local state between iterations, so a "
                 "non-empty run of operands may be processed as one pseudo-element (L-M, L-S)",
                 "dispatch (F, exhaustive): which handler observes an event is the most specific one"]
    pl.claim = ("dispatch decided exhaustively on the finite class x handler-subset table; traversal trace, child "
                "contexts and the Copy relation proved per class for all attribute values and operand counts.")
    return pl
