"""C13 — auto_head_tail.  DESIGN 3.C13: structural contract Aht proved per class (C13-A); the parse-back clause needs
the parser on a constructed string and is a BOUNDED stand-in (L-PP)."""
import z3

from vfkit import bounded, core, model, rewrite, sym, uniform
from vfkit.check import Plan
from vfkit.sym import EngineUnsupported, S, SymStr, ctx

from . import c01, c08, c09, treecases

import luqum.tree as T
import luqum.auto_head_tail as A

LOOPS = [("luqum.auto_head_tail.AutoHeadTail.visit_base_operation", 0),
         ("luqum.auto_head_tail.AutoHeadTail.visit_unknown_operation", 0),
         ("luqum.visitor.TreeTransformer.clone_children", 0)]
UNIFORM_KEYS = ["luqum.auto_head_tail.AutoHeadTail.visit_base_operation#0",
                "luqum.auto_head_tail.AutoHeadTail.visit_unknown_operation#0"]


class StubAht:
    """visit of a strict sub-term by its contract Aht(child, r): fresh node, same fingerprint, same own layout
    (a node's own head/tail are only ever completed by its parent), inner text unknown"""

    def __init__(self, real):
        self.calls = []
        self.results = []
        self.real = real

    def __call__(self, node, context):
        if isinstance(node, model.Run):
            self.calls.append(node)
            r = model.Run("res%d" % len(self.calls), node.op)
            cx = ctx()
            cx.assume(r.fpseq == node.fpseq)
            cx.assume(r.count.t == node.count.t)
            self.results.append(r)
            return iter([r])
        if isinstance(node, model.AbsNode):
            self.calls.append(node)
            r = model.AbsNode("res%d" % len(self.calls), layout="none")
            d = r.__dict__
            for k in ("head", "tail", "pos", "size"):
                d[k] = node.__dict__[k]
            d["fp"] = node.fp
            self.results.append(r)
            return iter([r])
        return self.real(node, context)


def junctions(cls, n):
    """spec (from the statement): which (child index, attribute) need a separator.  n = number of children;
    index -1 stands for 'every member of the middle run'."""
    if cls in (T.AndOperation, T.OrOperation, T.BoolOperation):
        out = set()
        for j in range(n):
            if j > 0:
                out.add((j, "head"))
            if j < n - 1:
                out.add((j, "tail"))
        return out
    if cls is T.UnknownOperation:
        return {(j, "tail") for j in range(n - 1)}
    if cls is T.Not:
        return {(0, "head")}
    if cls is T.Range:
        return {(0, "tail"), (1, "head")}
    return set()


def completed(old):
    return z3.If(S(old) == "", z3.StringVal(" "), S(old))


def aht_cases():
    cases = []
    shapes = (2, "mid")
    for cls in model.UNIVERSE:
        variants = treecases.variants(cls, ops_shapes=(2,))
        if issubclass(cls, T.BaseOperation):
            variants = [{"nops": 2}, {"nops": "mid"}]
        for var in variants:
            la = treecases.label(cls, var) if var.get("nops") != "mid" else cls.__name__ + ".x0+run+x1"

            def run(cx, cls=cls, var=var, la=la):
                if var.get("nops") == "mid":
                    x, kids = model.make_instance(cls, "x", layout="sym", nops=2)
                    run_ = model.Run("x_run", cls.op)
                    x.operands = model.RunTuple((x.operands[0], run_, x.operands[1]))
                    kids = [x.operands[0], run_, x.operands[1]]
                else:
                    x, kids = model.make_instance(cls, "x", layout="sym", **var)
                tr = A.AutoHeadTail()
                stub = StubAht(tr.visit_iter)
                tr.visit_iter = stub
                before = dict(x.__dict__)
                mark = len(cx.log)
                ctx0 = {}
                out = list(A.AutoHeadTail.visit_iter(tr, x, ctx0))
                key = "C13-A/%s" % la
                if len(out) != 1 or not isinstance(out[0], T.Item):
                    return [(key + "/one-result", False)]
                y = out[0]
                children = list(x.children)
                results = list(stub.results)
                obls = [(key + "/same-type-fresh-node", type(y) is type(x) and (y is not x or x is T.NONE_ITEM)),
                        (key + "/own-layout-unchanged", c08.layout_same(y, x)),
                        (key + "/children-are-the-results-in-order",
                         len(y.children) == len(results) == len(children) and all(a is b for a, b in zip(y.children, results))),
                        (key + "/input-untouched",
                         all(x.__dict__.get(k) is v for k, v in before.items()) and len(x.__dict__) == len(before)
                         and not [e for e in cx.log[mark:] if e[0] == "write" and any(e[1] is k_ for k_ in kids)]),
                        (key + "/context-not-mutated", ctx0 == {})]
                if len(y.children) == len(results):
                    obls.append((key + "/equal-to-the-input", model.fp_of(y) == model.fp_of(x)))
                J = junctions(cls, len(children))
                conj = []
                ok = True
                nonempty = []
                for j, (ch, r) in enumerate(zip(children, results)):
                    if isinstance(r, model.Run):
                        g = r.__dict__.get("generic")
                        pre = r.__dict__.get("generic_pre")
                        for attr in ("head", "tail"):
                            if (j, attr) in J:
                                if g is None:
                                    ok = False
                                else:
                                    conj.append(S(getattr(g, attr)) == completed(pre[attr]))
                                    nonempty.append(S(getattr(g, attr)) != "")
                            elif g is not None:
                                ok = ok and g.__dict__[attr] is pre[attr]
                        if g is not None:
                            ok = ok and g.__dict__["pos"] is pre["pos"] and g.__dict__["size"] is pre["size"]
                        continue
                    for attr in ("head", "tail"):
                        if (j, attr) in J:
                            conj.append(S(getattr(r, attr)) == completed(getattr(ch, attr)))
                            nonempty.append(S(getattr(r, attr)) != "")
                        else:
                            ok = ok and c09.same(getattr(r, attr), getattr(ch, attr))
                    ok = ok and c09.same(r.pos, ch.pos) and c09.same(r.size, ch.size)
                obls.append((key + "/only-empty-heads-and-tails-at-separator-positions-become-one-space",
                             z3.And([z3.BoolVal(ok)] + conj) if conj else ok))
                obls.append((key + "/idempotent: separator positions are non-empty afterwards",
                             z3.And(nonempty) if nonempty else True))
                return obls
            cases.append(core.Case("C13-A/" + la, run,
                                   functions=["luqum.auto_head_tail.AutoHeadTail.visit_base_operation",
                                              "luqum.auto_head_tail.AutoHeadTail.visit_unknown_operation",
                                              "luqum.auto_head_tail.AutoHeadTail.visit_not",
                                              "luqum.auto_head_tail.AutoHeadTail.visit_range",
                                              "luqum.auto_head_tail.AutoHeadTail.add_head",
                                              "luqum.auto_head_tail.AutoHeadTail.add_tail"]))

    def run_call(cx):
        w = T.Word(SymStr(name="v"))
        y = A.auto_head_tail(w)
        return [("C13-A/call/returns-the-transformed-copy", type(y) is T.Word and y is not w and y.value is w.value),
                ("C13-A/call/singleton-is-an-AutoHeadTail-with-spacer-one-blank",
                 isinstance(A.auto_head_tail, A.AutoHeadTail) and A.AutoHeadTail.SPACER == " ")]
    cases.append(core.Case("C13-A/call", run_call, functions=["luqum.auto_head_tail.AutoHeadTail.__call__"]))
    return cases


def replay_builder(rec):
    from vfkit import witness
    name = rec["obligation"]
    m = rec.get("model") or {}
    parts = name.split("/")
    la = parts[1] if len(parts) >= 3 and parts[1] != "call" else "AndOperation.ops2"
    la = la.replace(".x0+run+x1", ".ops2+run")
    reqs = []
    for layout_kind in ("sym", "none"):
        code = witness.PRELUDE + "from luqum.auto_head_tail import auto_head_tail\nfrom luqum.parser import parser\n" \
            "x = T.Group(%s)\n" % witness.instance_code(la, "x", m, layout=layout_kind) + \
            "free = %r\n" % (layout_kind == "none") + \
            "problems = []\n" \
            "f0, l0 = fingerprint(x), layout(x)\n" \
            "y = auto_head_tail(x)\n" \
            "if not (y == x) or fingerprint(y) != f0: problems.append('result %r not equal to input %r' % (y, x))\n" \
            "if fingerprint(x) != f0 or layout(x) != l0: problems.append('input modified')\n" \
            "for a, b in zip(nodes(x), nodes(y)):\n" \
            "    for attr in ('head', 'tail'):\n" \
            "        va, vb = getattr(a, attr), getattr(b, attr)\n" \
            "        if va != '' and vb != va: problems.append('non-empty %s %r altered to %r' % (attr, va, vb))\n" \
            "        if va == '' and vb not in ('', ' '): problems.append('%s became %r' % (attr, vb))\n" \
            "z = auto_head_tail(y)\n" \
            "if layout(z) != layout(y) or z != y: problems.append('not idempotent: %r then %r' % (y.__str__(head_tail=True), z.__str__(head_tail=True)))\n" \
            "if free:\n" \
            "    s = y.__str__(head_tail=True)\n" \
            "    try:\n" \
            "        back = parser.parse(s)\n" \
            "        ok_shape = parser.parse(str(back)) == back\n" \
            "        if not (back == x): problems.append('printed %r parses to %r, not to %r' % (s, back, x))\n" \
            "    except Exception as e:\n        problems.append('printed %r not accepted: %s' % (s, e))\n" \
            "violated = bool(problems)\nobservation = '; '.join(problems[:3]) or 'as specified'\n"
        reqs.append({"kind": "script", "code": code})
    return reqs


def canary():
    def run(cx):
        x, _ = model.make_instance(T.Not, "x")
        tr = A.AutoHeadTail()
        stub = StubAht(tr.visit_iter)
        tr.visit_iter = stub
        y, = A.AutoHeadTail.visit_iter(tr, x, {})
        return [("canary/head-after-NOT-unchanged", S(y.a.head) == S(x.a.head))]
    return core.Case("canary/aht", run, canary=True)


def plan(tier, seed):
    for k in UNIFORM_KEYS:
        rewrite.UNIFORM_LOOPS.add(k)
    pl = Plan("C13", "exploration")
    pl.cases = aht_cases()
    pl.canaries = [canary()]
    pl.finite = [("C13-U/uniform-loops", lambda: uniform.check(LOOPS))]
    from vfkit import lean as _leanc
    pl.finite.append(("A6/Lean re-check of the composition lemmas L-IND", _leanc.compose_check('L-IND')))
    from vfkit import lean as _lean
    pl.finite.append(("A5/Lean re-check of the lifting lemmas for operand runs", _lean.lemma_check))
    n = 5 if tier == "quick" else 7

    def roundtrip():
        return bounded.run_native("c13_roundtrip", {"max_tokens": n, "seed": seed,
                                                   "known": bounded.known_for("C13", "C13-B")})
    pl.bounded = [("C13-B/print-parses-back-to-an-equal-tree (L-PP)", roundtrip)]
    pl.functions = ["luqum.auto_head_tail.AutoHeadTail." + f for f in
                    ("add_head", "add_tail", "visit_base_operation", "visit_unknown_operation", "visit_not",
                     "visit_range", "__call__")] + ["luqum.visitor.TreeTransformer.generic_visit",
                                                   "luqum.visitor.TreeTransformer.clone_children"]
    pl.min_obligations = len(model.UNIVERSE) * 5
    pl.replay_builder = replay_builder
    pl.assumptions = c01.ASSUMPTIONS
    pl.trusted_base = c01.TRUSTED
    pl.lemmas = ["L-IND (Lean: lemmas/Compose.lean fold_ind; model link assumed): Aht(x, y) per class => for every tree: equal to the input, input untouched, only empty "
                 "heads/tails at separator positions become one blank, non-empty ones are identical, idempotent",
                 "L-PP (BOUNDED, not proved): for layout-free grammar-shaped trees the printed form of the result is "
                 "accepted and parses back to an equal tree -- needs the LR automaton on a constructed string"]
    pl.claim = ("structural clauses (equal, untouched, single blanks only where empty and needed, never alters a "
                "non-empty head/tail, idempotent) are PROVED per class; 'its printed form parses back to an equal tree' "
                "is decided by the bounded stand-in, hence level exploration.")
    return pl
