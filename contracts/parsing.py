"""Shared arrangement for the parser-side contracts (C01, C02, C03, C04): symbolic right-hand sides of the
grammar productions, enumerated from the live `parser.productions`, and the per-production obligations.

Notation (DESIGN 3): text(x) = x.__str__(head_tail=True); for a token value k with matched text m:
text(k) = k.head + m + k.tail; start(x) = x.pos - |x.head|; end(x) = x.pos + x.size + |x.tail|.
"""
import z3

from vfkit import core, ext, model, sym
from vfkit.sym import EngineUnsupported, SymBool, SymInt, SymStr, S, I, ctx

import luqum.parser as P
import luqum.tree as T
import luqum.head_tail as HT
import luqum.exceptions as X
from ply.yacc import YaccProduction, YaccSymbol

from vfkit import relang as RL
WS_STAR = RL.to_z3(RL.star(ext.class_rx("space")))
WS_PLUS = RL.to_z3(RL.plus(ext.class_rx("space")))
NUMERAL = ext.NUMERAL

# typing invariant of the value stack: classes(N) for every non-terminal (checked per production: C01-G typing)
_UNARY = ["Plus", "Prohibit", "Not", "Group", "Range", "To", "From", "SearchField", "Phrase", "Proximity",
          "Boost", "Word", "Fuzzy", "Regex"]
TYPING = {
    "unary_expression": _UNARY,
    "expression": _UNARY + ["OrOperation", "AndOperation", "UnknownOperation"],
    "phrase_or_term": ["Word", "Phrase"],
    "possibly_negative_term": ["Word", "Phrase", "Prohibit"],
    "phrase_or_possibly_negative_term": ["Word", "Phrase", "Prohibit"],
}
OPS = ["OrOperation", "AndOperation", "UnknownOperation", "BoolOperation"]


def productions():
    """[(index, lhs, [rhs symbols], funcname, callable)] from the live parser (S' excluded)"""
    out = []
    for i, pr in enumerate(P.parser.productions):
        if pr.func is None:
            continue
        lhs, rhs = pr.str.split("->")
        rhs = rhs.split()
        if rhs == ["<empty>"]:
            rhs = []
        out.append((i, lhs.strip(), rhs, pr.func, pr.callable))
    return out


def token_types():
    return list(P.tokens)


def finite_language(rx, limit=8):
    """members of a finite regular language, by repeated solving (used for punctuation token rules)"""
    s = z3.Solver()
    x = z3.String("x")
    s.add(z3.InRe(x, rx))
    out = []
    while len(out) <= limit:
        if s.check() != z3.sat:
            return sorted(out)
        v = s.model().eval(x, model_completion=True).as_string()
        out.append(v)
        s.add(x != z3.StringVal(v))
    raise EngineUnsupported("token language not finite/small")


_TOKEN_ALTS = {}


def token_alternatives(ttype):
    """concrete matched texts of a punctuation / reserved-word token type, read off the live lexer"""
    if ttype in _TOKEN_ALTS:
        return _TOKEN_ALTS[ttype]
    rev = [k for k, v in P.reserved.items() if v == ttype]
    if rev:
        alts = sorted(rev)
    else:
        fn = getattr(P, "t_" + ttype, None)
        if fn is None:
            raise EngineUnsupported("no lexer rule for token %s" % ttype)
        rx = getattr(fn, "regex", None) or fn.__doc__
        alts = finite_language(ext.full_language(rx, 0))
    _TOKEN_ALTS[ttype] = alts
    return alts


class Val:
    """an arranged right-hand-side value"""

    def __init__(self, kind, name, v, matched=None):
        self.kind = kind          # token type or non-terminal name
        self.name = name
        self.v = v
        self.matched = matched    # matched text for tokens
        self.pre = {}             # snapshot of layout before the call
        self.children = []        # arranged operands for concrete operations (AbsNode / Run)
        self.extra = {}

    def snapshot(self):
        v = self.v
        self.pre = {"head": v.head, "tail": v.tail, "pos": v.pos, "size": v.size}
        if self.matched is not None:
            self.pre_text = v.head + self.matched + v.tail
        else:
            self.pre_text = model.text(v)
        self.pre_dict = dict(v.__dict__)
        for c in self.children:
            if isinstance(c, model.AbsNode):
                c.__dict__["vf_pre"] = {"head": c.head, "tail": c.tail, "pos": c.pos, "size": c.size}

    def start(self):
        return I(self.pre["pos"]) - z3.Length(S(self.pre["head"]))

    def end(self):
        return I(self.pre["pos"]) + I(self.pre["size"]) + z3.Length(S(self.pre["tail"]))


def _layout(v, name, first, pos=True):
    c = ctx()
    if first:
        v.head = SymStr(name=name + "_head")
        c.assume_late(z3.InRe(v.head.t, WS_STAR))
    else:
        v.head = ""
    v.tail = SymStr(name=name + "_tail")
    c.assume_late(z3.InRe(v.tail.t, WS_STAR))
    v.pos = SymInt(name=name + "_pos")


def arrange_token(ttype, name, first, alt=None):
    """value of a token as the lexer leaves it (post-condition of C01-L / C02-L): layout in \\s*, head only
    on the first token of the input, pos = lexpos, size = |matched text|"""
    c = ctx()
    if ttype == "TERM":
        m = SymStr(name=name + "_m")
        c.assume(z3.Length(m.t) >= 1)
        v = T.Word(m)
        matched = m
    elif ttype in ("PHRASE", "REGEX"):
        q = '"' if ttype == "PHRASE" else "/"
        inner = SymStr(name=name + "_inner")
        m = q + inner + q
        v = (T.Phrase if ttype == "PHRASE" else T.Regex)(m)
        matched = m
    elif ttype in ("APPROX", "BOOST"):
        lit = "~" if ttype == "APPROX" else "^"
        has = z3.Bool(sym.fresh(name + "_hasnum"))
        c.register(name + "_hasnum", has)
        if c.decide(has):
            n = SymStr(name=name + "_num")
            c.assume(z3.Length(n.t) >= 1)
            c.assume(z3.InRe(n.t, NUMERAL))
            v = HT.TokenValue(n)
            matched = lit + n
        else:
            v = HT.TokenValue(None)
            matched = lit
    else:
        alts = token_alternatives(ttype)
        if alt is None:
            # exhaustive fork over the finite language of the rule
            k = z3.Int(sym.fresh(name + "_alt"))
            c.register(name + "_alt", k)
            c.assume(z3.And(k >= 0, k < len(alts)))
            alt = c.choose([(k == i, i) for i in range(len(alts))])
        matched = alts[alt]
        v = HT.TokenValue(matched)
    _layout(v, name, first)
    v.size = sym.SymInt(z3.Length(S(matched))) if isinstance(matched, SymStr) else len(matched)
    val = Val(ttype, name, v, matched)
    return val


def _abs(name, classes, cx, first=True):
    a = model.AbsNode(name, layout="sym", classes=classes, head=None if first else "")
    if first:
        cx.assume_late(z3.InRe(a.head.t, WS_STAR))
    cx.assume_late(z3.InRe(a.tail.t, WS_STAR))
    # stack-symbol invariant Inv: an operation on the value stack has empty head and tail
    cx.assume(z3.Implies(model.is_class(a.fp, OPS), z3.And(S(a.head) == "", a.tail.t == "")))
    return a


def node_inv(a):
    """NodeInv of an abstract node: size = |body|"""
    return I(a.size) == z3.Length(a.core.t)


def arrange_nonterminal(nt, name, shape="abs", first=True):
    """shape: 'abs' (any class of classes(nt)) | ('abs-not', cls) | ('conc', cls) | ('op', cls, 2|3).
    first=False (RHS position >= 2): stack invariant Inv' -- the value does not contain the first token of
    the input, so its head, and the head of its leftmost operand if it is an operation, are empty."""
    c = ctx()
    if nt not in TYPING:
        raise EngineUnsupported("no typing entry for non-terminal %s" % nt)
    if shape == "abs" or shape[0] == "abs-not":
        classes = list(TYPING[nt])
        if shape != "abs":
            classes = [k for k in classes if k != shape[1].__name__]
        a = _abs(name, classes, c, first)
        val = Val(nt, name, a)
        val.extra["geo_hyp"] = [node_inv(a)]
        return val
    if shape[0] == "conc":
        nops = shape[2] if len(shape) > 2 else 2
        inst, kids = model.make_instance(shape[1], name, layout="sym", child_classes=TYPING["expression"], nops=nops)
        if issubclass(shape[1], T.BaseOperation):
            inst.head = ""           # Inv: an operation on the value stack has empty head and tail
            inst.tail = ""
            if not first and kids and isinstance(kids[0], model.AbsNode):
                kids[0].head = ""
        elif not first:
            inst.head = ""
        else:
            c.assume_late(z3.InRe(inst.head.t, WS_STAR))
        if isinstance(inst.tail, SymStr):
            c.assume_late(z3.InRe(inst.tail.t, WS_STAR))
        for k_ in kids:
            if isinstance(k_, model.AbsNode):
                if isinstance(k_.head, SymStr):
                    c.assume_late(z3.InRe(k_.head.t, WS_STAR))
                c.assume_late(z3.InRe(k_.tail.t, WS_STAR))
                c.assume(z3.Implies(model.is_class(k_.fp, OPS), z3.And(S(k_.head) == "", k_.tail.t == "")))
        val = Val(nt, name, inst)
        val.children = kids
        hyp = [node_inv(k_) for k_ in kids if isinstance(k_, model.AbsNode)]
        hyp.append(I(inst.size) == z3.Length(S(model.body(inst))))
        prev = I(inst.pos)
        for k_ in kids:
            if isinstance(k_, model.Run):
                k_.__dict__["start"] = SymInt(name=name + "_run_start")
                k_.__dict__["end"] = SymInt(name=name + "_run_end")
                hyp.append(prev <= k_.start.t)
                hyp.append(k_.start.t <= k_.end.t)
                prev = k_.end.t
                continue
            hyp.append(prev <= I(k_.pos) - z3.Length(S(k_.head)))
            prev = I(k_.pos) + I(k_.size) + z3.Length(k_.tail.t)
        hyp.append(prev <= I(inst.pos) + I(inst.size))
        val.extra["geo_hyp"] = hyp
        return val
    _, cls, k = shape
    opers = [_abs(name + "_x0", TYPING["expression"], c, first), _abs(name + "_x1", TYPING["expression"], c)]
    run = None
    if k == 3:
        run = model.Run(name + "_run", cls.op)
        run.__dict__["start"] = SymInt(name=name + "_run_start")
        run.__dict__["end"] = SymInt(name=name + "_run_end")
        opers.append(run)
    node = cls(*opers, pos=SymInt(name=name + "_pos"), size=SymInt(name=name + "_size"), head="", tail="")
    if run is not None:
        node.operands = model.RunTuple(node.operands)
    val = Val(nt, name, node)
    val.children = opers
    hyp = [node_inv(o) for o in opers[:2]]
    # NodeInv of the operation itself: size = |body|, children inside, ordered
    hyp.append(I(node.size) == z3.Length(S(model.body(node))))
    x0, x1 = opers[0], opers[1]
    hyp.append(I(node.pos) <= I(x0.pos) - z3.Length(S(x0.head)))
    hyp.append(I(x0.pos) + I(x0.size) + z3.Length(x0.tail.t) <= I(x1.pos) - z3.Length(x1.head.t))
    last_end = I(x1.pos) + I(x1.size) + z3.Length(x1.tail.t)
    if run is not None:
        hyp.append(last_end <= run.start.t)
        hyp.append(run.start.t <= run.end.t)
        last_end = run.end.t
    hyp.append(last_end <= I(node.pos) + I(node.size))
    val.extra["geo_hyp"] = hyp
    return val


def mkp(values):
    syms = []
    for v in [None] + values:
        s = YaccSymbol()
        s.type = "x"
        s.value = v
        syms.append(s)
    return YaccProduction(syms)


def shapes_for(lhs, rhs, func, reachable_only=False):
    """operand shapes of the non-terminals of a production.  For the binary rules: each operand in
    {not the rule's class, the rule's class with 2 operands, with (x0, x1, RUN+)}: 9 cases.
    reachable_only (C02): for the rules with an operator token the right operand is never of the rule's own
    class (left associativity, F-obligation `left_assoc_table`), which the size computation relies on."""
    nts = [i for i, s in enumerate(rhs) if s not in P.tokens]
    cls = {"p_expression_or": T.OrOperation, "p_expression_and": T.AndOperation,
           "p_expression_implicit": T.UnknownOperation}.get(func)
    if cls is not None and len(nts) == 2:
        per = [("abs-not", cls), ("op", cls, 2), ("op", cls, 3)]
        perb = per[:1] if (reachable_only and len(rhs) == 3) else per
        return [{nts[0]: a, nts[1]: b} for a in per for b in perb]
    if func == "p_field_search" and len(nts) == 1 and not hasattr(P, "_field_expression"):
        # the action inspects the class of p[3] and reads Group.expr: split Group / not Group
        return [{nts[0]: ("abs-not", T.Group)}, {nts[0]: ("conc", T.Group)}]
    return [{i: "abs" for i in nts}]


def unfolded_shapes(rhs, shape):
    """fallback family of a shape: every abstract non-terminal unfolded one level, per class of its typing set
    (operations with 2 operands and with 2 + a run)"""
    import itertools
    per = []
    keys = []
    for i, s_ in enumerate(rhs):
        if s_ in P.tokens:
            continue
        sh = shape.get(i, "abs")
        if sh == "abs" or sh[0] == "abs-not":
            names = [k for k in TYPING[s_] if sh == "abs" or k != sh[1].__name__]
            opts = []
            for k in names:
                cls = model.CLASS_BY_NAME[k]
                if issubclass(cls, T.BaseOperation):
                    opts += [("conc", cls, 2), ("conc", cls, 3)]
                else:
                    opts.append(("conc", cls))
            per.append(opts)
        else:
            per.append([sh])
        keys.append(i)
    return [dict(zip(keys, combo)) for combo in itertools.product(*per)]


def shape_label(sh):
    def one(s):
        if s == "abs":
            return "abs"
        if s[0] == "abs-not":
            return "other"
        if s[0] == "conc":
            return s[1].__name__ + ("" if len(s) < 3 else str(s[2]))
        return "%s%d" % (s[1].__name__[:3].lower(), s[2])
    return ",".join(one(sh[k]) for k in sorted(sh)) or "-"


def children_of(node):
    """children of the result node with (start, end) terms, runs included"""
    out = []
    for ch in node.children:
        if isinstance(ch, model.Run):
            out.append((ch.start.t, ch.end.t))
        else:
            out.append((I(ch.pos) - z3.Length(S(ch.head)), I(ch.pos) + I(ch.size) + z3.Length(S(ch.tail))))
    return out


fgconv = z3.Function("field_expression_fp", model.FP, model.FP)


class FieldExprStub:
    """contract of luqum.parser._field_expression on an abstract sub-term (proved per class by
    field_expression_cases): the result prints like the argument and has its layout; a Group becomes a FieldGroup,
    a Boost stays a Boost (its boosted expression converted), anything else is returned unchanged"""

    def __init__(self, real):
        self.real = real

    def __call__(self, e):
        if not isinstance(e, model.AbsNode):
            return self.real(e)
        cx = ctx()
        r = model.AbsNode(e.vf_name + "_fe", layout="none")
        d = r.__dict__
        for k in ("head", "tail", "pos", "size", "core"):
            d[k] = e.__dict__[k]
        cx.assume(r.fp == fgconv(e.fp))
        cx.assume(z3.Implies(model.is_class(e.fp, ["Group"]), model.is_class(r.fp, ["FieldGroup"])))
        cx.assume(z3.Implies(model.is_class(e.fp, ["Boost"]), model.is_class(r.fp, ["Boost"])))
        cx.assume(z3.Implies(z3.Not(model.is_class(e.fp, ["Group", "Boost"])), r.fp == e.fp))
        return r


def field_expression_cases(want):
    """contract of the helper _field_expression on the real function: per class of the argument, and for chains of 1..3 boosts over a
    group / over anything else (the helper walks down the chain in a loop; longer chains by the uniformity of that loop)"""
    if not hasattr(P, "_field_expression"):
        return []
    cases = []
    from . import treecases

    def obligations(key, x, r, before_text, before_layout, chain, base, base_is_group, want):
        obls = []
        if "C01" in want:
            obls.append(("C01-G/%s/text-preserved" % key, S(model.text(r)) == S(before_text)))
        if "C02" in want:
            obls.append(("C02-G/%s/position-and-layout-preserved" % key,
                         all(a is b_ for a, b_ in zip((r.pos, r.size, r.head, r.tail), before_layout))))
        if "C03" in want or "C01" in want:
            if not chain:
                if base_is_group:
                    ok = type(r) is T.FieldGroup and r.expr is base.expr
                else:
                    # anything else - prefixes included - is returned as it is: parentheses below it do not directly follow `field:`
                    ok = r is x and len(list(r.children)) == len(base_kids[0]) and all(a is b_ for a, b_ in zip(r.children, base_kids[0]))
            else:
                ok = True
                node = r
                for bst, snap in zip(chain, chain_snap[0]):      # the boosts are kept (or rebuilt alike): force, implicit force, layout
                    ok = ok and type(node) is T.Boost and (node.force, node.implicit_force) == snap[:2] and \
                        all(a is b_ for a, b_ in zip((node.pos, node.size, node.head, node.tail), snap[2:]))
                    if not ok:
                        break
                    node = node.expr
                if base_is_group:
                    ok = ok and type(node) is T.FieldGroup and node.expr is base.expr
                else:
                    ok = ok and node is base
            obls.append(("C03-S/%s/group-becomes-field-group-boosts-kept-others-unchanged" % key, ok))
        if "C04" in want:
            obls.append(("C04-X/%s/returns-item" % key, isinstance(r, T.Item)))
        return obls
    base_kids = [None]
    chain_snap = [None]
    for la, mk, cls in treecases.instances(layout="sym", ops_shapes=(2,)):
        if ".parsed" in la or cls is T.NoneItem or cls is T.Boost:
            continue

        def run(cx, la=la, mk=mk, cls=cls):
            x, kids = mk("x")
            base_kids[0] = list(kids)
            before_text = model.text(x)
            before_layout = (x.pos, x.size, x.head, x.tail)
            r = P._field_expression(x)
            return obligations("helper/_field_expression/%s" % la, x, r, before_text, before_layout, [], x, cls is T.Group, want)
        cases.append(core.Case("helper/_field_expression/" + la, run, functions=["luqum.parser._field_expression"]))
    for depth, base_kind, implicit in [(d, b, i) for d in (1, 2, 3) for b in ("group", "other") for i in (False, True)]:
        if True:
            def run_chain(cx, depth=depth, base_kind=base_kind, implicit=implicit):
                if base_kind == "group":
                    base, _ = model.make_instance(T.Group, "base", layout="sym")
                else:
                    base = model.AbsNode("base", layout="sym", classes=[k.__name__ for k in model.UNIVERSE if k not in (T.Group, T.Boost)])
                node = base
                chain = []
                for i in range(depth):
                    node = T.Boost(node, None if (implicit and i == depth - 1) else 2, head=SymStr(name="bh%d" % i), tail=SymStr(name="bt%d" % i))
                    chain.append(node)
                chain.reverse()          # outermost first
                chain_snap[0] = [(b_.force, b_.implicit_force, b_.pos, b_.size, b_.head, b_.tail) for b_ in chain]
                x = chain[0]
                before_text = model.text(x)
                before_layout = (x.pos, x.size, x.head, x.tail)
                r = P._field_expression(x)
                return obligations("helper/_field_expression/Boost^%d/%s%s" % (depth, base_kind, "/implicit-force" if implicit else ""), x, r, before_text,
                                   before_layout, chain, base, base_kind == "group", want)
            cases.append(core.Case("helper/_field_expression/Boost^%d/%s/%s" % (depth, base_kind, implicit), run_chain, functions=["luqum.parser._field_expression"]))
    return cases


def run_production(cx, prod, shape, want):
    """arrange, call the real p_* function, return obligations.  `want` = set of property ids."""
    idx, lhs, rhs, func, fn = prod
    vals = []
    for i, s in enumerate(rhs):
        name = "p%d" % (i + 1)
        if s in P.tokens:
            vals.append(arrange_token(s, name, first=(i == 0)))
        else:
            vals.append(arrange_nonterminal(s, name, shape.get(i, "abs"), first=(i == 0)))
    for v in vals:
        v.snapshot()
    before = ""
    for v in vals:
        before = before + v.pre_text
    h_before = lead_head(vals[0].v)
    p = mkp([v.v for v in vals])
    mark = len(cx.log)
    outcome = None
    real_fe = getattr(P, "_field_expression", None)
    if real_fe is not None:
        P._field_expression = FieldExprStub(real_fe)      # callee contract (modular verification)
    try:
        fn(p)
    except X.ParseError as e:
        outcome = e
    except (EngineUnsupported, sym.PathStop):
        raise
    except Exception as e:  # noqa: BLE001  an escaping non-ParseError exception is program behaviour
        outcome = e
    finally:
        if real_fe is not None:
            P._field_expression = real_fe
    obls = []
    key = "%s#%d[%s]" % (func, idx, shape_label(shape))
    cx.notes["replay_info"] = {"production": prod[:4], "shape": shape_label(shape),
                               "rhs": [(v.kind, v.name, v.matched if isinstance(v.matched, str) else None)
                                       for v in vals]}
    if outcome is not None:
        if "C04" in want:
            ok = isinstance(outcome, X.ParseError)
            obls.append(("C04-X/%s/raises-only-ParseError" % key,
                         (ok, {"exception": core.exc_desc(outcome)})))
        return obls
    res = p[0]
    if "C04" in want:
        obls.append(("C04-X/%s/returns-item" % key, isinstance(res, T.Item)))
    if "C01" in want:
        after = model.text(res)
        obls.append(("C01-G/%s/text" % key, ext.despell(S(after)) == S(before)))
        # Inv': the leading head of the result is the leading head of p[1]
        obls.append(("C01-G/%s/inv-head" % key,
                     z3.Implies(S(h_before) == "", S(lead_head(res)) == "")))
        # typing: result class in classes(lhs)
        if isinstance(res, model.AbsNode):
            obls.append(("C01-G/%s/typing" % key, model.is_class(res.fp, TYPING[lhs])))
            obls.append(("C01-G/%s/inv" % key, z3.Implies(model.is_class(res.fp, OPS),
                                                        z3.And(S(res.head) == "", S(res.tail) == ""))))
        else:
            obls.append(("C01-G/%s/typing" % key, type(res).__name__ in TYPING[lhs]))
            if isinstance(res, T.BaseOperation):
                n = ext_len(res.operands)
                obls.append(("C01-G/%s/inv" % key, z3.And(S(res.head) == "", S(res.tail) == "", n >= 2)))
        obls.append(("C01-G/%s/frame" % key, frame_ok(cx, vals, res, mark)))
    if "C03" in want:
        obls.extend(shape_obligations(key, lhs, rhs, func, vals, res))
    if "C02" in want:
        hyp = []
        for v in vals:
            hyp.extend(v.extra.get("geo_hyp", []))
        for a, b in zip(vals, vals[1:]):
            hyp.append(a.end() == b.start())      # contiguity of the handle (C02-L + L-TILE)
        H = z3.And(hyp) if hyp else z3.BoolVal(True)
        if res.pos is None or res.size is None:
            obls.append(("C02-G/%s/pos-size-set" % key, False))
        else:
            st = I(res.pos) - z3.Length(S(res.head))
            en = I(res.pos) + I(res.size) + z3.Length(S(res.tail))
            obls.append(("C02-G/%s/start" % key, z3.Implies(H, st == vals[0].start())))
            obls.append(("C02-G/%s/end" % key, z3.Implies(H, en == vals[-1].end())))
            obls.append(("C02-G/%s/size" % key, z3.Implies(H, I(res.size) == z3.Length(ext.despell(S(model.body(res)))))))
            if not isinstance(res, model.AbsNode):
                spans = children_of(res)
                conj = []
                prev = I(res.pos)
                for (s0, e0) in spans:
                    conj.append(prev <= s0)
                    prev = e0
                conj.append(prev <= I(res.pos) + I(res.size))
                obls.append(("C02-G/%s/nesting" % key, z3.Implies(H, z3.And(conj))))
    return obls


def lead_head(v):
    """H(v): head of v, followed by the head of its first operand if v is a (concrete) operation"""
    h = v.head
    if isinstance(v, T.BaseOperation) and not isinstance(v, model.AbsNode):
        h = h + v.operands[0].head
    return h


def _tok_text(v):
    return v.matched


def _num_of(val, integer):
    """numeric value denoted by an APPROX / BOOST token value (None: implicit)"""
    n = val.v.value
    if n is None:
        return None
    return z3.ToReal(ext.int_val(S(n))) if integer else ext.dec_val(S(n))


def shape_obligations(key, lhs, rhs, func, vals, res):
    """C03-S / C03-F / C03-I: the node built by a production, stated from the grammar of the STATEMENT (keyed by
    the production's symbols, not by the code): class, children = the right-hand-side values in order (same
    objects), attributes from the token TEXTS only.  The fingerprint of the result is a function of texts and
    children's fingerprints alone, hence independent of layout (C03-I)."""
    out = []
    name = "C03-S/%s/" % key

    def same(a, b):
        return a is b

    if len(rhs) == 3 and rhs[0] == rhs[2] == "expression" and rhs[1] in ("OR_OP", "AND_OP") or rhs == ["expression", "expression"]:
        cls = {"OR_OP": T.OrOperation, "AND_OP": T.AndOperation}.get(rhs[1], T.UnknownOperation)
        a, b = vals[0].v, vals[-1].v
        exp = []
        for x in (a, b):
            if type(x) is cls:
                exp.extend(list(x.operands))
            elif isinstance(x, model.AbsNode) or True:
                exp.append(x)
        ok = type(res) is cls and len(tuple(res.operands)) == len(exp) and all(p is q for p, q in zip(res.operands, exp))
        out.append((name + "n-ary node of the rule's operator: operands of same-class operands spliced, others kept, in order", ok))
        # never flattens across classes: an abstract operand known NOT to be of the class stays one operand
        return out
    if len(rhs) == 2 and rhs[0] in ("PLUS", "MINUS", "NOT") and lhs in ("unary_expression", "possibly_negative_term"):
        cls = {"PLUS": T.Plus, "MINUS": T.Prohibit, "NOT": T.Not}[rhs[0]]
        out.append((name + "prefix node around the operand", type(res) is cls and res.a is vals[1].v))
        return out
    if len(rhs) == 1:
        if rhs[0] == "TO":
            out.append((name + "TO outside a range is the word TO", z3.And(z3.BoolVal(type(res) is T.Word), S(res.value) == "TO")
                        if type(res) is T.Word else False))
        else:
            out.append((name + "value passed through unchanged", res is vals[0].v))
        return out
    if rhs[0] == "LPAREN":
        out.append((name + "group around the expression", type(res) is T.Group and res.expr is vals[1].v))
        return out
    if rhs[0] == "LBRACKET":
        ok = type(res) is T.Range and res.low is vals[1].v and res.high is vals[3].v
        if ok:
            ok = z3.And(sym.B(res.include_low) == z3.BoolVal(_tok_text(vals[0]) == "["),
                        sym.B(res.include_high) == z3.BoolVal(_tok_text(vals[4]) == "]"))
        out.append((name + "range: bounds in order, inclusiveness by bracket / brace kind", ok))
        return out
    if rhs[0] in ("LESSTHAN", "GREATERTHAN"):
        cls = T.To if rhs[0] == "LESSTHAN" else T.From
        ok = type(res) is cls and res.a is vals[1].v
        if ok:
            ok = sym.B(res.include) == z3.BoolVal(_tok_text(vals[0]).endswith("="))
        out.append((name + "comparison: bound and inclusiveness from the sign", ok))
        return out
    if rhs[:2] == ["TERM", "COLUMN"]:
        ok = type(res) is T.SearchField
        if ok:
            e = res.expr
            orig = vals[2].v
            conv = isinstance(e, model.AbsNode) and e.fp is not None
            ok = z3.And(S(res.name) == S(_tok_text(vals[0])),
                        e.fp == fgconv(orig.fp) if isinstance(e, model.AbsNode) and isinstance(orig, model.AbsNode) else z3.BoolVal(e is orig or type(e) is T.FieldGroup))
        out.append((name + "field: name is the term's text, expression is the field expression of the operand", ok))
        return out
    if rhs[-1] in ("APPROX", "BOOST") and len(rhs) == 2:
        cls = {"TERM": T.Fuzzy, "PHRASE": T.Proximity}.get(rhs[0], T.Boost) if rhs[1] == "APPROX" else T.Boost
        ok = type(res) is cls and (res.term if cls is not T.Boost else res.expr) is vals[0].v
        if ok:
            n = _num_of(vals[1], integer=(cls is T.Proximity))
            got = model.num_term(res.degree if cls is not T.Boost else res.force)
            if n is None:
                ok = z3.And(got == {T.Fuzzy: z3.RealVal("1/2"), T.Proximity: z3.RealVal(1), T.Boost: z3.RealVal(1)}[cls],
                            z3.BoolVal(bool(res._implicit_degree if cls is not T.Boost else res.implicit_force)))
            else:
                ok = z3.And(got == n, z3.BoolVal(not (res._implicit_degree if cls is not T.Boost else res.implicit_force)))
        out.append((name + "suffix node: operand and the numeral's value (default when absent)", ok))
        return out
    out.append((name + "production has a shape specification", False))
    return out


def ext_len(operands):
    from vfkit import rewrite
    n = rewrite.vf_len(operands)
    return I(n)


def frame_ok(cx, vals, res, mark):
    """only head/tail/pos/size of p[1..n], of the first operand of an operation operand, and the new node
    may be written"""
    allowed = {"head", "tail", "pos", "size"}
    arranged = {}
    for v in vals:
        arranged[id(v.v)] = v
    ok = True
    bad = []
    for v in vals:
        now = v.v.__dict__
        if isinstance(v.v, model.AbsNode):
            continue
        for k, old in v.pre_dict.items():
            if k in allowed:
                continue
            if now.get(k, T._MARKER) is not old:
                ok = False
                bad.append("%s.%s" % (v.name, k))
        for k in now:
            if k not in v.pre_dict and k not in allowed:
                ok = False
                bad.append("%s.%s (new)" % (v.name, k))
    for ev in cx.log[mark:]:
        if ev[0] != "write":
            continue
        _, obj, attr, old, new = ev
        if attr in allowed:
            continue
        ok = False
        bad.append("%s.%s" % (getattr(obj, "vf_name", obj), attr))
    if not ok:
        cx.notes["replay_frame"] = bad
    return ok


def functions_under_contract():
    names = ["luqum.head_tail.HeadTailManager." + m for m in
             ("pos", "binary_operation", "simple_term", "unary", "post_unary", "paren", "range", "search_field")]
    names += ["luqum.tree.create_operation", "luqum.tree.group_to_fieldgroup", "luqum.tree.Item._head_tail"]
    names += ["luqum.parser." + f for f in sorted({pr[3] for pr in productions()})]
    return names


# ------------------------------------------------------------------------------------------------
# replay: concretise a counter-model of a per-production obligation to a query string
# ------------------------------------------------------------------------------------------------
_WITNESS = {
    "Word": "w", "Phrase": '"p q"', "Regex": "/r/", "Group": "(w)", "FieldGroup": "(w)", "Range": "[a TO b]",
    "Fuzzy": "w~2", "Proximity": '"p q"~2', "Boost": "w^2", "Plus": "+w", "Not": "NOT w", "Prohibit": "-w",
    "From": ">w", "To": "<w", "SearchField": "f:w", "OrOperation": "w OR v", "AndOperation": "w AND v",
    "UnknownOperation": "w v", "BoolOperation": "w v", "NoneItem": "w",
}
_CONTEXT = {"expression": "{}", "unary_expression": "{}", "phrase_or_term": "[{} TO z]",
            "possibly_negative_term": "[{} TO z]", "phrase_or_possibly_negative_term": "[{} TO z]"}


def _ws(s, default=""):
    """keep only whitespace characters of a model value (layouts are constrained to \\s* at stage 2 only)"""
    if not isinstance(s, str):
        return default
    return "".join(ch for ch in s if ch.isspace())


def _term(s, default="w"):
    import re as _re
    if isinstance(s, str) and s and _re.fullmatch(P.TERM_RE, s, _re.VERBOSE) and s not in P.reserved:
        return s
    return default


def render_query(info, model, spaced=False, prefer=None):
    """query string whose parse uses the production with the model's layouts.  prefer: class name to use for
    abstract operands (instead of the model's class)"""
    model = model or {}
    idx, lhs, rhs, func = info["production"]
    shape = info["shape"].split(",") if info["shape"] != "-" else []
    out = []
    nt_i = 0
    for (kind, name, lit) in info["rhs"]:
        head = _ws(model.get(name + "_head"))
        tail = _ws(model.get(name + "_tail"))
        if kind in P.tokens:
            if kind == "TERM":
                body = _term(model.get(name + "_m"))
            elif kind == "PHRASE":
                body = '"' + "".join(ch for ch in str(model.get(name + "_inner") or "") if ch not in '"\\') + '"'
            elif kind == "REGEX":
                body = "/" + "".join(ch for ch in str(model.get(name + "_inner") or "") if ch not in "/\\") + "/"
            elif kind in ("APPROX", "BOOST"):
                body = ("~" if kind == "APPROX" else "^") + (str(model.get(name + "_num") or "") if model.get(name + "_hasnum") else "")
            else:
                body = lit if lit is not None else token_alternatives(kind)[int(model.get(name + "_alt") or 0)]
            piece = head + body + tail
        else:
            sh = shape[nt_i] if nt_i < len(shape) else "abs"
            nt_i += 1
            if sh in ("abs", "other"):
                fp = model.get(name + "_fp")
                cls = fp.get("cls") if isinstance(fp, dict) else "Word"
                if prefer and prefer in TYPING.get(kind, []) and (sh == "abs" or prefer != {"p_expression_or": "OrOperation", "p_expression_and": "AndOperation", "p_expression_implicit": "UnknownOperation"}.get(func)):
                    cls = prefer
                if cls not in _WITNESS or cls not in TYPING.get(kind, [cls]):
                    cls = "Word"
                if kind != "expression" and cls in OPS:
                    cls = "Word"
                piece = head + _WITNESS[cls] + tail
            elif sh in ("Group", "FieldGroup"):
                eh = _ws(model.get(name + "_expr_head"))
                et = _ws(model.get(name + "_expr_tail"))
                piece = head + "(" + eh + "w" + et + ")" + tail
            elif sh in _WITNESS:
                piece = head + _WITNESS[sh] + tail
            else:
                # operation operand: x0 OP x1 [OP x2]
                if sh[:-1] in _WITNESS:
                    op = {"OrOperation": "OR", "AndOperation": "AND"}.get(sh[:-1], "")
                else:
                    op = {"oro": "OR", "and": "AND", "unk": ""}[sh[:3]]
                n = int(sh[-1])
                parts = []
                for j in range(n):
                    nm = "%s_x%d" % (name, j) if j < 2 else None
                    h = _ws(model.get(nm + "_head")) if nm else " "
                    t = _ws(model.get(nm + "_tail")) if nm else ""
                    if j > 0 and not h:
                        h = " "
                    if j < n - 1 and not t:
                        t = " "
                    parts.append(h + "w%d" % j + t)
                piece = op.join(parts)
        out.append(piece)
    if spaced:
        q = ""
        for pc in out:
            if q and pc and (q[-1].isalnum() or q[-1] in '"/') and (pc[0].isalnum() or pc[0] in '"/'):
                q += " "
            q += pc
    else:
        q = "".join(out)
    return _CONTEXT.get(lhs, "{}").format(q)


def replay_requests(kind):
    def build(rec):
        info = rec.get("replay_info")
        if info and "queries" in info:
            reqs = [{"kind": kind, "query": q} for q in info["queries"]]
            if info.get("sequence") and kind == "C04":
                reqs.insert(0, {"kind": "C04seq", "queries": ["  ", "(a "] + info["queries"]})
            return reqs
        if not info or "production" not in info:
            return []
        qs = []
        for prefer in (None, "AndOperation", "OrOperation", "UnknownOperation", "Group", "Boost", "Word"):
            for spaced in (False, True):
                q = render_query(info, rec.get("model"), spaced, prefer)
                if q not in qs:
                    qs.append(q)
        return [{"kind": kind, "query": q} for q in qs[:14]]
    return build


def left_assoc_table():
    """F-obligation: in every LALR state that can reduce by a binary rule `E -> E OP E`, the action on OP is
    that reduce.  Hence (unique state after `E OP`, one goto target for E) the parser never shifts OP on top
    of `E OP E`, so the right operand of such a rule was not produced by the rule itself."""
    fails = []
    checked = 0
    samples = []
    prods = P.parser.productions
    for i, lhs, rhs, func, fn in productions():
        if len(rhs) != 3 or rhs[0] != lhs or rhs[2] != lhs or rhs[1] not in P.tokens:
            continue
        op = rhs[1]
        for state, acts in P.parser.action.items():
            if any(a == -i for a in acts.values()):
                checked += 1
                a = acts.get(op)
                if len(samples) < 3:
                    samples.append({"state": state, "production": prods[i].str, "action_on_" + op: a})
                if a != -i:
                    fails.append({"id": "state%d.%s" % (state, op), "state": state, "production": prods[i].str,
                                  "lookahead": op, "action": a, "expected": -i})
    return {"ok": not fails and checked > 0, "checked": checked, "failures": fails, "samples": samples,
            "detail": "states that reduce by a binary operator rule reduce on the rule's own operator"}


def grammar_facts():
    """F-obligations that the composition lemmas L-LR / L-LEX rely on (A8 preconditions), on the live objects"""
    fails = []
    checked = 0
    facts = {
        "parser.defaulted_states == {} (the lookahead is lexed before every reduce)": P.parser.defaulted_states == {},
        "no empty production (every handle starts with a token that owns the preceding blank)":
            all(len(rhs) >= 1 for _, _, rhs, _, _ in productions()),
        "lexer.lexignore == '' (no silently skipped characters)": P.lexer.lexignore == "",
        "lexer.lexliterals == '' (no literal tokens bypassing the rule functions)": P.lexer.lexliterals == "",
        "single lexer state INITIAL": set(P.lexer.lexstatere) == {"INITIAL"},
        "every lexer rule is a function (so token_headtail sees every match)":
            all(fn is not None for (fn_name) in [1] for fn in [f for f, _ in [x for x in P.lexer.lexstatere["INITIAL"][0][1] if x]]),
        "every production has a callable action": all(fn is not None for *_, fn in productions()),
        "parser.errorfunc is p_error and lexer.lexerrorf is t_error":
            getattr(P.parser.errorfunc, "__name__", "") == "p_error" and getattr(P.lexer.lexerrorf, "__name__", "") == "t_error",
    }
    for k, v in facts.items():
        checked += 1
        if not v:
            fails.append({"id": str(checked), "fact": k})
    return {"ok": not fails, "checked": checked, "failures": fails, "samples": list(facts)[:3],
            "detail": "structural facts of the live PLY objects"}
