"""C07 — the ES builder refuses ambiguous AND/OR mixes and container-field misuse, only those.  DESIGN 3.C07."""
from vfkit import bounded, core
from vfkit.check import Plan

from . import c01, c05, eshelpers as H

QUERIES = ["a AND b OR c", "a b AND c", "a OR b AND c", "(a AND b) OR c", "a AND (b OR c)", "o:c", "n:d", "o.y:c", "t.raw:b", "n:(m:g)", "q.r:s",
           "t:[-1 TO 5]", "NOT n:d", "a AND b AND (c)", "x (n:d AND y) OR z"]


def plan(tier, seed):
    pl = Plan("C07", "exploration")
    pl.cases = H.final_operation_cases() + H.simplify_cases()
    pl.finite = [("C07-M/is_must-is_should table", H.kind_table), ("C07-M/yield_nested_children table", H.clash_table)]
    n = 3

    def exc():
        return bounded.run_native("c07_es", {"max_leaves": n, "lone_every": 24 if tier == "quick" else 1, "known": bounded.known_for("C07", "C07-B")})
    pl.bounded = [("C07-B/exception type equals the structural predicate", exc)]
    pl.functions = ["luqum.check.CheckNestedFields." + f for f in ("__init__", "visit_search_field", "_check_final_operation", "visit_phrase", "visit_term", "__call__")] + \
                   ["luqum.elasticsearch.visitor.ElasticsearchQueryBuilder." + f for f in ("_is_must", "_is_should", "_yield_nested_children", "simplify_if_same")] + \
                   ["luqum.utils.flatten_nested_fields_specs", "luqum.utils.normalize_object_fields_specs"]
    pl.min_obligations = 20
    pl.replay_builder = c05.replay_builder_for("c07_es", QUERIES)
    pl.assumptions = c01.ASSUMPTIONS
    pl.trusted_base = c01.TRUSTED + ["bounded/es_ref.py has_mix / container_misuse (structural predicates written from the statement)"]
    pl.lemmas = ["C07-N (proved): _check_final_operation is the documented decision table over membership of the accumulated field name in "
                 "the declared sets (symbolic membership); every term / phrase is reached once with the accumulated dotted path",
                 "C07-M (finite exhaustive): clash detection per (parent class, child class, default operator)",
                 "C07-B (BOUNDED): over the corpus x 80 configurations the exception type, or its absence, equals the structural predicate; "
                 "no other exception escapes"]
    pl.claim = "decision table and clash detection proved / exhaustive; 'exactly those and no other exception' on whole queries bounded."
    return pl
