"""C04 — parsing is total and pure.  DESIGN 3.C04."""
import threading

import z3

from vfkit import bounded, core, frame, model, sym
from vfkit.check import Plan
from vfkit.sym import EngineUnsupported, S, I, SymInt, SymStr, ctx

from . import c01, lexing, parsing

import ply.lex as lex
import luqum.parser as P
import luqum.thread as TH
import luqum.tree as T
import luqum.head_tail as HT
import luqum.exceptions as X


def framed(case, label):
    """adds the write-frame obligation: nothing in luqum.* that outlives the call is written on any path"""
    inner = case.run

    def run(cx):
        before = frame.snapshot()
        obls = inner(cx)
        changed = frame.diff(before, frame.snapshot())
        obls = list(obls or [])
        obls.append(("C04-H/frame/%s" % case.key, (not changed, {"written": changed[:10]})))
        return obls
    return core.Case(case.key, run, functions=case.functions, canary=case.canary)


def p_error_cases():
    def run(cx):
        k = z3.Int("kind")
        cx.register("kind", k)
        cx.assume(z3.And(k >= 0, k < 5))
        kind = cx.choose([(k == i, i) for i in range(5)])
        cx.notes["replay_info"] = {"queries": ["(a", "a AND", ")", "a:", "[1 TO", "[a %d]", "x:[10% 20%]", "%s)"]}
        if kind == 0:
            tok = None
        else:
            tok = lex.LexToken()
            tok.type = "x"
            tok.lineno = 1
            tok.lexpos = SymInt(name="lexpos")
            tok.value = [None, HT.TokenValue(SymStr(name="v")), HT.TokenValue(None), T.Word(SymStr(name="v")),
                         T.Phrase('"' + SymStr(name="v") + '"')][kind]
        try:
            P.p_error(tok)
        except X.ParseSyntaxError:
            return [("C04-X/p_error/raises-ParseSyntaxError-on-every-path", True)]
        except (EngineUnsupported, sym.PathStop):
            raise
        except Exception as e:  # noqa: BLE001
            return [("C04-X/p_error/raises-ParseSyntaxError-on-every-path", (False, {"exception": core.exc_desc(e)}))]
        return [("C04-X/p_error/raises-ParseSyntaxError-on-every-path", (False, {"returned": True}))]
    return [core.Case("C04-X/p_error", run, functions=["luqum.parser.p_error"])]


def wrapper_cases():
    """C04-H(c): both entry points reach the same LRParser.parse with luqum's own lexer"""
    def run_parser_parse(cx):
        calls = []
        sentinel = object()

        def rec(**kw):
            calls.append(kw)
            return sentinel
        orig = P._orig_parse
        P._orig_parse = rec
        try:
            inp = SymStr(name="input")
            other = P.lexer.clone()
            r1 = P.parser.parse(inp)
            r2 = P.parser.parse(inp, lexer=other)
            r3 = P.parse(input=inp)
        finally:
            P._orig_parse = orig
        ok = (len(calls) == 3 and r1 is sentinel and r2 is sentinel and r3 is sentinel
              and calls[0]["input"] is inp and calls[0]["lexer"] is P.lexer
              and calls[1]["lexer"] is other and calls[2]["lexer"] is P.lexer
              and all(c.get("tokenfunc") is None and not c.get("tracking") for c in calls))
        return [("C04-H/wrapper/parser.parse-forwards-input-and-luqum-lexer", ok),
                ("C04-H/wrapper/parser.parse-is-the-wrapper", P.parser.parse is P.parse),
                ("C04-H/wrapper/orig-parse-is-LRParser.parse",
                 getattr(orig, "__func__", None) is type(P.parser).parse and orig.__self__ is P.parser)]

    def run_thread_parse(cx):
        calls = []
        sentinel = object()

        def rec(**kw):
            calls.append(kw)
            return sentinel
        orig = P._orig_parse
        P._orig_parse = rec
        tl = getattr(TH, "thread_local", None)       # the documented mechanism; C14-O states ownership on behaviour
        had = tl is not None and "lexer" in getattr(tl, "__dict__", {})
        old = getattr(tl, "lexer", None)
        try:
            if had:
                del tl.lexer
            inp = SymStr(name="input")
            r1 = TH.parse(inp)
            r2 = TH.parse(inp, lexer=P.lexer)
        finally:
            P._orig_parse = orig
            if tl is not None:
                if had:
                    tl.lexer = old
                elif "lexer" in getattr(tl, "__dict__", {}):
                    del tl.lexer
        ok = (len(calls) == 2 and r1 is sentinel and r2 is sentinel and calls[0]["input"] is inp and calls[1]["input"] is inp
              and all(c["lexer"] is not P.lexer and isinstance(c["lexer"], lex.Lexer) and c["lexer"].lexre is P.lexer.lexre
                      and c["lexer"].lexstatere is P.lexer.lexstatere for c in calls))
        out = [("C04-H/wrapper/thread.parse-forwards-to-the-same-parser-with-a-clone-of-luqum's-lexer-never-the-module-lexer", ok)]
        if tl is not None:
            out.append(("C04-H/wrapper/thread_local-is-threading.local", isinstance(tl, threading.local)))
        return out
    return [core.Case("C04-H/parser.parse", run_parser_parse, functions=["luqum.parser.parse"]),
            core.Case("C04-H/thread.parse", run_thread_parse, functions=["luqum.thread.parse"])]


def canary():
    def run(cx):
        before = frame.snapshot()
        P.reserved["XOR"] = "XOR"
        changed = frame.diff(before, frame.snapshot())
        del P.reserved["XOR"]
        return [("canary/frame-detects-module-write", z3.BoolVal(not changed) if changed else True),
                ("canary/exception-detected", z3.BoolVal(False))]
    return core.Case("canary/frame", run, canary=True)


def plan(tier, seed):
    pl = Plan("C04", "proof")
    want = {"C04"}
    base = c01.production_cases(want) + lexing.lexer_cases(want) + [lexing.t_error_case(want)] + p_error_cases()
    pl.cases = [framed(c, c.key) for c in base] + wrapper_cases()
    pl.canaries = [canary()]
    pl.finite = [("C04-F/grammar-facts", parsing.grammar_facts)]
    n = 2 if tier == "quick" else 4

    def sequences():
        return bounded.run_native("c04_sequences", {"max_calls": n, "seed": seed,
                                                   "known": bounded.known_for("C04", "C04-B")})
    pl.bounded = [("C04-B/call-sequences (audit of A8 statefulness)", sequences)]
    pl.functions = sorted(set(parsing.functions_under_contract() + lexing.functions_under_contract()
                              + ["luqum.parser.p_error", "luqum.parser.t_error", "luqum.parser.parse",
                                 "luqum.thread.parse", "luqum.parser._numeric_modifier",
                                 "luqum.tree.Fuzzy._normalize_degree", "luqum.tree.Proximity._normalize_degree",
                                 "luqum.tree.Boost.__init__", "luqum.tree.Phrase.__init__", "luqum.tree.Regex.__init__"]))
    pl.min_obligations = len(parsing.productions()) * 2 + len(lexing.rules()) * 2
    pl.replay_builder = parsing.replay_requests("C04")
    pl.assumptions = c01.ASSUMPTIONS
    pl.trusted_base = c01.TRUSTED
    pl.lemmas = ["totality (paper): every lexer rule and every grammar action returns or raises a ParseError on every "
                 "path (C04-X), t_error and p_error raise on every path, so by A8 LRParser.parse never enters error "
                 "recovery and returns the value of the start symbol (an Item: C04-X returns-item + typing) or "
                 "propagates a ParseError",
                 "history independence (paper): no function on the parse path writes module, class or singleton "
                 "state (C04-H frames); the only persistent location is lexer._luqum_headtail, which the first "
                 "match of every input (lexpos == 0; F: lexignore == '', no nullable rule) replaces without reading "
                 "(Poison tracker in state 'first'); both entry points call the same LRParser.parse with luqum's "
                 "lexer (C04-H wrapper). Hence the outcome is a function of the input string alone"]
    pl.claim = ("exception sets, frames, tracker reset and wrapper forwarding proved for all symbolic inputs; PLY's "
                "own state handling is assumed (A8) and audited by the bounded call-sequence check.")
    return pl
