"""C09 — equality is structural on meaning-bearing content; clone_item preserves it.  DESIGN 3.C09."""
import z3

from vfkit import bounded, core, model, sym
from vfkit.check import Plan
from vfkit.sym import EngineUnsupported, S, B, SymBool, ctx

from . import c01, treecases

import luqum.tree as T


def _truth(r):
    if isinstance(r, SymBool):
        return r.t
    if isinstance(r, bool):
        return z3.BoolVal(r)
    raise EngineUnsupported("__eq__ returned %s" % type(r).__name__)


def eq_cases():
    cases = []
    insts = treecases.instances(layout="sym")
    for la, mka, ca in insts:
        # reflexive shortcut
        def run_self(cx, la=la, mka=mka):
            a, _ = mka("a")
            model.poison_layout(a, "self") if a is not T.NONE_ITEM else None
            try:
                r = a.__eq__(a)
            except model.FrameViolation as e:
                return [("C09-R/%s/self/ignores-layout-and-names" % la, (False, {"read": str(e)}))]
            return [("C09-E/%s/self" % la, _truth(r))]
        cases.append(core.Case("C09-E/%s/self" % la, run_self, functions=["luqum.tree.Item.__eq__"]))
        for lb, mkb, cb in insts:
            def run(cx, la=la, mka=mka, lb=lb, mkb=mkb, ca=ca, cb=cb):
                a, _ = mka("a")
                b, _ = mkb("b")
                if a is b:      # NONE_ITEM singleton
                    return [("C09-E/%s/vs/%s" % (la, lb), _truth(a.__eq__(b)))]
                expected = model.fp_of(a) == model.fp_of(b)
                model.poison_layout(a, "self")
                model.poison_layout(b, "other")
                try:
                    r = a.__eq__(b)
                except model.FrameViolation as e:
                    return [("C09-R/%s/vs/%s/ignores-layout-and-names" % (la, lb), (False, {"read": str(e)}))]
                return [("C09-E/%s/vs/%s" % (la, lb), _truth(r) == expected),
                        ("C09-R/%s/vs/%s/ignores-layout-and-names" % (la, lb), True)]
            cases.append(core.Case("C09-E/%s/vs/%s" % (la, lb), run, functions=["luqum.tree.Item.__eq__"]))

        def run_foreign(cx, la=la, mka=mka):
            a, _ = mka("a")
            out = []
            for o in (None, "x", 3, object()):
                r = a.__eq__(o)
                out.append(("C09-E/%s/vs/non-item" % la, z3.Not(_truth(r))))
            return out
        cases.append(core.Case("C09-E/%s/vs/non-item" % la, run_foreign, functions=["luqum.tree.Item.__eq__"]))
    return cases


def copy_of(ch, name):
    """a fresh abstract node related to `ch` by Copy: same fingerprint, same text, same layout"""
    if isinstance(ch, model.Run):
        r = model.Run(name, ch.op)
        cx = ctx()
        cx.assume(r.fpseq == ch.fpseq)
        cx.assume(r.count.t == ch.count.t)
        cx.assume(r.jointext.t == ch.jointext.t)
        return r
    n = model.AbsNode(name, layout="none")
    d = n.__dict__
    d["fp"] = ch.fp
    d["core"] = ch.core
    for k in ("head", "tail", "pos", "size"):
        d[k] = ch.__dict__[k]
    return n


def same(a, b):
    """identical value: same object, or equal concrete scalars"""
    if a is b:
        return True
    if isinstance(a, (str, int, bool, type(None))) and type(a) is type(b):
        return a == b
    return False


def clone_cases():
    cases = []
    for la, mk, cls in treecases.instances(layout="sym"):
        def run(cx, la=la, mk=mk, cls=cls):
            x, kids = mk("x")
            if x is T.NONE_ITEM:
                c = x.clone_item()
                return [("C09-C/%s/type" % la, type(c) is type(x))]
            before = dict(x.__dict__)
            mark = len(cx.log)
            c = x.clone_item()
            obls = [("C09-C/%s/type" % la, type(c) is type(x)),
                    ("C09-C/%s/fresh" % la, c is not x),
                    ("C09-C/%s/layout" % la, all(same(getattr(c, k), getattr(x, k)) for k in ("pos", "size", "head", "tail"))),
                    ("C09-C/%s/children-are-placeholders" % la,
                     all(ch is T.NONE_ITEM for ch in c.children) and
                     (len(c.children) == (0 if isinstance(x, T.BaseOperation) else len(x.children)))),
                    ("C09-C/%s/original-untouched" % la,
                     all(x.__dict__.get(k) is v for k, v in before.items()) and len(x.__dict__) == len(before)
                     and not [e for e in cx.log[mark:] if e[0] == "write"])]
            # spec attributes
            conj = []
            for f, k in model.SPEC[cls.__name__]:
                if k == "str":
                    conj.append(S(getattr(c, f)) == S(getattr(x, f)))
                elif k == "bool":
                    conj.append(B(getattr(c, f)) == B(getattr(x, f)))
                elif k == "num":
                    conj.append(model.num_term(getattr(c, f)) == model.num_term(getattr(x, f)))
            obls.append(("C09-C/%s/content" % la, z3.And(conj) if conj else True))
            # give it the clones of the children
            copies = [copy_of(ch, "c%d" % i) for i, ch in enumerate(x.children)]
            c.children = copies
            obls.append(("C09-C/%s/equal-once-given-cloned-children" % la, _truth(c.__eq__(x))))
            obls.append(("C09-C/%s/prints-like-original" % la, S(model.text(c)) == S(model.text(x))))
            obls.append(("C09-C/%s/prints-like-original-body" % la, S(model.body(c)) == S(model.body(x))))
            return obls
        cases.append(core.Case("C09-C/" + la, run, functions=["luqum.tree.Item.clone_item", "luqum.tree.Item._clone_item"]))

    def run_kwargs(cx):
        w = T.Word(sym.SymStr(name="v"), head=sym.SymStr(name="h"))
        nv = sym.SymStr(name="nv")
        c = w.clone_item(value=nv, tail="T")
        return [("C09-C/kwargs-override-exactly-the-given-attributes",
                 c.value is nv and c.tail == "T" and c.head is w.head and c.pos is None)]
    cases.append(core.Case("C09-C/kwargs", run_kwargs, functions=["luqum.tree.Item.clone_item"]))
    return cases


def replay_builder(rec):
    """two real trees from the counter-model; the top-level statement (== vs independent fingerprint; clone
    equal to and printing like the original) is evaluated natively"""
    from vfkit import witness
    name = rec["obligation"]
    m = rec.get("model") or {}
    parts = name.split("/")
    if name.startswith(("C09-E/", "C09-R/")) and "vs" in parts:
        la, lb = parts[1], parts[3]
        if lb == "non-item":
            return []
        code = witness.PRELUDE + "a = %s\nb = %s\n" % (witness.instance_code(la, "a", m), witness.instance_code(lb, "b", m)) + \
            "r1 = (a == b); r2 = (b == a); f = fingerprint(a) == fingerprint(b)\n" \
            "g1 = (T.Group(a) == T.Group(b)); g2 = (T.Group(b) == T.Group(a))\n" \
            "violated = (r1 != f) or (r2 != f) or (g1 != f) or (g2 != f)\n" \
            "observation = 'a=%r b=%r: a==b -> %s, b==a -> %s, same fingerprint -> %s' % (a, b, r1, r2, f)\n"
        return [{"kind": "script", "code": code}]
    if name.startswith("C09-C/"):
        la = parts[1]
        code = witness.PRELUDE + "x = %s\n" % witness.instance_code(la, "x", m) + \
            "from luqum.visitor import TreeTransformer\n" \
            "c = x.clone_item()\n" \
            "kids = [TreeTransformer().visit(k) for k in x.children]\n" \
            "ok_type = type(c) is type(x)\n" \
            "c.children = kids\n" \
            "violated = not (ok_type and c == x and c.__str__(head_tail=True) == x.__str__(head_tail=True) and str(c) == str(x) " \
            "and (c.pos, c.size, c.head, c.tail) == (x.pos, x.size, x.head, x.tail))\n" \
            "observation = 'x=%r prints %r; clone with cloned children prints %r, equal=%s' % (x, x.__str__(head_tail=True), c.__str__(head_tail=True), c == x)\n"
        return [{"kind": "script", "code": code}]
    return []


def canary():
    def run(cx):
        a, _ = model.make_instance(T.Word, "a")
        b, _ = model.make_instance(T.Word, "b")
        return [("canary/two-arbitrary-words-are-equal", _truth(a.__eq__(b)))]
    return core.Case("canary/eq", run, canary=True)


def plan(tier, seed):
    pl = Plan("C09", "proof")
    pl.cases = eq_cases() + clone_cases()
    pl.canaries = [canary()]
    from vfkit import lean as _leanc
    pl.finite = list(getattr(pl, 'finite', None) or []) + [("A6/Lean re-check of the composition lemmas L-IND", _leanc.compose_check('L-IND'))]
    pl.functions = ["luqum.tree.Item.__eq__", "luqum.tree.Item.clone_item", "luqum.tree.Item._clone_item",
                    "luqum.tree.Item.children", "luqum.tree.BaseOperation.children"]
    ntok = 4 if tier == "quick" else 6

    def pairs():
        return bounded.run_native("c09_pairs", {"max_tokens": ntok, "known": bounded.known_for("C09", "C09-B")})
    pl.bounded = [("C09-B/equality-and-clone on a pool of trees (safety net for non-compositional rewrites)", pairs)]
    pl.min_obligations = len(model.UNIVERSE) ** 2
    pl.replay_builder = replay_builder
    pl.assumptions = c01.ASSUMPTIONS
    pl.trusted_base = c01.TRUSTED
    pl.lemmas = ["L-EQ: by C09-E, a == b <=> FP(a) = FP(b) where FP is the fingerprint term built from the spec lists "
                 "(written from the property statement, independent of _equality_attrs); equality of terms of an "
                 "algebraic datatype is reflexive, symmetric and transitive, and is structural",
                 "L-IND (Lean: lemmas/Compose.lean fold_ind; model link assumed): the per-class step with children stubbed by the same contract gives the statement "
                 "for all finite trees", "L-Z (Lean): all2/zip over appended lists of equal lengths splits"]
    pl.claim = ("for every ordered pair of node classes (operand shapes 0, 1, 2, 2+run; implicit/explicit numerals) the "
                "real Item.__eq__ returns exactly FP(self) = FP(other) on every path with layout and names poisoned; "
                "clone_item proved per class.")
    return pl
