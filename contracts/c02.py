"""C02 — pos/size/head/tail locate each node.  DESIGN 3.C02 (relative geometry, linear integer arithmetic)."""
import z3

from vfkit import bounded, core, model
from vfkit.check import Plan
from vfkit.sym import S, I, SymBool, SymInt, SymStr, ctx

from . import c01, lexing, parsing

import luqum.tree as T


def span_cases():
    def run(cx):
        w = T.Word(SymStr(name="v"), pos=SymInt(name="pos"), size=SymInt(name="size"),
                   head=SymStr(name="head"), tail=SymStr(name="tail"))
        ht = z3.Bool("ht")
        cx.register("ht", ht)
        flag = cx.decide(ht)
        s, e = w.span(head_tail=flag)
        if flag:
            return [("C02-S/span/widened", z3.And(I(s) == I(w.pos) - z3.Length(S(w.head)),
                                                  I(e) == I(w.pos) + I(w.size) + z3.Length(S(w.tail))))]
        return [("C02-S/span/plain", z3.And(I(s) == I(w.pos), I(e) == I(w.pos) + I(w.size)))]

    def run_none(cx):
        w = T.Word("x")
        return [("C02-S/span/no-position", w.span() == (None, None) and w.span(head_tail=True) == (None, None))]
    return [core.Case("C02-S/span", run, functions=["luqum.tree.Item.span"]),
            core.Case("C02-S/span-none", run_none, functions=["luqum.tree.Item.span"])]


def canary():
    prod = [p for p in parsing.productions() if p[3] == "p_grouping"][0]

    def run(cx):
        vals = [parsing.arrange_token("LPAREN", "p1", True), parsing.arrange_nonterminal("expression", "p2", "abs", False),
                parsing.arrange_token("RPAREN", "p3", False)]
        for v in vals:
            v.snapshot()
        p = parsing.mkp([v.v for v in vals])
        prod[4](p)
        return [("canary/p_grouping/size-is-size-of-content", I(p[0].size) == I(vals[1].pre["size"]))]
    return core.Case("canary/p_grouping", run, canary=True)


def plan(tier, seed):
    pl = Plan("C02", "proof")
    want = {"C02"}
    pl.cases = c01.production_cases(want, reachable_only=True) + lexing.lexer_cases(want) + span_cases()
    pl.canaries = [canary()]
    pl.finite = [("C02-F/left-assoc-table", parsing.left_assoc_table), ("C02-F/grammar-facts", parsing.grammar_facts)]
    from vfkit import lean as _leanc
    pl.finite.append(("A6/Lean re-check of the composition lemmas L-TILE, L-LEX, L-LR", _leanc.compose_check('L-TILE', 'L-LEX', 'L-LR')))
    ntok = 4 if tier == "quick" else 7

    def roundtrip():
        return bounded.run_native("c01_roundtrip", {"max_tokens": ntok, "seed": seed, "want": ["C02"],
                                                   "known": bounded.known_for("C02", "C02-B")})
    pl.bounded = [("C02-B/positions-locate-text (safety net, audit of A3/A8)", roundtrip)]
    pl.functions = sorted(set(parsing.functions_under_contract() + lexing.functions_under_contract()
                              + ["luqum.tree.Item.span"]))
    pl.min_obligations = len(parsing.productions()) * 4 + len(lexing.rules()) * 2
    pl.replay_builder = parsing.replay_requests("C02")
    pl.assumptions = c01.ASSUMPTIONS
    pl.trusted_base = c01.TRUSTED
    pl.lemmas = ["L-TILE (paper, DESIGN 3.C02): consecutive segments of known lengths that tile q are the "
                 "corresponding slices; with C01 (texts tile q), contiguity of the handle and size = |body| this gives "
                 "q[start(x):end(x)] = text(x) and q[pos:pos+size] = body(x) for every node, root span = [0, |q|)",
                 "frame: nodes deeper than one level below a stack value are never written again (C01-G frame), so "
                 "NodeInv established at reduce time still holds in the final tree",
                 "left associativity (F, left_assoc_table): the right operand of an OR/AND rule is never of the "
                 "rule's own class, which HeadTailManager.binary_operation's size correction relies on"]
    pl.claim = ("relative geometry (start, end, size = |body|, children nested in order) proved per production and "
                "per lexer rule for all layouts; composed by L-TILE with C01.")
    pl.notes = ["latent (unreachable through the parser, F-checked): binary_operation subtracts len(op_tail) from "
                "the size even when the right operand is an operation of the same class, whose first operand "
                "(not the operand itself) received the operator's tail"]
    return pl
