"""C12 — open ranges convert to equivalent ranges; merging preserves the conjunction.  DESIGN 3.C12."""
import z3

from vfkit import bounded, core, model, rewrite, sym, uniform
from vfkit.check import Plan
from vfkit.sym import EngineUnsupported, PathStop, S, B, SymBool, SymStr, ctx

from . import c01, c08, c09, treecases

import luqum.tree as T
import luqum.utils as U

conv = z3.Function("conv", model.FP, model.FP)                    # fingerprint of the converted subtree
conv_seq = z3.Function("conv_seq", model.FPSeq, model.FPSeq)
STAR = model.CTOR["Word"](z3.StringVal("*"))
# value semantics for ONE arbitrary field value v: uninterpreted atoms
Lraw = z3.Function("lower_bound_holds", model.FP, z3.BoolSort(), z3.BoolSort())
Uraw = z3.Function("upper_bound_holds", model.FP, z3.BoolSort(), z3.BoolSort())
Dother = z3.Function("other_operand_holds", model.FP, z3.BoolSort())

LOOP_KEY = "luqum.utils.OpenRangeTransformer.visit_and_operation#0"


def low_holds(fp, incl):
    return z3.If(fp == STAR, z3.BoolVal(True), Lraw(fp, B(incl)))


def high_holds(fp, incl):
    return z3.If(fp == STAR, z3.BoolVal(True), Uraw(fp, B(incl)))


def den(x):
    """does the (cloned) operand x hold for the value v?"""
    if isinstance(x, T.Range) and not isinstance(x, model.AbsNode):
        return z3.And(low_holds(model.fp_of(x.low), x.include_low), high_holds(model.fp_of(x.high), x.include_high))
    return Dother(model.fp_of(x))


class StubConv:
    """visit of a strict sub-term by its contract Res12(child, r): fresh, same layout, fp(r) = conv(fp(child))"""

    def __init__(self, real):
        self.calls = []
        self.results = []
        self.real = real

    def __call__(self, node, context):
        if isinstance(node, model.Run):
            self.calls.append(node)
            r = model.Run("res%d" % len(self.calls), node.op)
            cx = ctx()
            cx.assume(r.fpseq == conv_seq(node.fpseq))
            cx.assume(r.count.t == node.count.t)
            self.results.append(r)
            return iter([r])
        if isinstance(node, model.AbsNode):
            self.calls.append(node)
            r = model.AbsNode("res%d" % len(self.calls), layout="none")
            d = r.__dict__
            for k in ("head", "tail", "pos", "size"):
                d[k] = node.__dict__[k]
            ctx().assume(r.fp == conv(node.fp))
            self.results.append(r)
            return iter([r])
        return self.real(node, context)


def conversion_cases():
    cases = []
    for la, mk, cls in treecases.instances(layout="sym", ops_shapes=(0, 1, 2, 3)):
        for merge in (False, True):
            if merge and cls is T.AndOperation:
                continue     # the merging handler has its own contract (C12-M)

            def run(cx, la=la, mk=mk, cls=cls, merge=merge):
                x, kids = mk("x")
                add = SymStr(name="add_head")
                tr = U.OpenRangeTransformer(merge_ranges=merge, add_head=add)
                stub = StubConv(tr.visit_iter)
                tr.visit_iter = stub
                wild_before = dict(U.OpenRangeTransformer.WILDCARD_WORD.__dict__)
                before = dict(x.__dict__)
                mark = len(cx.log)
                ctx0 = {"parents": ()}
                out = list(U.OpenRangeTransformer.visit_iter(tr, x, ctx0))
                key = "C12-C/%s/%s" % (la, "merge" if merge else "plain")
                if len(out) != 1 or not isinstance(out[0], T.Item):
                    return [(key + "/one-result", False)]
                y = out[0]
                results = list(stub.results)
                obls = [(key + "/fresh-node-same-position-and-layout", (y is not x or x is T.NONE_ITEM) and c08.layout_same(y, x)),
                        (key + "/input-untouched-and-shared-wildcard-untouched",
                         all(x.__dict__.get(k) is v for k, v in before.items()) and len(x.__dict__) == len(before)
                         and not [e for e in cx.log[mark:] if e[0] == "write" and any(e[1] is k_ for k_ in kids)]
                         and U.OpenRangeTransformer.WILDCARD_WORD.__dict__ == wild_before),
                        (key + "/no-comparison-left-here", not isinstance(y, T.OpenRange))]
                if cls in (T.From, T.To):
                    a = x.a
                    r = results[0] if results else None
                    is_from = cls is T.From
                    ok = (type(y) is T.Range and r is not None and (y.low is r if is_from else y.high is r))
                    obls.append((key + "/becomes-a-range-with-the-bound-and-a-wildcard-on-the-open-side", ok))
                    if ok:
                        w = y.high if is_from else y.low
                        obls.append((key + "/wildcard-is-a-fresh-star-word",
                                     type(w) is T.Word and w.value == "*" and w is not U.OpenRangeTransformer.WILDCARD_WORD))
                        obls.append((key + "/same-bound-and-inclusiveness",
                                     z3.And(B(y.include_low) == (B(x.include) if is_from else z3.BoolVal(True)),
                                            B(y.include_high) == (z3.BoolVal(True) if is_from else B(x.include)))))
                        obls.append((key + "/content-is-the-converted-bound",
                                     model.fp_of(y) == (model.CTOR["Range"](B(x.include), z3.BoolVal(True), conv(a.fp), STAR) if is_from
                                                        else model.CTOR["Range"](z3.BoolVal(True), B(x.include), STAR, conv(a.fp)))))
                        # separators around TO: low.tail and high.head get add_head appended, nothing else changes
                        obls.append((key + "/separator-added-around-TO-only",
                                     z3.And(S(y.low.tail) == S((a.tail if is_from else "") + add),
                                            S(y.high.head) == S(("" if is_from else a.head) + add),
                                            S(y.low.head) == S(a.head if is_from else ""),
                                            S(y.high.tail) == S("" if is_from else a.tail))))
                else:
                    children = list(x.children)
                    obls.append((key + "/copy: same type, children are the converted children in order",
                                 type(y) is type(x) and len(y.children) == len(results) == len(children)
                                 and all(p is q for p, q in zip(y.children, results))))
                    if type(y) is type(x) and len(y.children) == len(results):
                        exp = c10_expected(x, list(results))
                        obls.append((key + "/copy: same content", model.fp_of(y) == exp))
                    obls.append((key + "/copy: layout of children untouched",
                                 not [e for e in cx.log[mark:] if e[0] == "write" and any(e[1] is k_ for k_ in results)]))
                return obls
            cases.append(core.Case("C12-C/%s/%s" % (la, "merge" if merge else "plain"), run,
                                   functions=["luqum.utils.OpenRangeTransformer._visit_from_to",
                                              "luqum.utils.OpenRangeTransformer.visit_from",
                                              "luqum.utils.OpenRangeTransformer.visit_to",
                                              "luqum.visitor.TreeTransformer.generic_visit"]))
    return cases


def c10_expected(x, results):
    args = []
    for f, k in model.SPEC[type(x).__name__]:
        v = getattr(x, f)
        if k == "str":
            args.append(S(v))
        elif k == "bool":
            args.append(B(v))
        elif k == "num":
            args.append(model.num_term(v))
        elif k == "child":
            args.append(results.pop(0).fp)
        else:
            args.append(model.fpseq_of(results))
            results = []
    return model.CTOR[type(x).__name__](*args)


def side_cases():
    cases = []

    def run_range(cx):
        r, kids = model.make_instance(T.Range, "r", layout="none")
        tr = U.OpenRangeTransformer()
        got = tr._get_node_bound_side(r)
        lo_star = r.low.fp == STAR
        hi_star = r.high.fp == STAR
        exp_high = z3.And(lo_star, z3.Not(hi_star))
        exp_low = z3.And(z3.Not(lo_star), hi_star)
        return [("C12-S/bound_side/range: high-low-or-none by which bound is the wildcard word",
                 z3.And(z3.BoolVal(got == "high") == exp_high, z3.BoolVal(got == "low") == exp_low,
                        z3.BoolVal(got is None) == z3.Not(z3.Or(exp_high, exp_low))))]
    cases.append(core.Case("C12-S/range", run_range, functions=["luqum.utils.OpenRangeTransformer._get_node_bound_side"]))

    def run_other(cx):
        tr = U.OpenRangeTransformer()
        out = []
        for cls in model.UNIVERSE:
            if cls is T.Range:
                continue
            out.append(("C12-S/bound_side/non-range-is-none", tr._get_node_bound_side(c08.model_witness(cls)) is None))
        a = model.AbsNode("n", layout="none", classes=[c.__name__ for c in model.UNIVERSE if c is not T.Range])
        out.append(("C12-S/bound_side/non-range-is-none", tr._get_node_bound_side(a) is None))
        return out
    cases.append(core.Case("C12-S/other", run_other, functions=["luqum.utils.OpenRangeTransformer._get_node_bound_side"]))
    return cases


class Queue:
    """possible_ranges at an arbitrary loop head: empty, one element, or a front element, an unknown middle and a
    back element.  Only the two ends can be taken out."""
    __vf_symbolic__ = True

    def __init__(self, front, back, has_middle):
        self.front, self.back, self.has_middle = front, back, has_middle
        self.popped = None          # 'front' | 'back'
        self.appended = []

    def __bool__(self):
        n = 0 if self.front is None else (1 if self.back is self.front else 2)
        if self.popped:
            n -= 1
        return n > 0 or bool(self.appended) or bool(self.has_middle)

    def append(self, x):
        self.appended.append(x)

    def pop(self, i=-1):
        if self.front is None or self.popped or self.appended:
            raise EngineUnsupported("pop from a queue state that is not modelled")
        if i == 0:
            self.popped = "front"
            return self.front
        if i == -1:
            self.popped = "back"
            return self.back
        raise EngineUnsupported("Queue.pop(%r): only the two ends of the queue are modelled" % (i,))

    def __getattr__(self, k):
        if k.startswith("__") and k.endswith("__"):
            raise AttributeError(k)
        raise EngineUnsupported("Queue.%s is not modelled" % k)


class MergeCut:
    """cut-point of the merging loop.  For ONE arbitrary field value v (all atoms uninterpreted), with
    children = FIXED ++ queue elements (each queue element is an element of children, once):
      Inv:  AND_den(children) <=> consumed_den   and every queue element is a one-sided Range whose bound side is
            possible_ranges_bound_side.
    mode 'init': check Inv at the real loop entry.  mode 'step': start from an arbitrary state satisfying Inv, run ONE
    iteration on a generic converted operand, check Inv again.  mode 'exit': arbitrary state, no operand left."""

    def __init__(self, mode, cx, tr, x=None):
        self.mode, self.cx, self.tr, self.x = mode, cx, tr, x
        self.entered = False
        self.child = None

    def one_sided(self, name, side):
        """a concrete Range clone that is one-sided on `side` ('low': low bound set, high is the wildcard)"""
        r, kids = model.make_instance(T.Range, name, layout="none")
        if side == "low":
            self.cx.assume(z3.And(r.low.fp != STAR, r.high.fp == STAR))
        else:
            self.cx.assume(z3.And(r.low.fp == STAR, r.high.fp != STAR))
        return r

    def roles(self, loc):
        """the loop's state, found by what the variables hold at the loop head (not by name): the operation being built, the queue
        of open ranges (an empty list), the side the queue is open on (None)"""
        names = [n for n in loc if n != "self"]
        self.v_new = rewrite.state_variable(loc, names, lambda v: isinstance(v, T.BaseOperation) and v is not self.x, "the operation being built")
        self.v_queue = rewrite.state_variable(loc, names, lambda v: isinstance(v, list) and v == [], "the queue of ranges still open")
        self.v_side = rewrite.state_variable(loc, [n for n in names if n not in (self.v_new, self.v_queue)],
                                             lambda v: v is None, "the side the queue is open on")

    def enter(self, loc):
        self.entered = True
        cx = self.cx
        self.roles(loc)
        if self.mode == "init":
            nn = loc[self.v_new]
            raise PathStop([("C12-M/merge-loop/init: nothing consumed, no child, empty queue",
                             len(nn.children) == 0 and loc[self.v_queue] == [] and type(nn) is T.AndOperation)])
        nn = loc[self.v_new]
        self.nn = nn
        side_low = z3.Bool("queue_side_is_low")
        cx.register("queue_side_is_low", side_low)
        self.side = "low" if cx.decide(side_low) else "high"
        nonempty = z3.Bool("queue_nonempty")
        cx.register("queue_nonempty", nonempty)
        self.fixed_den = z3.Bool("den_of_fixed_children")
        self.rest_den = z3.Bool("den_of_rest_of_queue")
        self.consumed = z3.Bool("den_of_consumed_operands")
        fixed = model.Run("fixed", "AND")
        self.q0 = None
        if cx.decide(nonempty):
            front = self.one_sided("q0", self.side)
            more = z3.Bool("queue_has_more")
            cx.register("queue_has_more", more)
            if cx.decide(more):
                back = self.one_sided("qlast", self.side)
                mid = z3.Bool("queue_has_middle")
                cx.register("queue_has_middle", mid)
                has_mid = cx.decide(mid)
                self.queue = Queue(front, back, has_mid)
                nn.operands = model.RunTuple((fixed, front, back))
                if not has_mid:
                    cx.assume(self.rest_den)
            else:
                self.queue = Queue(front, front, False)
                nn.operands = model.RunTuple((fixed, front))
                cx.assume(self.rest_den)
            self.q0 = front
        else:
            self.queue = Queue(None, None, False)
            nn.operands = model.RunTuple((fixed,))
            cx.assume(self.rest_den)
        self.children_before = tuple(nn.operands)
        cx.assume(self.den_children() == self.consumed)      # Inv
        return {self.v_queue: self.queue, self.v_side: self.side}

    def den_children(self):
        conj = [self.fixed_den, self.rest_den]
        for ch in self.nn.operands:
            if isinstance(ch, model.Run):
                continue
            conj.append(den(ch))
        return z3.And(conj)

    def step(self, loc):
        if self.mode != "step":
            return
        child = self.child
        q = loc[self.v_queue]
        side = loc[self.v_side]
        obls = []
        consumed2 = z3.And(self.consumed, self.child_den)
        obls.append(("C12-M/merge-loop/step: conjunction of the kept operands is equivalent to the consumed ones",
                     self.den_children() == consumed2))
        # queue discipline
        kept = list(self.nn.operands)
        new_kids = [k for k in kept if not any(k is o for o in self.children_before)]
        ok = q is self.queue and all(k is child for k in new_kids) and len(new_kids) <= 1
        ok = ok and all(any(a is k for k in kept) for a in self.queue.appended)
        if self.queue.popped:
            ok = ok and not new_kids and not self.queue.appended       # merged: the operand is dropped, the front leaves the queue
        obls.append(("C12-M/merge-loop/step: queue elements are kept children, a merged operand is dropped", ok))
        sides = []
        for a in self.queue.appended:
            s_ = self.tr._get_node_bound_side(a)
            sides.append(s_ is not None and s_ == side)
        if self.queue.appended and self.q0 is not None:
            sides.append(side == self.side)
        obls.append(("C12-M/merge-loop/step: queued ranges are one-sided on the recorded side", all(sides)))
        raise PathStop(obls)


def merge_cases():
    cases = []

    def arrange(cx, mode, child_kind):
        x = T.AndOperation(pos=sym.SymInt(name="pos"), size=sym.SymInt(name="size"), head=SymStr(name="head"), tail=SymStr(name="tail"))
        tr = U.OpenRangeTransformer(merge_ranges=True, add_head=SymStr(name="add_head"))
        cut = MergeCut(mode, cx, tr, x)

        def fake_clone_children(node, new_node, context):
            # the operands, already converted (contract of the sub-term visits): generic element(s)
            if mode == "exit" or mode == "init":
                return iter(())
            if child_kind == "range":
                c, _ = model.make_instance(T.Range, "c", layout="none")
            else:
                c = model.AbsNode("c", layout="none", classes=[k.__name__ for k in model.UNIVERSE if k is not T.Range])
            cut.child_den = den(c)
            cut.child = c
            return iter([c])
        tr.clone_children = fake_clone_children
        return x, tr, cut

    for mode, kinds in (("init", [None]), ("step", ["range", "other"]), ("exit", [None])):
        for kind in kinds:
            def run(cx, mode=mode, kind=kind):
                x, tr, cut = arrange(cx, mode, kind)
                # the handler the transformer dispatches an AND to, whatever its name
                handler = getattr(type(tr)._get_method(tr, x), "__func__", None)
                if handler is None or not getattr(handler, "__module__", "").startswith("luqum"):
                    raise EngineUnsupported("no handler of OpenRangeTransformer for AndOperation could be resolved")
                key = "%s.%s#0" % (handler.__module__, handler.__qualname__)
                rewrite.WHILE_CUTS[key] = cut
                try:
                    out = list(handler(tr, x, {"parents": ()}))
                finally:
                    rewrite.WHILE_CUTS.pop(key, None)
                if not cut.entered:
                    raise EngineUnsupported("the loop under a cut-point contract was not reached: the code was restructured")
                if mode != "exit":
                    return [("C12-M/merge-loop/%s: stopped at the cut" % mode, False)]
                y = out[0] if len(out) == 1 else None
                return [("C12-M/merge-loop/exit: one AND node with the original position and layout",
                         y is not None and type(y) is T.AndOperation and y is cut.nn and c08.layout_same(y, x) and y is not x),
                        ("C12-M/merge-loop/exit: its conjunction is equivalent to the conjunction of all operands",
                         cut.den_children() == cut.consumed),
                        ("C12-M/merge-loop/exit: children unchanged by the code after the loop",
                         tuple(y.operands) == cut.children_before if y is not None else False)]
            cases.append(core.Case("C12-M/%s%s" % (mode, ("/" + kind) if kind else ""), run,
                                   functions=["luqum.utils.OpenRangeTransformer.visit_and_operation"]))

    def run_off(cx):
        """merging off: the AND handler is the default copy"""
        x, kids = model.make_instance(T.AndOperation, "x", layout="sym", nops=3)
        tr = U.OpenRangeTransformer(merge_ranges=False)
        stub = StubConv(tr.visit_iter)
        tr.visit_iter = stub
        y, = U.OpenRangeTransformer.visit_iter(tr, x, {"parents": ()})
        return [("C12-M/merging-off: AND is copied with all its operands",
                 type(y) is T.AndOperation and len(y.operands) == 3 and all(a is b for a, b in zip(y.operands, stub.results)))]
    cases.append(core.Case("C12-M/off", run_off, functions=["luqum.utils.OpenRangeTransformer.visit_and_operation"]))
    return cases


REPLAY_CODE = '''
from luqum.utils import OpenRangeTransformer
from luqum.parser import parser
import itertools
problems = []
DOM = [0, 1, 2, 3, 4]
def val(w):
    return {'a': 1, 'b': 2, 'c': 3, 'd': 1, 'e': 3}.get(str(w.value), 2)
def holds(n, v):
    nm = type(n).__name__
    if nm == 'Range':
        lo = True if n.low.value == '*' else (v >= val(n.low) if n.include_low else v > val(n.low))
        hi = True if n.high.value == '*' else (v <= val(n.high) if n.include_high else v < val(n.high))
        return lo and hi
    if nm == 'From':
        return v >= val(n.a) if n.include else v > val(n.a)
    if nm == 'To':
        return v <= val(n.a) if n.include else v < val(n.a)
    if nm == 'AndOperation':
        return all(holds(c, v) for c in n.children)
    if nm in ('OrOperation', 'UnknownOperation'):
        return any(holds(c, v) for c in n.children)
    if nm in ('Group', 'Boost', 'FieldGroup', 'SearchField', 'Plus'):
        return holds(n.children[0], v)
    if nm in ('Not', 'Prohibit'):
        return not holds(n.children[0], v)
    if nm == 'Word':
        return v == val(n)
    return True
atoms = ['>a', '>=b', '<c', '<=e', '[a TO *]', '{* TO c]', '[b TO c]', '[* TO *]', 'b', '(>a)^2', 'f:>b', '>"p"']
queries = []
for k in (1, 2, 3, 4):
    for combo in itertools.permutations(atoms[:9], k) if k <= 2 else itertools.combinations(atoms, k):
        queries.append(' AND '.join(combo))
queries += ['>a OR <c', '>a <c', '(>a AND <c) OR (>=b AND <=e)', '>a AND (<c OR b) AND <=e', 'NOT >a AND <c', '>a^2 AND <c^2', 'f:>a AND f:<c',
            '>a AND >=b AND <c AND <=e AND >d', '<c AND <=e AND >a', '@@X@@']
for q in queries:
    try:
        t = parser.parse(q)
    except Exception:
        continue
    f0, l0 = fingerprint(t), layout(t)
    for merge in (False, True):
        y = OpenRangeTransformer(merge_ranges=merge)(t)
        if any(type(n).__name__ in ('From', 'To') for n in nodes(y)):
            problems.append('%r merge=%s: comparison left in %r' % (q, merge, str(y)))
        for v in DOM:
            if holds(t, v) != holds(y, v):
                problems.append('%r merge=%s -> %r differs for value %d' % (q, merge, str(y), v))
                break
        if not merge:
            def conv(n):
                nm = type(n).__name__
                if nm == 'From':
                    return ('Range', (('include_low', n.include), ('include_high', True)), (conv(n.a), ('Word', (('value', '*'),), ())))
                if nm == 'To':
                    return ('Range', (('include_low', True), ('include_high', n.include)), (('Word', (('value', '*'),), ()), conv(n.a)))
                f = fingerprint(n)
                attrs = f[1]
                if nm == 'Range':
                    attrs = tuple(sorted(attrs))
                return (f[0], attrs, tuple(conv(c) for c in n.children))
            def norm(f):
                return (f[0], tuple(sorted(f[1])), tuple(norm(c) for c in f[2]))
            if norm(fingerprint(y)) != norm(conv(t)):
                problems.append('%r: conversion changed something else: %r' % (q, str(y)))
        if merge:
            # only one-sided ranges that are direct operands of the same AND may be combined
            def count(n):
                return sum(1 for m in nodes(n) if type(m).__name__ in ('Range', 'From', 'To'))
            if not any(type(n).__name__ == 'AndOperation' for n in nodes(t)) and count(y) != count(t):
                problems.append('%r: ranges merged without an AND' % q)
        if fingerprint(t) != f0 or layout(t) != l0:
            problems.append('%r: input modified' % q)
    if len(problems) > 3:
        break
violated = bool(problems)
observation = '; '.join(problems[:3]) or 'as specified'
'''


def replay_builder(rec):
    from vfkit import witness
    return [{"kind": "script", "code": witness.PRELUDE + REPLAY_CODE.replace("@@X@@", ">a AND <c")}]


def canary():
    def run(cx):
        x, _ = model.make_instance(T.From, "x")
        tr = U.OpenRangeTransformer(add_head=SymStr(name="add_head"))
        stub = StubConv(tr.visit_iter)
        tr.visit_iter = stub
        y, = U.OpenRangeTransformer.visit_iter(tr, x, {"parents": ()})
        return [("canary/converted-range-is-exclusive", z3.Not(B(y.include_low)))]
    return core.Case("canary/convert", run, canary=True)


LOOPS = [("luqum.visitor.TreeTransformer.clone_children", 0)]


def plan(tier, seed):
    pl = Plan("C12", "proof")
    pl.cases = conversion_cases() + side_cases() + merge_cases()
    pl.canaries = [canary()]
    pl.finite = [("C12-U/uniform-loops", lambda: uniform.check(LOOPS))]
    from vfkit import lean as _leanc
    pl.finite.append(("A6/Lean re-check of the composition lemmas L-IND", _leanc.compose_check('L-IND')))

    def sweep():
        return bounded.run_native("c12_merge", {"max_operands": 4 if tier == "quick" else 7,
                                                "known": bounded.known_for("C12", "C12-B")})
    pl.bounded = [("C12-B/conjunction-preserved on a finite ordered domain (cross-check of the invariant, safety net)", sweep)]
    pl.functions = ["luqum.utils.OpenRangeTransformer." + f for f in
                    ("__init__", "_get_node_bound_side", "visit_and_operation", "_visit_from_to", "visit_from", "visit_to", "__call__")] + \
                   ["luqum.visitor.TreeTransformer.generic_visit", "luqum.visitor.TreeTransformer.clone_children"]
    pl.min_obligations = len(model.UNIVERSE) * 6
    pl.replay_builder = replay_builder
    pl.assumptions = c01.ASSUMPTIONS
    pl.trusted_base = c01.TRUSTED
    pl.lemmas = ["L-IND (Lean: lemmas/Compose.lean fold_ind; model link assumed): Res12 per class => every comparison is replaced by a range with the same bound and "
                 "inclusiveness and * on the other side, nothing else changes, no comparison is left, input untouched",
                 "merge loop (cut-point invariant, for one arbitrary field value with uninterpreted bound atoms, hence for every "
                 "value and every ordering of values): init / step on a generic converted operand (one-sided same side, "
                 "opposite side, other) / exit => the conjunction holds before exactly when it holds after",
                 "locality: with merging on only the AND handler differs from the conversion contract (C12-C runs every other "
                 "class with merge_ranges=True) and it inspects only its own direct converted operands through "
                 "_get_node_bound_side (C12-S): ranges under OR / implicit / other parents / inside a boost or field are never combined"]
    pl.claim = ("conversion proved per class for all attribute values; merging proved with a loop invariant over an unbounded "
                "number of operands, semantically (for every field value).")
    return pl
