"""C10 — UnknownOperationResolver replaces exactly the implicit operations.  DESIGN 3.C10."""
import z3

from vfkit import core, model, sym, uniform
from vfkit.check import Plan
from vfkit.sym import EngineUnsupported, S, SymBool, SymStr, ctx

from . import c01, c08, c09, treecases

import luqum.tree as T
import luqum.utils as U

relabel = z3.Function("relabel", model.FP, model.FP)                 # the resolved fingerprint of a subtree
relabel_seq = z3.Function("relabel_seq", model.FPSeq, model.FPSeq)   # pointwise lifting (L-M)


class StubResolve:
    """visit of a strict sub-term by its contract Res(child, r): r is fresh, has the child's layout, and
    fp(r) = relabel(fp(child)); its text is unknown (separators may have been inserted below)"""

    def __init__(self, real):
        self.calls = []
        self.results = []
        self.real = real

    def __call__(self, node, context):
        if isinstance(node, model.Run):
            self.calls.append((node, context, dict(context)))
            r = model.Run("res%d" % len(self.calls), node.op)
            cx = ctx()
            cx.assume(r.fpseq == relabel_seq(node.fpseq))
            cx.assume(r.count.t == node.count.t)
            self.results.append(r)
            return iter([r])
        if isinstance(node, model.AbsNode):
            self.calls.append((node, context, dict(context)))
            r = model.AbsNode("res%d" % len(self.calls), layout="none")
            d = r.__dict__
            for k in ("head", "tail", "pos", "size"):
                d[k] = node.__dict__[k]
            ctx().assume(r.fp == relabel(node.fp))
            self.results.append(r)
            return iter([r])
        return self.real(node, context)


TARGETS = {"And": T.AndOperation, "Or": T.OrOperation, "Bool": T.BoolOperation}


def expected_fp(x, cls_name, results):
    """relabel at this node: same constructor (Unknown -> target), own attributes, children's resolved fps"""
    args = []
    for f, k in model.SPEC[type(x).__name__]:
        v = getattr(x, f)
        if k == "str":
            args.append(S(v))
        elif k == "bool":
            args.append(sym.B(v))
        elif k == "num":
            args.append(model.num_term(v))
        elif k == "child":
            args.append(results.pop(0).fp)
        else:
            args.append(model.fpseq_of(results))
            results = []
    return model.CTOR[cls_name](*args)


def resolver_cases():
    cases = []
    for la, mk, cls in treecases.instances(layout="sym", ops_shapes=(0, 1, 2, 3)):
        for tname in ("And", "Or", "Bool", "None-empty", "None-or", "None-and"):
            def run(cx, la=la, mk=mk, cls=cls, tname=tname):
                x, kids = mk("x")
                add = SymStr(name="add_head")
                target = TARGETS.get(tname)
                R = U.UnknownOperationResolver(resolve_to=target, add_head=add)
                stub = StubResolve(R.visit_iter)
                R.visit_iter = stub
                holder = T.Group(T.Word("holder"))
                parents = (holder,)
                lastop = {}
                if tname == "None-or":
                    lastop = {id(holder): T.OrOperation}
                elif tname == "None-and":
                    lastop = {id(holder): T.AndOperation}
                ctx0 = {"parents": parents}
                if tname != "None-empty":
                    ctx0["last_operation"] = lastop
                lastop_before = dict(lastop)
                snap = dict(ctx0)
                before = dict(x.__dict__)
                mark = len(cx.log)
                out = list(U.UnknownOperationResolver.visit_iter(R, x, ctx0))
                key = "C10-R/%s/%s" % (la, tname)
                if len(out) != 1 or not isinstance(out[0], T.Item):
                    return [(key + "/one-result", False)]
                y = out[0]
                is_unknown = cls is T.UnknownOperation
                if is_unknown:
                    if target is not None:
                        exp_cls = target
                    else:
                        exp_cls = {"None-empty": T.AndOperation, "None-or": T.OrOperation, "None-and": T.AndOperation}[tname]
                else:
                    exp_cls = cls
                children = list(x.children)
                results = list(stub.results)
                obls = [(key + "/one-result", True),
                        (key + "/type: unchanged unless implicit, then the target", type(y) is exp_cls),
                        (key + "/fresh-node", y is not x or x is T.NONE_ITEM),
                        (key + "/same-position-and-layout", c08.layout_same(y, x)),
                        (key + "/children-are-the-resolved-children-in-order",
                         len(y.children) == len(results) == len(children) and
                         all(a is b for a, b in zip(y.children, results)) and
                         all(c[0] is ch for c, ch in zip(stub.calls, children))),
                        (key + "/no-implicit-operation-left-here", type(y) is not T.UnknownOperation),
                        (key + "/input-untouched",
                         all(x.__dict__.get(k) is v for k, v in before.items()) and len(x.__dict__) == len(before)
                         and not [e for e in cx.log[mark:] if e[0] == "write" and any(e[1] is k_ for k_ in kids)])]
                if type(y) is exp_cls and len(y.children) == len(results):
                    obls.append((key + "/content-is-the-relabelled-input",
                                 model.fp_of(y) == expected_fp(x, exp_cls.__name__, list(results))))
                # separators: only the heads of the 2nd.. operands of a RESOLVED node change, by add_head in front
                conj = []
                ok = True
                writes = [e for e in cx.log[mark:] if e[0] == "write" and any(e[1] is k_ for k_ in results)]
                for j, (ch, r) in enumerate(zip(children, results)):
                    if isinstance(r, model.Run):
                        ups = r.__dict__.get("updates", {})
                        if is_unknown:
                            ok = ok and set(ups) == {"head_prefix"} and ups["head_prefix"] is add
                        else:
                            ok = ok and not ups
                        continue
                    if is_unknown and j >= 1:
                        conj.append(S(r.head) == S(add + ch.head))
                    else:
                        ok = ok and c09.same(r.head, ch.head)
                    ok = ok and all(c09.same(getattr(r, k), getattr(ch, k)) for k in ("tail", "pos", "size"))
                ok = ok and all(e[2] == "head" for e in writes)
                obls.append((key + "/layout-changes-only-by-add_head-before-2nd-and-later-operands-of-a-resolved-node",
                             z3.And([z3.BoolVal(ok)] + conj) if conj else ok))
                # context: not mutated except the documented "last_operation" entry
                extra = set(ctx0) - set(snap)
                obls.append((key + "/context-not-mutated-except-last_operation",
                             extra <= {"last_operation"} and all(ctx0[k] is snap[k] for k in snap)))
                # Lucene mode bookkeeping
                lo = ctx0.get("last_operation", {})
                if target is None:
                    explicit = cls in (T.OrOperation, T.AndOperation)
                    if explicit:
                        obls.append((key + "/lucene: remembers exactly this explicit operator for its level",
                                     lo == {**lastop_before, id(holder): cls}))
                    else:
                        obls.append((key + "/lucene: nothing remembered by a non-operator",
                                     lo == lastop_before))
                    obls.append((key + "/lucene: values are classes of explicit operations",
                                 all(v in (T.OrOperation, T.AndOperation) for v in lo.values())))
                else:
                    obls.append((key + "/explicit-target: no bookkeeping", "last_operation" not in ctx0 or lo == lastop_before))
                # idempotence / degenerate case: with children that are copies, a non-implicit node is copied
                if not is_unknown and cls is not T.NoneItem:
                    hyp = []
                    for ch, r in zip(children, results):
                        if isinstance(r, model.Run):
                            hyp.append(z3.And(r.jointext.t == ch.jointext.t, r.fpseq == ch.fpseq))
                        else:
                            hyp.append(z3.And(r.core.t == ch.core.t, r.fp == ch.fp))
                    H = z3.And(hyp) if hyp else z3.BoolVal(True)
                    obls.append((key + "/without-implicit-operations-the-result-is-a-copy",
                                 z3.Implies(H, z3.And(S(model.text(y)) == S(model.text(x)), model.fp_of(y) == model.fp_of(x)))))
                return obls
            cases.append(core.Case("C10-R/%s/%s" % (la, tname), run,
                                   functions=["luqum.utils.UnknownOperationResolver.visit_unknown_operation",
                                              "luqum.utils.UnknownOperationResolver.visit_or_operation",
                                              "luqum.utils.UnknownOperationResolver.visit_and_operation"]))

    def run_init(cx):
        bad = []
        for v in (T.UnknownOperation, T.Word, "AND", 1):
            try:
                U.UnknownOperationResolver(resolve_to=v)
                bad.append(v)
            except ValueError:
                pass
        ok = all(U.UnknownOperationResolver(resolve_to=v).resolve_to is v for v in (None, T.AndOperation, T.OrOperation, T.BoolOperation))
        r = U.UnknownOperationResolver()
        return [("C10-R/init/rejects-other-targets", not bad), ("C10-R/init/accepts-the-four-targets", ok),
                ("C10-R/init/tracks-parents-and-default-is-AND", r.track_parents is True and r.DEFAULT_OPERATION is T.AndOperation)]
    cases.append(core.Case("C10-R/init", run_init, functions=["luqum.utils.UnknownOperationResolver.__init__"]))

    def run_first_nonop(cx):
        R = U.UnknownOperationResolver()
        g, o, a = T.Group(T.Word("x")), T.OrOperation(T.Word("a"), T.Word("b")), T.AndOperation(T.Word("a"), T.Word("b"))
        return [("C10-L/first_nonop_parent/key-identifies-a-non-operation-ancestor-or-None",
                 R._first_nonop_parent(()) is None and R._first_nonop_parent((o, a)) is None and
                 R._first_nonop_parent((g,)) == id(g) and R._first_nonop_parent((o, g, a)) == id(g))]
    cases.append(core.Case("C10-L/first_nonop_parent", run_first_nonop,
                           functions=["luqum.utils.UnknownOperationResolver._first_nonop_parent"]))
    return cases


LOOPS = [("luqum.utils.UnknownOperationResolver.visit_unknown_operation", 0),
         ("luqum.visitor.TreeTransformer.clone_children", 0)]


def replay_builder(rec):
    from vfkit import witness
    name = rec["obligation"]
    m = rec.get("model") or {}
    parts = name.split("/")
    la = parts[1] if len(parts) >= 3 and parts[1] not in ("init",) and not name.startswith("C10-L") else "UnknownOperation.ops2"
    tname = parts[2] if len(parts) >= 3 else "And"
    add = m.get("add_head") or " "
    code = witness.PRELUDE + "from luqum.utils import UnknownOperationResolver\nimport copy\n" \
        "x = T.Group(T.UnknownOperation(%s, T.Word('z', head=' '), pos=3, size=5, head=' ', tail='   '), tail=' ')\nadd = %r\n" % (witness.instance_code(la, "x", m), add) + \
        "def relabel(n, target):\n" \
        "    kids = tuple(relabel(c, target) for c in n.children)\n" \
        "    nm = type(n).__name__\n" \
        "    if nm == 'UnknownOperation':\n        nm = target\n" \
        "    return (nm, fingerprint(n)[1], kids)\n" \
        "problems = []\n" \
        "for target, tn in ((T.AndOperation, 'AndOperation'), (T.OrOperation, 'OrOperation'), (T.BoolOperation, 'BoolOperation'), (None, None)):\n" \
        "    fx, lx, tx = fingerprint(x), layout(x), x.__str__(head_tail=True)\n" \
        "    ids = {id(n) for n in nodes(x)}\n" \
        "    y = UnknownOperationResolver(target, add_head=add)(x)\n" \
        "    fy = fingerprint(y)\n" \
        "    def strip(f):\n        return (f[0] if f[0] not in ('AndOperation','OrOperation') or tn else 'X', f[1], tuple(strip(k) for k in f[2]))\n" \
        "    if any(type(n).__name__ == 'UnknownOperation' for n in nodes(y)):\n        problems.append('%s: implicit operation left' % tn)\n" \
        "    if tn and fy != relabel(x, tn):\n        problems.append('%s: result %r is not the input with implicit operations relabelled' % (tn, y))\n" \
        "    if not tn and (relabel(y, 'A') != fy or [type(a).__name__ for a in nodes(y) if not isinstance(a, T.BaseOperation)] != [type(a).__name__ for a in nodes(x) if not isinstance(a, T.BaseOperation)]):\n        problems.append('lucene mode: structure changed %r' % y)\n" \
        "    if (y.pos, y.size, y.head, y.tail) != (x.pos, x.size, x.head, x.tail) or [(n.pos, n.size, n.tail) for n in nodes(y)] != [(n.pos, n.size, n.tail) for n in nodes(x)]:\n        problems.append('%s: positions / tails changed' % tn)\n" \
        "    for a, b in zip(nodes(x), nodes(y)):\n" \
        "        for j, (ca, cb) in enumerate(zip(a.children, b.children)):\n" \
        "            want = (add + ca.head) if (type(a).__name__ == 'UnknownOperation' and j >= 1) else ca.head\n" \
        "            if cb.head != want:\n                problems.append('%s: head of operand %d of %r is %r, expected %r' % (tn, j, a, cb.head, want))\n" \
        "    if any(id(n) in ids for n in nodes(y)) or fingerprint(x) != fx or layout(x) != lx:\n        problems.append('%s: input shared or modified' % tn)\n" \
        "    z = UnknownOperationResolver(target, add_head=add)(y)\n" \
        "    if z != y or z.__str__(head_tail=True) != y.__str__(head_tail=True):\n        problems.append('%s: resolving again changed the tree' % tn)\n" \
        "plain = T.Group(T.UnknownOperation(T.Word('a'), T.UnknownOperation(T.Word('b'), T.Word('c'))))\n" \
        "for hb in (T.BoolOperation(T.Plus(T.Word('a')), T.UnknownOperation(T.Word('b'), T.Word('c'))), T.UnknownOperation(T.BoolOperation(T.Word('a'), T.Word('d')), T.UnknownOperation(T.Word('b'), T.Word('c'))), T.OrOperation(T.Word('a'), T.UnknownOperation(T.Word('b'), T.Word('c')))):\n" \
        "    r = UnknownOperationResolver(None)(hb)\n" \
        "    changed = [type(b).__name__ for a, b in zip(nodes(hb), nodes(r)) if type(a).__name__ == 'UnknownOperation']\n" \
        "    if any(c not in ('AndOperation', 'OrOperation') for c in changed):\n        problems.append('lucene mode: %r resolved to %r (an implicit operation must become AND or OR)' % (hb, r))\n" \
        "if any(type(n).__name__ == 'OrOperation' for n in nodes(UnknownOperationResolver(None)(plain))):\n    problems.append('lucene mode: OR chosen although the query has no explicit operator')\n" \
        "violated = bool(problems)\nobservation = '; '.join(problems[:3]) or 'resolved as specified'\n"
    return [{"kind": "script", "code": code}]


def canary():
    def run(cx):
        x, _ = model.make_instance(T.UnknownOperation, "x", nops=2)
        R = U.UnknownOperationResolver(resolve_to=T.AndOperation, add_head=SymStr(name="add_head"))
        stub = StubResolve(R.visit_iter)
        R.visit_iter = stub
        y, = U.UnknownOperationResolver.visit_iter(R, x, {"parents": ()})
        return [("canary/second-operand-head-unchanged", S(y.children[1].head) == S(x.children[1].head))]
    return core.Case("canary/resolver", run, canary=True)


def plan(tier, seed):
    pl = Plan("C10", "proof")
    pl.cases = resolver_cases()
    pl.canaries = [canary()]
    pl.finite = [("C10-U/uniform-loops", lambda: uniform.check(LOOPS))]
    from vfkit import lean as _leanc
    pl.finite.append(("A6/Lean re-check of the composition lemmas L-IND", _leanc.compose_check('L-IND')))
    ntok = 4 if tier == "quick" else 6

    def net():
        from vfkit import bounded as _b
        return _b.run_native("c10_resolver", {"max_tokens": ntok, "known": _b.known_for("C10", "C10-B")})
    pl.bounded = [("C10-B/resolved tree node by node, fixed point, fresh vs long-lived resolver (safety net)", net)]
    from vfkit import lean as _lean
    pl.finite.append(("A5/Lean re-check of the lifting lemmas for operand runs", _lean.lemma_check))
    pl.functions = ["luqum.utils.UnknownOperationResolver." + f for f in
                    ("__init__", "_last_operation", "_first_nonop_parent", "_track_last_op", "_get_last_op",
                     "visit_or_operation", "visit_and_operation", "visit_unknown_operation", "__call__")] + \
                   ["luqum.visitor.TreeTransformer.generic_visit", "luqum.visitor.TreeTransformer.clone_children"]
    pl.min_obligations = len(model.UNIVERSE) * 6 * 6
    pl.replay_builder = replay_builder
    pl.assumptions = c01.ASSUMPTIONS
    pl.trusted_base = c01.TRUSTED
    pl.lemmas = ["L-IND (Lean: lemmas/Compose.lean fold_ind; model link assumed): Res(x, y) per class with children stubbed by Res gives, for every tree: no implicit "
                 "operation left, every other node keeps type, content, position and order, fp(y) = relabel(fp(x)) "
                 "(so any compositional boolean meaning read 'implicit = target' is preserved), layout changes only by "
                 "add_head in front of the 2nd.. operands of resolved nodes, input untouched",
                 "idempotence: a tree without implicit operations is copied (degenerate Res = Copy), so resolving twice "
                 "equals resolving once",
                 "Lucene mode (paper, from the bookkeeping obligations): the remembered-operator dict only ever holds "
                 "classes of explicit operations already visited, hence it stays empty on a tree without explicit "
                 "operators and every implicit operation becomes AND; in general each becomes AND or OR"]
    pl.claim = ("per class x 6 resolver configurations (three explicit targets; Lucene mode with empty / OR / AND memory), "
                "all attribute values, any add_head string, any number of operands.")
    return pl
