"""C06 — each query term becomes exactly one ES clause: field, value, kind, name; plain JSON; call-history independent.
DESIGN 3.C06: leaf table and frames proved, whole result bounded."""
from vfkit import bounded, core
from vfkit.check import Plan

from . import c01, c05, eshelpers as H

QUERIES = ["a", "t:b", "a*", "t:*", "\"p  q\"", "t:\"u v\"~2", "h~", "k^2.5", "t:[* TO 5]", "t:{1 TO *}", "a AND t:b", "NOT t:y", "+t:y f",
           "n.x:d", "n:(x:d^2)", "t:(y AND z)", "(a b)^3"]


def plan(tier, seed):
    pl = Plan("C06", "exploration")
    pl.cases = H.leaf_cases() + H.visit_leaf_cases()
    n = 2 if tier == "quick" else 3

    def leaves():
        return bounded.run_native("c06_es", {"max_leaves": n, "partial_every": 3 if tier == "quick" else 1, "known": bounded.known_for("C06", "C06-B")})
    pl.bounded = [("C06-B/leaf clauses of the whole result = leaves predicted from the tree; plain JSON; history independent", leaves)]
    pl.functions = ["luqum.elasticsearch.tree.AbstractEItem." + f for f in ("__init__", "json", "field", "fuzziness", "method", "_value_has_wildcard_char", "_is_analyzed")] + \
                   ["luqum.elasticsearch.tree.EWord.json", "luqum.elasticsearch.tree.EPhrase.__init__", "luqum.elasticsearch.tree.EPhrase.slop",
                    "luqum.elasticsearch.tree.ERange.__init__", "luqum.elasticsearch.tree.AbstractEMustOperation.__init__"] + \
                   ["luqum.elasticsearch.visitor.ElasticsearchQueryBuilder." + f for f in
                    ("_fields", "get_name", "_propagate_name", "generic_visit", "visit_word", "visit_phrase", "visit_range", "visit_boost",
                     "visit_fuzzy", "visit_proximity")]
    pl.min_obligations = 20
    pl.replay_builder = c05.replay_builder_for("c06_es", QUERIES)
    pl.assumptions = c01.ASSUMPTIONS
    pl.trusted_base = c01.TRUSTED + ["bounded/c06_es.py predict() (leaf table written from the statement and the class documentation)"]
    pl.lemmas = ["C06-L (proved for every word text): the clause of a word item is the documented one (exists for *, wildcard / query_string "
                 "for unescaped * or ?, term / match / match_phrase otherwise, per-field options merged, match_type / type overriding the "
                 "match kind, fuzziness / boost / _name, zero_terms_query 'all' only when a must clause owns the item); phrases and ranges "
                 "on concrete tables; C06-F: no class-level state is written (history independence of the items)",
                 "C06-B (BOUNDED): multiset equality of leaf clauses over the corpus x configurations, plain JSON, identical results on "
                 "repeated and fresh builders"]
    pl.claim = "leaf table and frames proved; 'exactly once over the whole query' bounded (exploration)."
    return pl
