"""C20 — LuceneCheck is total, consistent, and finds an ill-formed construct anywhere.  DESIGN 3.C20."""
import z3

from vfkit import core, ext, frame, model, sym
from vfkit.check import Plan
from vfkit.sym import EngineUnsupported, PathStop, S, SymBool, SymInt, SymStr, ctx

from . import c01, c08, treecases

import luqum.tree as T
import luqum.check as CK

# math.copysign (external): sign(x) < 0  <=>  x < 0 for the numbers luqum builds (negative zero is not modelled)
_real_sign = getattr(CK, "sign", None)       # an implementation detail of the checker: hooked when present, not required


def _sign(x):
    if isinstance(x, (model.SymReal, ext.SymNum, sym.SymInt)):
        return ext.SymFloat(z3.If(ext._real_of(x) < 0, z3.RealVal(-1), z3.RealVal(1)))
    return _real_sign(x)


if _real_sign is not None:
    CK.sign = _sign

from vfkit import relang as RL
WORD_RX = ext.full_language_rx(r"\w+")
WORD_RE = RL.to_z3(WORD_RX)
WORD_NL_RE = RL.to_z3(RL.cat(WORD_RX, RL.opt(RL.lit("\n"))))
SPACE_IN = RL.to_z3(ext.contains_rx(ext.full_language_rx(r"\s")))
PITFALL_IN = RL.to_z3(ext.contains_rx(ext.full_language_rx(r"[+/-]")))
VALUE_CLASSES = ("Word", "Phrase", "Regex", "Range", "Fuzzy", "Proximity", "Boost", "FieldGroup", "From", "To")
PROPAGATING = ("AndOperation", "OrOperation", "UnknownOperation", "BoolOperation", "Group", "FieldGroup",
               "SearchField", "Boost", "Plus", "Not", "Prohibit")
#: not Lucene constructs (placeholder / abstract bases): only totality is required of them
NOT_CONSTRUCTS = ("NoneItem", "Term", "BaseGroup")


class Dirty:
    """stands for 'one or more messages' produced by the check of a strict sub-term"""

    def __repr__(self):
        return "<messages of a child>"


def class_of_child(ch):
    """python-level class test on an abstract child through the engine's isinstance"""
    return ch


def in_field_position(parents):
    """spec (from the statement: a field group is in place when it is what a field name applies to; the parser builds
    `field:(a b)^2` as SearchField > Boost > FieldGroup, so boosts may sit in between): the nearest ancestor that is not a
    boost is a field"""
    import itertools
    rest = list(itertools.dropwhile(lambda q: isinstance(q, T.Boost), reversed(list(parents))))
    return bool(rest) and isinstance(rest[0], T.SearchField)


def wf_local(x, parents, zeal):
    """spec (from the statement): the node itself is a well-formed construct in this position"""
    n = type(x).__name__
    conj = []
    if n in ("Word", "Term") and n == "Word":
        conj.append(z3.Not(z3.InRe(S(x.value), SPACE_IN)))
        if zeal:
            conj.append(z3.Not(z3.InRe(S(x.value), PITFALL_IN)))
    if n == "Fuzzy":
        conj.append(model.num_term(x.degree) >= 0)
        conj.append(model.is_class(x.term.fp, ["Word"]))
    if n == "Proximity":
        conj.append(model.is_class(x.term.fp, ["Phrase"]))
    if n == "SearchField":
        conj.append(z3.InRe(S(x.name), WORD_RE))
        conj.append(model.is_class(x.expr.fp, VALUE_CLASSES))
    if n == "Group":
        conj.append(z3.BoolVal(not (parents and isinstance(parents[-1], T.SearchField))))
    if n == "FieldGroup":
        conj.append(z3.BoolVal(in_field_position(parents)))
    if n in ("Not", "Prohibit") and zeal:
        conj.append(z3.BoolVal(not (parents and isinstance(parents[-1], T.OrOperation))))
    return z3.And(conj) if conj else z3.BoolVal(True)


def ill_formed(x, parents):
    """spec: the node is one of the listed ill-formed constructs (zeal independent)"""
    n = type(x).__name__
    dis = []
    if n == "Word":
        dis.append(z3.InRe(S(x.value), SPACE_IN))
    if n == "Fuzzy":
        dis.append(model.num_term(x.degree) < 0)
        dis.append(z3.Not(model.is_class(x.term.fp, ["Word"])))
    if n == "Proximity":
        dis.append(z3.Not(model.is_class(x.term.fp, ["Phrase"])))
    if n == "SearchField":
        dis.append(z3.Not(z3.InRe(S(x.name), WORD_NL_RE)))
        dis.append(z3.Not(model.is_class(x.expr.fp, VALUE_CLASSES)))
    if n == "Group":
        dis.append(z3.BoolVal(bool(parents) and isinstance(parents[-1], T.SearchField)))
    if n == "FieldGroup":
        dis.append(z3.BoolVal(not in_field_position(parents)))
    return z3.Or(dis) if dis else z3.BoolVal(False)


FG_WHILE_KEY = "luqum.check.LuceneCheck.check_field_group#while0"


class AbsParents:
    """the ancestors of a node as an abstract list: symbolic length n >= 0, the class of the i-th ancestor is that of
    fp_at(i) (uninterpreted).  Read-only: any other use than len / index / `+ [item]` is loud."""
    __vf_symbolic__ = True

    def __init__(self, cx):
        self.n = SymInt(name="n_parents")
        cx.assume(self.n.t >= 0)
        self.fp_at = z3.Function(sym.fresh("parent_fp"), z3.IntSort(), model.FP)
        self.nodes = {}

    def __vf_len__(self):
        return self.n

    def __len__(self):
        raise EngineUnsupported("len() of abstract parents outside the len hook")

    def __bool__(self):
        return sym.ctx().decide(self.n.t > 0)

    def __iter__(self):
        raise EngineUnsupported("iteration over abstract parents")

    def __vf_getitem__(self, k):
        cx = sym.ctx()
        if isinstance(k, SymInt):
            idx = k.t
        elif isinstance(k, int) and not isinstance(k, bool):
            idx = z3.IntVal(k)
        else:
            raise EngineUnsupported("abstract parents[%r]" % type(k).__name__)
        if not cx.decide(idx >= 0):
            idx = self.n.t + idx
        if not cx.decide(z3.And(idx >= 0, idx < self.n.t)):
            raise IndexError("list index out of range")
        idx = z3.simplify(idx)
        key = idx.sexpr()
        node = self.nodes.get(key)
        if node is None:
            node = model.AbsNode("ancestor", layout="none")
            node.__dict__["fp"] = self.fp_at(idx)
            self.nodes[key] = node
        return node

    __getitem__ = __vf_getitem__

    def __add__(self, other):
        if not isinstance(other, list):
            raise EngineUnsupported("abstract parents + %s" % type(other).__name__)
        return ExtParents(self, list(other))

    def is_boost(self, j):
        return model.is_class(self.fp_at(j), ["Boost"])

    def in_field_position(self):
        """the declarative spec over the abstract chain: some ancestor k is a field and every ancestor nearer than k is a boost"""
        k, j = z3.Int(sym.fresh("k")), z3.Int(sym.fresh("j"))
        return z3.Exists([k], z3.And(k >= 0, k < self.n.t, model.is_class(self.fp_at(k), ["SearchField"]),
                                     z3.ForAll([j], z3.Implies(z3.And(k < j, j < self.n.t), self.is_boost(j)))))


class ExtParents:
    def __init__(self, base, extra):
        self.base, self.extra = base, extra


class FieldGroupCut:
    """cut-point for `while depth and isinstance(parents[depth - 1], tree.Boost)` in LuceneCheck.check_field_group.
    Invariant: 0 <= depth <= len(parents) and every ancestor at an index >= depth is a boost; decreases depth."""

    def __init__(self, mode, parents):
        self.mode, self.parents = mode, parents
        self.entered = 0
        self.pre = None

    def inv(self, depth):
        if not isinstance(depth, SymInt):
            if isinstance(depth, bool) or not isinstance(depth, int):
                return z3.BoolVal(False)
            depth = SymInt(z3.IntVal(depth))
        j = z3.Int(sym.fresh("j"))
        n = self.parents.n.t
        return z3.And(depth.t >= 0, depth.t <= n,
                      z3.ForAll([j], z3.Implies(z3.And(depth.t <= j, j < n), self.parents.is_boost(j))))

    def enter(self, loc):
        self.entered += 1
        from vfkit import rewrite
        if not any(v is self.parents for v in loc.values()):
            raise EngineUnsupported("check_field_group's loop no longer walks over `parents`: the cut-point contract must be re-stated")
        # the loop's counter, whatever it is called: the only integer the loop assigns
        names = getattr(self, "rebindable", ()) or ("depth",)
        self.v_depth = rewrite.state_variable(loc, names, lambda v: isinstance(v, (SymInt, int)) and not isinstance(v, bool), "the number of ancestors still to look at")
        if self.mode == "init":
            raise PathStop([("C20-F/FieldGroup/any-chain/while/invariant-holds-on-entry", self.inv(loc[self.v_depth]))])
        cx = sym.ctx()
        d = SymInt(name="depth_at_loop_head")
        cx.assume(self.inv(d))
        self.pre = d.t
        return {self.v_depth: d}

    def step(self, loc):
        if self.mode != "havoc":
            return
        d = loc[self.v_depth]
        dt = d.t if isinstance(d, SymInt) else z3.IntVal(d)
        raise PathStop([("C20-F/FieldGroup/any-chain/while/invariant-preserved", self.inv(d)),
                        ("C20-F/FieldGroup/any-chain/while/decreases", z3.And(dt >= 0, dt < self.pre))])


def field_group_chain_cases():
    """check_field_group looks through a chain of boosts of any length: abstract ancestors + loop invariant"""
    from vfkit import rewrite
    cases = []
    for la, mk, cls in treecases.instances(layout="none", ops_shapes=(0, 1, 2, 3)):
        if cls is not T.FieldGroup or ".parsed" in la:
            continue
        for mode in ("init", "havoc"):
            for zeal in (0, 1):
                def run(cx, la=la, mk=mk, mode=mode, zeal=zeal):
                    x, kids = mk("x")
                    parents = AbsParents(cx)
                    chk = CK.LuceneCheck(zeal=zeal)
                    real = chk.check
                    calls = []

                    def stub(item, par=[]):
                        if isinstance(item, (model.Run, model.AbsNode)):
                            b = z3.Bool(sym.fresh("child_clean"))
                            calls.append((item, par, b))
                            return iter([]) if cx.decide(b) else iter([Dirty()])
                        return real(item, par)
                    chk.check = stub
                    before = dict(x.__dict__)
                    fsnap = frame.snapshot()
                    mark = len(cx.log)
                    cut = FieldGroupCut(mode, parents)
                    rewrite.WHILE_CUTS[FG_WHILE_KEY] = cut
                    key = "%s/any-chain/zeal%d" % (la, zeal)
                    try:
                        msgs = list(real(x, parents))
                    except (EngineUnsupported, sym.PathStop):
                        raise
                    except Exception as e:  # noqa: BLE001
                        return [("C20-F/%s/never-raises" % key, (False, {"exception": core.exc_desc(e)}))]
                    finally:
                        rewrite.WHILE_CUTS.pop(FG_WHILE_KEY, None)
                    if cut.entered == 0:
                        raise EngineUnsupported("check_field_group has no loop under the cut-point contract any more: restate C20-F for the new code")
                    if mode == "init":
                        raise EngineUnsupported("the loop under the cut-point contract was entered without stopping")
                    kids_clean = z3.And([b for (_, _, b) in calls]) if calls else z3.BoolVal(True)
                    clean = z3.BoolVal(len(msgs) == 0)
                    own = [m for m in msgs if not isinstance(m, Dirty)]
                    placed = parents.in_field_position()
                    return [("C20-F/%s/never-raises" % key, True),
                            ("C20-F/%s/messages-are-strings" % key, all(isinstance(m, (str, SymStr, Dirty)) for m in msgs)),
                            ("C20-F/%s/tree-and-checker-untouched" % key,
                             (all(x.__dict__.get(k) is v for k, v in before.items()) and len(x.__dict__) == len(before)
                              and not [e for e in cx.log[mark:] if e[0] == "write"]
                              and not frame.diff(fsnap, frame.snapshot()) and set(chk.__dict__) == {"zeal", "check"})),
                            ("C20-F/%s/children-checked-with-parents-plus-node" % key,
                             all(isinstance(par, ExtParents) and par.base is parents and len(par.extra) == 1 and par.extra[0] is x
                                 for (_, par, _) in calls)),
                            ("C20-F/%s/every-child-is-checked-once" % key,
                             len(calls) == len(kids) and all(c[0] is k for c, k in zip(calls, kids))),
                            ("C20-F/%s/in-place-after-any-number-of-boosts-accepted" % key,
                             z3.Implies(z3.And(placed, kids_clean), clean)),
                            ("C20-F/%s/misplaced-field-group-rejected" % key, z3.Implies(z3.Not(placed), z3.BoolVal(len(own) > 0))),
                            ("C20-F/%s/defect-below-is-reported" % key, z3.Implies(z3.Not(kids_clean), z3.Not(clean)))]
                cases.append(core.Case("C20-F/%s/any-chain/%s/zeal%d" % (la, mode, zeal), run,
                                       functions=["luqum.check.LuceneCheck.check_field_group"]))
    return cases


QUICK_PARENTS = ("SearchField", "OrOperation", "Group", "AndOperation", "Boost")


def parent_variants(tier="thorough"):
    out = [("no-parent", lambda: [])]
    for cls in model.UNIVERSE:
        if cls is T.NoneItem:
            continue
        if tier == "quick" and cls.__name__ not in QUICK_PARENTS:
            continue
        out.append(("under-" + cls.__name__, lambda cls=cls: [c08.model_witness(cls)]))
    out.append(("under-Group-under-SearchField", lambda: [T.SearchField("f", T.Word("w")), T.Group(T.Word("w"))]))
    out.append(("under-Boost-under-SearchField", lambda: [T.SearchField("f", T.Word("w")), T.Boost(T.Word("w"), 2)]))
    out.append(("under-Boost-under-Group", lambda: [T.Group(T.Word("w")), T.Boost(T.Word("w"), 2)]))
    out.append(("under-3-Boosts-under-SearchField", lambda: [T.SearchField("f", T.Word("w"))] + [T.Boost(T.Word("w"), i) for i in (1, 2, 3)]))
    return out


def check_cases(tier="thorough"):
    cases = []
    for la, mk, cls in treecases.instances(layout="none", ops_shapes=(0, 1, 2, 3)):
        if ".parsed" in la:
            continue
        for pname, mkp in parent_variants(tier):
            for zeal in (0, 1):
                def run(cx, la=la, mk=mk, cls=cls, pname=pname, mkp=mkp, zeal=zeal):
                    x, kids = mk("x")
                    parents = mkp()
                    parents_snapshot = list(parents)
                    chk = CK.LuceneCheck(zeal=zeal)
                    real = chk.check
                    calls = []

                    def stub(item, par=[]):
                        if isinstance(item, model.Run):
                            b = z3.Bool(sym.fresh("run_clean"))
                            calls.append((item, par, b))
                            return iter([]) if cx.decide(b) else iter([Dirty()])
                        if isinstance(item, model.AbsNode):
                            b = z3.Bool(sym.fresh("child_clean"))
                            calls.append((item, par, b))
                            return iter([]) if cx.decide(b) else iter([Dirty()])
                        return real(item, par)
                    chk.check = stub
                    before = dict(x.__dict__)
                    fsnap = frame.snapshot()
                    mark = len(cx.log)
                    key = "%s/%s/zeal%d" % (la, pname, zeal)
                    try:
                        msgs = list(real(x, parents))
                    except (EngineUnsupported, sym.PathStop):
                        raise
                    except Exception as e:  # noqa: BLE001
                        return [("C20-T/%s/never-raises" % key, (False, {"exception": core.exc_desc(e)}))]
                    obls = [("C20-T/%s/never-raises" % key, True),
                            ("C20-T/%s/messages-are-strings" % key,
                             all(isinstance(m, (str, SymStr, Dirty)) for m in msgs)),
                            ("C20-T/%s/tree-checker-and-parents-untouched" % key,
                             (all(x.__dict__.get(k) is v for k, v in before.items()) and len(x.__dict__) == len(before)
                              and not [e for e in cx.log[mark:] if e[0] == "write"]
                              and parents == parents_snapshot and all(a is b for a, b in zip(parents, parents_snapshot))
                              and not frame.diff(fsnap, frame.snapshot()) and set(chk.__dict__) == {"zeal", "check"}))]
                    kids_clean = z3.And([b for (_, _, b) in calls]) if calls else z3.BoolVal(True)
                    clean = z3.BoolVal(len(msgs) == 0)
                    own = [m for m in msgs if not isinstance(m, Dirty)]
                    # children are checked with the true parent chain
                    obls.append(("C20-T/%s/children-checked-with-parents-plus-node" % key,
                                 all(len(par) == len(parents) + 1 and par[-1] is x and all(a is b for a, b in zip(par, parents))
                                     for (_, par, _) in calls)))
                    # acceptance: a well-formed node with clean children yields nothing
                    if cls.__name__ not in NOT_CONSTRUCTS:
                        obls.append(("C20-A/%s/well-formed-construct-accepted" % key,
                                     z3.Implies(z3.And(wf_local(x, parents, zeal), kids_clean), clean)))
                    # completeness (local): each listed defect yields at least one message at its own node
                    obls.append(("C20-C/%s/ill-formed-construct-rejected" % key,
                                 z3.Implies(ill_formed(x, parents), z3.BoolVal(len(own) > 0))))
                    # completeness (propagation)
                    if cls.__name__ in PROPAGATING and kids:
                        obls.append(("C20-C/%s/defect-below-is-reported" % key,
                                     z3.Implies(z3.Not(kids_clean), z3.Not(clean))))
                        obls.append(("C20-C/%s/every-child-is-checked-once" % key,
                                     len(calls) == len(kids) and all(c[0] is k for c, k in zip(calls, kids))))
                    return obls
                cases.append(core.Case("C20/%s/%s/zeal%d" % (la, pname, zeal), run,
                                       functions=["luqum.check.LuceneCheck.check"]))

    cases.extend(field_group_chain_cases())

    def run_verdict(cx):
        out = []
        for n in (0, 1, 3):
            chk = CK.LuceneCheck()
            chk.check = lambda tree, n=n: iter(["m%d" % i for i in range(n)])
            out.append(("C20-T/verdict/call-is-True-iff-no-message", chk(T.Word("x")) is (n == 0)))
            out.append(("C20-T/verdict/errors-returns-the-list", chk.errors(T.Word("x")) == ["m%d" % i for i in range(n)]))
        return out
    cases.append(core.Case("C20-T/verdict", run_verdict, functions=["luqum.check.LuceneCheck.__call__", "luqum.check.LuceneCheck.errors"]))

    def run_default_parents(cx):
        chk = CK.LuceneCheck(zeal=1)
        r1 = list(chk.check(T.Not(T.Word("a"))))
        r2 = list(chk.check(T.Group(T.Word("a"))))
        r3 = list(chk.check(T.Not(T.Word("b"))))
        return [("C20-T/default-parents/not-shared-or-mutated-between-calls", r1 == [] and r2 == [] and r3 == [])]
    cases.append(core.Case("C20-T/default-parents", run_default_parents, functions=["luqum.check.LuceneCheck.check"]))
    return cases


REPLAY_CODE = '''
from luqum.check import LuceneCheck
from luqum.parser import parser
import re
x = @@X@@
problems = []
well_formed = [parser.parse(q) for q in ['a', '"a b"', '/re/', 'f:[1 TO 2]', 'f:>3', 'NOT a', '-a', '+a OR b^2', 'f:(a b)',
                                         'f:"p"~2', '(a AND b~1) OR c', 'f:/r/', '<=x', 'a~ b^', 'f:(a b)^2', 'g:(a OR b)^2^3 c']]
for zeal in (0, 1):
    for t in [x] + well_formed:
        f0 = fingerprint(t)
        try:
            c = LuceneCheck(zeal=zeal)
            errs = c.errors(t)
            verdict = c(t)
        except Exception as e:
            problems.append('zeal=%d: check of %r raised %r' % (zeal, t, e))
            continue
        if not isinstance(errs, list) or not all(isinstance(m, str) for m in errs):
            problems.append('errors() is not a list of str')
        if verdict is not (len(errs) == 0):
            problems.append('verdict %r but %d messages' % (verdict, len(errs)))
        if fingerprint(t) != f0:
            problems.append('tree modified')
        if t is not x and zeal == 0 and errs:
            problems.append('well-formed %r rejected: %r' % (str(t), errs))

def in_field(parents):
    rest = [q for q in reversed(parents)]
    while rest and type(rest[0]).__name__ == 'Boost':
        rest.pop(0)
    return bool(rest) and type(rest[0]).__name__ == 'SearchField'

def ill(n, parents):
    nm = type(n).__name__
    parent = parents[-1] if parents else None
    if nm == 'Word' and re.search(r'\\s', n.value): return True
    if nm == 'Fuzzy' and (n.degree < 0 or type(n.term).__name__ != 'Word'): return True
    if nm == 'Proximity' and type(n.term).__name__ != 'Phrase': return True
    if nm == 'SearchField' and (not re.fullmatch(r'\\w+', n.name) or type(n.expr).__name__ not in @@VALUES@@): return True
    if nm == 'Group' and type(parent).__name__ == 'SearchField': return True
    if nm == 'FieldGroup' and not in_field(parents): return True
    return False

def well(n, parents):
    nm = type(n).__name__
    if nm in ('NoneItem', 'Term', 'BaseGroup') or ill(n, parents): return False
    if isinstance(n, T.BaseOperation) and len(n.children) < 1: return True
    if nm in ('Range', 'Fuzzy', 'Proximity'):
        return True
    return all(well(c, parents + (n,)) for c in n.children)

def reachable(n, parents=()):
    yield n, parents
    if type(n).__name__ in @@PROP@@:
        for c in n.children:
            yield from reachable(c, parents + (n,))

# history: a rejected __call__ must not influence later checks (same or fresh checker)
ck = LuceneCheck()
for first in (T.SearchField('f', T.Word('a b')), T.OrOperation(T.Word('a'), T.Word('b c')), T.Group(T.Fuzzy(T.Phrase('"p"'), 1))):
    ck(first); LuceneCheck(zeal=1)(first)
    for later, want in ((T.Group(T.Word('a')), True), (T.FieldGroup(T.Word('a')), False), (T.Not(T.Word('a')), True)):
        for c2 in (ck, LuceneCheck(), LuceneCheck(zeal=1)):
            try:
                if c2(later) is not want:
                    problems.append('after checking %r, %r is %s' % (first, later, 'accepted' if not want else 'rejected'))
            except Exception as e:
                problems.append('after checking %r, check of %r raised %r' % (first, later, e))
for deep in (T.SearchField('f', T.FieldGroup(T.FieldGroup(T.Word('a')))), T.SearchField('f', T.Boost(T.Group(T.FieldGroup(T.Word('a'))), 2)),
             T.AndOperation(T.Boost(T.FieldGroup(T.Word('a')), 2), T.Word('b')),
             T.SearchField('f', T.FieldGroup(T.AndOperation(T.FieldGroup(T.Word('a')), T.Word('b')))),
             T.AndOperation(T.Word('a'), T.Word('b'), T.Not(T.Boost(T.Group(T.Word('c d')), 2)))):
    for zeal in (0, 1):
        if LuceneCheck(zeal)(deep):
            problems.append('ill-formed %r accepted' % deep)
bad = [n for n, p in reachable(x) if ill(n, p)]
if bad and LuceneCheck()(x):
    problems.append('ill-formed construct %r inside %r accepted' % (bad[0], x))
if well(x, ()) and not LuceneCheck()(x):
    problems.append('well-formed %r rejected: %r' % (x, LuceneCheck().errors(x)))
violated = bool(problems)
observation = '; '.join(problems[:3]) or 'as specified'
'''


def replay_builder(rec):
    from vfkit import witness
    name = rec["obligation"]
    m = rec.get("model") or {}
    parts = name.split("/")
    if len(parts) < 4:
        return []
    la, pname, zl = parts[1], parts[2], parts[3]
    zeal = 1 if zl.endswith("1") else 0
    x_src = witness.instance_code(la, "x", m, layout="none")
    wrap = {"no-parent": "%s"}.get(pname)
    if wrap is None:
        p = pname.replace("under-", "").split("-under-")[0]
        wrap = {"SearchField": "T.SearchField('f', %s)", "Group": "T.Group(%s)", "FieldGroup": "T.SearchField('f', T.FieldGroup(%s))",
                "Boost": "T.Boost(%s, 2)", "Plus": "T.Plus(%s)", "Not": "T.Not(%s)", "Prohibit": "T.Prohibit(%s)",
                "OrOperation": "T.OrOperation(T.Word('a'), %s)", "AndOperation": "T.AndOperation(T.Word('a'), %s)",
                "UnknownOperation": "T.UnknownOperation(T.Word('a'), %s)", "BoolOperation": "T.BoolOperation(T.Word('a'), %s)",
                }.get(p, "T.Group(%s)")
    code = witness.PRELUDE + REPLAY_CODE.replace("@@X@@", wrap % x_src).replace("@@VALUES@@", repr(VALUE_CLASSES)) \
        .replace("@@PROP@@", repr(PROPAGATING))
    return [{"kind": "script", "code": code}]


def canary():
    def run(cx):
        x, _ = model.make_instance(T.Word, "x", layout="none")
        msgs = list(CK.LuceneCheck().check(x, []))
        return [("canary/every-word-is-accepted", len(msgs) == 0)]
    return core.Case("canary/check", run, canary=True)


def plan(tier, seed):
    pl = Plan("C20", "proof")
    pl.cases = check_cases(tier)
    pl.canaries = [canary()]
    from vfkit import lean as _leanc
    pl.finite = list(getattr(pl, 'finite', None) or []) + [("A6/Lean re-check of the composition lemmas L-IND", _leanc.compose_check('L-IND'))]
    ntok = 4 if tier == "quick" else 6

    def net():
        from vfkit import bounded as _b
        return _b.run_native("c20_check", {"max_tokens": ntok, "known": _b.known_for("C20", "C20-B")})
    pl.bounded = [("C20-B/verdicts on whole trees with one planted ill-formed construct, fresh vs long-lived checker (safety net)", net)]
    pl.functions = ["luqum.check." + f for f in ("_check_children", "camel_to_lower")] + \
                   ["luqum.check.LuceneCheck." + f for f in
                    ("_check_field_name", "check_search_field", "check_group", "check_field_group", "check_range", "check_word",
                     "check_fuzzy", "check_proximity", "check_boost", "check_base_operation", "check_plus",
                     "_check_not_operator", "check_not", "check_prohibit", "check", "__call__", "errors")]
    pl.min_obligations = len(model.UNIVERSE) * 10
    pl.replay_builder = replay_builder
    pl.assumptions = c01.ASSUMPTIONS + ["math.copysign(1, x) < 0 <=> x < 0 (negative zero not modelled)",
                                        "numeric attributes (degree, force) are finite numbers: mathematical reals in the obligations; infinities and NaN only through the bounded net C20-B"]
    pl.trusted_base = c01.TRUSTED
    pl.lemmas = ["L-IND (Lean: lemmas/Compose.lean fold_ind; model link assumed): totality, acceptance (well-formed node + clean children => no message) and completeness "
                 "(a listed defect yields a message at its own node; a message below is propagated by operations, groups, "
                 "fields, boosts and prefixes) per class give the statement for any tree and any position of the defect",
                 "C20-F (proved, loop invariant): check_field_group over an abstract ancestor list of any length - in place iff the nearest ancestor "
                 "that is not a boost is a field (spec: exists k. ancestor k is a SearchField and every nearer ancestor is a Boost); invariant of the "
                 "while loop: 0 <= depth <= len(parents) and every ancestor at an index >= depth is a boost; decreases depth"]
    pl.claim = ("per class x parent class x zeal in {0, 1}: never raises, yields strings only, tree / checker / parents "
                "untouched; acceptance and completeness against spec predicates written from the statement; verdict "
                "consistency of __call__ / errors.")
    return pl
