"""C05 — ES translation is reject-or-equivalent (boolean and nested meaning).  DESIGN 3.C05: whole-visitor statement bounded
(all documents with <= 2 nested objects per path, per tree and configuration); helpers proved."""
from vfkit import bounded, core, model
from vfkit.check import Plan

from . import c01, eshelpers as H


def replay_builder_for(script, payload):
    def build(rec):
        code = ("import sys, json\nsys.path.insert(0, %r)\nimport io\nimport common\nimport %s as B\n" % (core.VERIF + "/bounded", script) +
                "items = [(q, ci) for q in %r for ci in range(0, len(getattr(B, 'CONFIGS', None) or __import__('es_corpus').CONFIGS), 3)]\n" % (payload,) +
                "problems = []\nfor it in items:\n    n, fails = B.check(it)\n    problems += ['%r: %s' % (f.get('input'), f.get('observation')) for f in fails if not (f.get('bool_splices_nonprefix') or f.get('touches_leafless_nested_level') or f.get('odd_backslashes_before_wildcard'))]\n    if len(problems) > 2:\n        break\n"
                "violated = bool(problems)\nobservation = '; '.join(problems[:2])[:1500] or 'as specified'\n")
        return [{"kind": "script", "code": code}]
    return build


QUERIES = ["a AND b", "a OR NOT b", "NOT NOT a", "n.x:d AND n.y:e", "n:(x:d AND y:e)", "a b -c", "+a b", "(a AND b) OR c", "n.m.z:g OR t:b",
           "n:(m:(z:g)) AND NOT n.x:d", "a AND (b OR c)", "t:[-1 TO 5]", "f:(a b)^2"]


def plan(tier, seed):
    pl = Plan("C05", "exploration")
    pl.cases = H.simplify_cases() + H.semantic_cases()
    pl.canaries = []
    pl.finite = [("C05-H/is_must-is_should table", H.kind_table), ("C05-H/yield_nested_children table", H.clash_table),
                 ("C05-H/json assembly of bool / nested clauses", H.ejson_table),
                 ("C05-N/one step of visit_search_field: field context and nested wrapper", H.search_field_table)]
    n = 2 if tier == "quick" else 4

    def sem():
        return bounded.run_native("c05_es", {"max_leaves": n, "known": bounded.known_for("C05", "C05-B")})
    pl.bounded = [("C05-B/ES query matches exactly the documents the tree denotes", sem)]
    pl.functions = ["luqum.elasticsearch.visitor.ElasticsearchQueryBuilder." + f for f in
                    ("_is_must", "_is_should", "_yield_nested_children", "simplify_if_same", "_binary_operation", "visit_not", "visit_plus",
                     "visit_unknown_operation", "visit_bool_operation", "visit_search_field", "_split_nested", "__call__")] + \
                   ["luqum.elasticsearch.tree.EOperation.json", "luqum.elasticsearch.tree.EBoolOperation.json", "luqum.elasticsearch.tree.ENested.json",
                    "luqum.elasticsearch.tree.ENested._exclude_nested_children"]
    pl.min_obligations = 8
    pl.replay_builder = replay_builder_for("c05_es", QUERIES)
    pl.assumptions = c01.ASSUMPTIONS + ["ES semantics of bool / nested clauses as written in bounded/es_ref.py (from the ES documentation)"]
    pl.trusted_base = c01.TRUSTED + ["bounded/es_ref.py (reference semantics of trees and of ES bool/nested queries)"]
    pl.lemmas = ["C05-H (proved / finite exhaustive): AND-like / OR-like classification, clash detection on direct operands, flattening of "
                 "same-operator chains, clause lists of bool / nested json",
                 "C05-B (BOUNDED): for each (tree, configuration) of the corpus, for EVERY document with at most 2 objects per nested path, "
                 "the returned query matches exactly when the tree's reference denotation holds; nested clauses sit on the innermost "
                 "nested path; the visitor as a whole (non-local rewrites of the E-tree, dotted-name handling) is outside the engine's reach"]
    pl.claim = "whole-visitor meaning decided by a bounded stand-in (exploration); helper contracts proved."
    return pl
