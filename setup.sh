#!/bin/sh
# Build the tooling venv for the checks: Python 3.12 (the repository's interpreter) + z3-solver + cvc5
# from the offline wheelhouse, plus a .pth that exposes /venv's site-packages (ply).
# Idempotent; every ./vf invocation calls it if .venv is missing.
set -e
cd "$(dirname "$0")"
if [ ! -x .venv/bin/python ] || ! .venv/bin/python -c "import z3, ply" >/dev/null 2>&1; then
  rm -rf .venv
  /venv/bin/python -m venv .venv
  PIP_NO_INDEX=1 .venv/bin/pip install -q --no-index --find-links /opt/veriftools/wheels z3-solver cvc5 >/dev/null
  echo "import site; site.addsitedir('/venv/lib/python3.12/site-packages')" > .venv/lib/python3.12/site-packages/_venv.pth
fi
.venv/bin/python -c "import z3, ply; print('venv ok: z3', z3.get_version_string())"
