"""boolean meaning of a luqum tree over its atoms (term + field context + modifiers), by truth table"""
import itertools

from luqum import tree as T
import trees as TR


def atoms_and_formula(n, field=(), mods=()):
    """returns a function env -> bool and registers atoms; atoms are (field path, modifiers, leaf fingerprint)"""
    nm = type(n).__name__
    if nm in ("Group", "FieldGroup", "BaseGroup"):
        return atoms_and_formula(n.expr, field, mods)
    if nm == "SearchField":
        return atoms_and_formula(n.expr, field + (n.name,), mods)
    if nm == "Boost":
        return atoms_and_formula(n.expr, field, mods + (("boost", str(n.force)),))
    if nm == "Plus":
        return atoms_and_formula(n.a, field, mods)
    if nm in ("Not", "Prohibit"):
        f = atoms_and_formula(n.a, field, mods)
        return ("not", f)
    if isinstance(n, T.BaseOperation):
        kids = [atoms_and_formula(c, field, mods) for c in n.operands]
        if nm == "BoolOperation":
            kinds = ["must" if type(c).__name__ == "Plus" else "must_not" if type(c).__name__ in ("Prohibit", "Not") else "should"
                     for c in n.operands]
            # a prohibited operand was already wrapped in ("not", f): unwrap for must_not bookkeeping
            return ("bool", tuple((k, (f[1] if k == "must_not" else f)) for k, f in zip(kinds, kids)))
        return ({"AndOperation": "and", "OrOperation": "or", "UnknownOperation": "unknown"}[nm], tuple(kids))
    return ("atom", (field, mods, TR.fingerprint(n)))


def collect(f, acc):
    if f[0] == "atom":
        acc.add(f[1])
    elif f[0] == "not":
        collect(f[1], acc)
    elif f[0] == "bool":
        for _, g in f[1]:
            collect(g, acc)
    else:
        for g in f[1]:
            collect(g, acc)


def ev(f, env, default_or):
    k = f[0]
    if k == "atom":
        return env[f[1]]
    if k == "not":
        return not ev(f[1], env, default_or)
    if k == "and":
        return all(ev(g, env, default_or) for g in f[1])
    if k == "or":
        return any(ev(g, env, default_or) for g in f[1])
    if k == "unknown":
        vals = [ev(g, env, default_or) for g in f[1]]
        return any(vals) if default_or else all(vals)
    if k == "bool":
        must = [ev(g, env, default_or) for kk, g in f[1] if kk == "must"]
        mnot = [ev(g, env, default_or) for kk, g in f[1] if kk == "must_not"]
        should = [ev(g, env, default_or) for kk, g in f[1] if kk == "should"]
        return all(must) and not any(mnot) and (any(should) if (should and not must) else True)
    raise ValueError(k)


def same_meaning(t1, t2, max_atoms=8):
    """None if the two trees have the same atoms and the same truth table under both readings of implicit operations,
    else a description"""
    f1, f2 = atoms_and_formula(t1), atoms_and_formula(t2)
    a1, a2 = set(), set()
    collect(f1, a1)
    collect(f2, a2)
    if a1 != a2:
        return "different terms/fields/modifiers: %r vs %r" % (sorted(map(repr, a1 - a2))[:2], sorted(map(repr, a2 - a1))[:2])
    atoms = sorted(a1, key=repr)
    if len(atoms) > max_atoms:
        return None if f1 == f2 else "formulas differ (too many atoms for a table)"
    for bits in itertools.product((False, True), repeat=len(atoms)):
        env = dict(zip(atoms, bits))
        for default_or in (True, False):
            if ev(f1, env, default_or) != ev(f2, env, default_or):
                return "truth tables differ (implicit read as %s) for %r" % ("OR" if default_or else "AND", [b for b in bits])
    return None
