"""C18-J (bounded): Prettifier._count_chars / _apply_stick / _concatenates on nested chunk lists of depth <= D: the
output consists of exactly the chunks, each unchanged and in order, separated by blanks only (at least one), for 18
settings.  Chunk texts include operator words, punctuation, long words and phrases with embedded blanks / line breaks."""
import itertools
import random

from common import read_payload, emit, pmap, classify

from luqum.pretty import Prettifier, _STICK_MARKER

POOL = ["a", "AND", "OR", "(", ")", "f:", '"x y"', '"p\nq"', "a_rather_long_word_here", "b^2"]
SETTINGS = [(i, m, o) for i in (0, 1, 4) for m in (1, 10, 80) for o in (False, True)]


def gen_lists(rnd, depth):
    n = rnd.randint(1, 5)
    out = []
    for k in range(n):
        r = rnd.random()
        if depth > 0 and r < 0.3:
            out.append(gen_lists(rnd, depth - 1))
        else:
            out.append(rnd.choice(POOL))
        if k < n - 1 and rnd.random() < 0.25 and not isinstance(out[-1], list):
            out.append(_STICK_MARKER)
    return out


def atoms(x):
    for e in x:
        if isinstance(e, list):
            yield from atoms(e)
        elif e is not _STICK_MARKER:
            yield e


def check(seed):
    rnd = random.Random(seed)
    chains = gen_lists(rnd, 3)
    fails = []
    n = 0
    want = list(atoms(chains))
    for (indent, max_len, inline) in SETTINGS:
        n += 1
        p = Prettifier(indent=indent, max_len=max_len, inline_ops=inline)
        try:
            counted, total = p._count_chars(chains)
            s = p._concatenates(counted, total)
        except Exception as e:  # noqa: BLE001
            fails.append({"input": repr(chains), "settings": [indent, max_len, inline], "observation": "raised %r" % (e,)})
            continue
        i = 0
        ok = True
        for k, a in enumerate(want):
            j = i
            while j < len(s) and s[j].isspace():
                j += 1
            if k > 0 and j == i:
                ok = False
                break
            if not s.startswith(a, j):
                ok = False
                break
            i = j + len(a)
        if ok and s[i:].strip():
            ok = False
        if not ok:
            fails.append({"input": repr(chains), "settings": [indent, max_len, inline],
                          "observation": "output %r is not the chunks %r separated by blanks" % (s, want)})
    return n, fails[:1]


def main():
    p = read_payload()
    seeds = list(range(1500))
    res = pmap(check, seeds)
    failures = [f for r in res for f in r[1]]
    rest, hit = classify(failures, p.get("known", []))
    emit({"ok": not rest, "evaluations": sum(r[0] for r in res), "distinct_nontrivial": len(seeds),
          "rule": "1500 seeded nested chunk lists (depth <= 3, <= 5 entries per level, texts from a pool of %d incl. phrases with blanks / "
                  "line breaks, stick markers) x 18 settings; distinct = lists" % len(POOL),
          "bound": "depth <= 3, 1500 seeded lists", "samples": [{"chains": repr(gen_lists(random.Random(3), 2))}],
          "failures": rest[:20], "known": hit})


if __name__ == "__main__":
    main()
