"""shared native helpers: structural fingerprint, layout dump, single-point mutations of trees, odd hand-built shapes"""
import copy
from decimal import Decimal

from luqum import tree as T
import gen

ATTRS = {"Word": ["value"], "Phrase": ["value"], "Regex": ["value"], "Term": ["value"], "SearchField": ["name"],
         "Range": ["include_low", "include_high"], "Fuzzy": ["degree"], "Proximity": ["degree"],
         "Boost": ["force"], "From": ["include"], "To": ["include"]}


def fingerprint(n):
    return (type(n).__name__, tuple((a, getattr(n, a)) for a in ATTRS.get(type(n).__name__, [])),
            tuple(fingerprint(c) for c in n.children))


def layout(n):
    return tuple((m.pos, m.size, m.head, m.tail) for m in gen.nodes(n))


def deep(t):
    return copy.deepcopy(t)


def mutations(t):
    """trees that differ from t in exactly one meaning-bearing point (attribute, class, operand list), and
    trees that differ in layout / names only"""
    out = []
    idx = list(range(len(list(gen.nodes(t)))))
    for i in idx:
        for kind in ("attr", "class", "drop", "dup", "swap", "layout", "name"):
            c = deep(t)
            n = list(gen.nodes(c))[i]
            nm = type(n).__name__
            if kind == "attr":
                attrs = ATTRS.get(nm, [])
                if not attrs:
                    continue
                for a in attrs:
                    c2 = deep(t)
                    n2 = list(gen.nodes(c2))[i]
                    v = getattr(n2, a)
                    if isinstance(v, bool):
                        setattr(n2, a, not v)
                    elif isinstance(v, str):
                        setattr(n2, a, (v[:-1] + "x" + v[-1:]) if nm in ("Phrase", "Regex") else v + "x")
                    elif isinstance(v, (int, Decimal)):
                        setattr(n2, a, v + 1)
                    out.append(("attr:" + a, c2, False))
                    if isinstance(v, (int, Decimal)) and not isinstance(v, bool):
                        # numerically close is not equal
                        c3 = deep(t)
                        setattr(list(gen.nodes(c3))[i], a, Decimal(v) + Decimal("0.0000000001"))
                        out.append(("attr-close:" + a, c3, False))
                    if isinstance(v, str) and a == "value" and len(v) > (2 if nm in ("Phrase", "Regex") else 0):
                        # a value that differs by a backslash escape only is another value
                        c3 = deep(t)
                        k = 1 if nm in ("Phrase", "Regex") else 0
                        setattr(list(gen.nodes(c3))[i], a, v[:k] + "\\" + v[k:])
                        out.append(("attr-escape:" + a, c3, False))
                continue
            if kind == "class":
                swaps = {"Word": T.Term, "Group": T.FieldGroup, "FieldGroup": T.Group, "Plus": T.Prohibit, "Not": T.Prohibit,
                         "Prohibit": T.Plus, "From": T.To, "To": T.From, "OrOperation": T.AndOperation,
                         "AndOperation": T.UnknownOperation, "UnknownOperation": T.BoolOperation, "Fuzzy": None}
                new = swaps.get(nm)
                if new is None:
                    continue
                n.__class__ = new
                out.append(("class", c, False))
                continue
            if isinstance(n, T.BaseOperation):
                ops = list(n.operands)
                if kind == "drop" and len(ops) >= 1:
                    n.operands = tuple(ops[:-1])
                    out.append(("drop-operand", c, False))
                elif kind == "dup":
                    n.operands = tuple(ops + [deep(ops[-1])]) if ops else (T.Word("z"),)
                    out.append(("add-operand", c, False))
                elif kind == "swap" and len(ops) >= 2 and fingerprint(ops[0]) != fingerprint(ops[1]):
                    n.operands = tuple([ops[1], ops[0]] + ops[2:])
                    out.append(("swap-operands", c, False))
                if kind == "dup" and len(ops) >= 2:
                    # one node OBJECT at two places of the tree (a transformer may reuse a node): content decides, not identity
                    c2 = deep(t)
                    n2 = list(gen.nodes(c2))[i]
                    ops2 = list(n2.operands)
                    n2.operands = tuple([ops2[0], ops2[0]] + ops2[2:])
                    out.append(("first-operand-object-used-twice", c2, False))
                    c3 = deep(t)
                    n3 = list(gen.nodes(c3))[i]
                    ops3 = list(n3.operands)
                    n3.operands = tuple(ops3[:-1] + [ops3[0]])
                    out.append(("first-operand-object-also-last", c3, False))
                if kind == "dup":
                    # an operand that is an operation of the same class, spliced into its parent / the first two operands wrapped in one
                    for j, o in enumerate(ops):
                        if type(o) is type(n) and len(o.operands) >= 1:
                            c2 = deep(t)
                            n2 = list(gen.nodes(c2))[i]
                            ops2 = list(n2.operands)
                            n2.operands = tuple(ops2[:j] + list(ops2[j].operands) + ops2[j + 1:])
                            out.append(("nested-same-class-operation-spliced", c2, False))
                            break
                    if len(ops) >= 2:
                        c2 = deep(t)
                        n2 = list(gen.nodes(c2))[i]
                        ops2 = list(n2.operands)
                        n2.operands = tuple([type(n2)(ops2[0], ops2[1])] + ops2[2:])
                        out.append(("first-two-operands-wrapped-in-the-same-class", c2, False))
                if kind == "swap" and len(ops) >= 2:
                    # the same nodes in the same reading order, bracketed differently: the operand after ops[j] moves to the end of the
                    # operation found at the right edge of ops[j] (and back)
                    for j in range(len(ops) - 1):
                        c2 = deep(t)
                        n2 = list(gen.nodes(c2))[i]
                        ops2 = list(n2.operands)
                        inner = ops2[j]
                        while not isinstance(inner, T.BaseOperation) and inner.children:
                            inner = inner.children[-1]
                        if isinstance(inner, T.BaseOperation) and not any(m is inner for m in gen.nodes(ops2[j + 1])):      # (no cycle when an object is shared)
                            inner.operands = tuple(list(inner.operands) + [ops2[j + 1]])
                            n2.operands = tuple(ops2[:j + 1] + ops2[j + 2:])
                            out.append(("regroup-absorb", c2, False))
                    for j in range(len(ops)):
                        c2 = deep(t)
                        n2 = list(gen.nodes(c2))[i]
                        ops2 = list(n2.operands)
                        inner = ops2[j]
                        while not isinstance(inner, T.BaseOperation) and inner.children:
                            inner = inner.children[-1]
                        if isinstance(inner, T.BaseOperation) and len(inner.operands) >= 1:
                            moved = inner.operands[-1]
                            inner.operands = tuple(inner.operands[:-1])
                            n2.operands = tuple(ops2[:j + 1] + [moved] + ops2[j + 1:])
                            out.append(("regroup-release", c2, False))
            if kind == "layout":
                n.head, n.tail, n.pos, n.size = "  ", "\t", 7, 3
                out.append(("layout-only", c, True))
            elif kind == "name":
                n._luqum_name = "zz"
                out.append(("name-only", c, True))
    return out


def odd_trees():
    """hand-built shapes the parser never produces"""
    w = lambda v: T.Word(v)  # noqa: E731
    return [
        T.AndOperation(), T.OrOperation(w("a")), T.UnknownOperation(w("a"), w("a"), w("a")),
        T.BoolOperation(T.Plus(w("a")), T.Prohibit(w("b")), w("c")),
        T.Group(T.OrOperation(w("a"), w("b"), w("c"))), T.Group(T.OrOperation(w("a"), w("b"))),
        T.Fuzzy(w("a"), 0), T.Fuzzy(w("a"), "0"), T.Proximity(T.Phrase('"a b"'), "0"), T.Boost(w("a"), 0), T.Boost(w("a"), None),
        T.Fuzzy(w("a")), T.Proximity(T.Phrase('"a"')), T.Range(w("a"), w("a"), False, True),
        T.SearchField("f", T.FieldGroup(T.AndOperation(w("a"), T.Not(w("b"))))),
        T.Group(T.Term("a")), T.BaseGroup(w("a")), T.Term("a"),
        T.From(w("1"), False), T.To(T.Phrase('"x"')), T.Regex("/a/"), T.NONE_ITEM,
        T.AndOperation(T.Group(w("x")), T.Group(w("x"))), T.Range(w("10"), w("10")),
        T.UnknownOperation(T.Boost(T.Group(T.UnknownOperation(w("a"), w("b"))), 2), T.Not(T.UnknownOperation(w("c"), w("d")))),
        T.AndOperation(w("a"), T.OrOperation(w("b"), w("c")), w("d")), T.AndOperation(w("a"), T.Group(T.OrOperation(w("b"), w("c"), w("d")))),
        T.OrOperation(T.AndOperation(T.Not(T.OrOperation(w("a"), w("b"))), w("c")), w("d")),
        T.Range(w("*"), w("5")), T.Range(w("1"), w("*"), False, False), T.Range(w("*"), w("*"), True, False), T.SearchField("f", T.Range(w("*"), w("b*"))),
        T.AndOperation(T.AndOperation(w("a"), w("b")), w("c"), w("d")), T.OrOperation(w("a"), T.OrOperation(w("b"), T.OrOperation(w("c"), w("d")))),
        T.UnknownOperation(T.UnknownOperation(w("a"))), T.BoolOperation(T.BoolOperation(T.Plus(w("a")), w("b")), T.Prohibit(w("c"))),
        (lambda x: T.OrOperation(x, x))(w("x")), (lambda g: T.AndOperation(g, T.Not(g), w("y")))(T.Group(T.OrOperation(w("a"), w("b")))),
    ]


def pool(max_tokens):
    from luqum.parser import parser
    out = []
    for seq in gen.sequences(max_tokens):
        try:
            out.append(parser.parse(gen.render(seq, 1)))
        except Exception:  # noqa: BLE001
            pass
    return out + odd_trees()
