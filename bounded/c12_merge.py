"""C12-B (bounded cross-check of the merge invariant and safety net): every AND of <= N operands drawn from one-sided /
closed / unbounded ranges, comparisons, words, boosted and fielded ranges, evaluated on a 5-point ordered domain: the
conjunction holds before exactly when it holds after merging; no comparison is left; plain conversion changes nothing
else; ranges under OR / implicit operations are never combined; the input is untouched."""
import itertools

from common import read_payload, emit, pmap, classify
import trees as TR
import gen

from luqum.parser import parser
from luqum.utils import OpenRangeTransformer

DOM = [0, 1, 2, 3, 4]
ATOMS = [">a", ">=b", "<c", "<=e", "[a TO *]", "{* TO c]", "{b TO *}", "[* TO e}", "[b TO c]", "[* TO *]", "b", "(>a)^2", "f:>b", "NOT <c",
         "[a* TO e]", "[a TO c?]", "(>=a)^2^3", "b^1^0.5"]


def val(w):
    return {"a": 1, "b": 2, "c": 3, "d": 1, "e": 3}.get(str(w.value), 2)


def holds(n, v):
    nm = type(n).__name__
    if nm == "Range":
        lo = True if n.low.value == "*" else (v >= val(n.low) if n.include_low else v > val(n.low))
        hi = True if n.high.value == "*" else (v <= val(n.high) if n.include_high else v < val(n.high))
        return lo and hi
    if nm == "From":
        return v >= val(n.a) if n.include else v > val(n.a)
    if nm == "To":
        return v <= val(n.a) if n.include else v < val(n.a)
    if nm == "AndOperation":
        return all(holds(c, v) for c in n.children)
    if nm in ("OrOperation", "UnknownOperation"):
        return any(holds(c, v) for c in n.children)
    if nm == "BoolOperation":
        must = [c for c in n.children if type(c).__name__ == "Plus"]
        must_not = [c for c in n.children if type(c).__name__ in ("Not", "Prohibit")]
        should = [c for c in n.children if c not in must and c not in must_not]
        return all(holds(c, v) for c in must) and not any(holds(c.children[0], v) for c in must_not) and \
            (any(holds(c, v) for c in should) if should and not must else True)
    if nm in ("Group", "Boost", "FieldGroup", "SearchField", "Plus"):
        return holds(n.children[0], v)
    if nm in ("Not", "Prohibit"):
        return not holds(n.children[0], v)
    if nm == "Word":
        return v == val(n)
    return True


def count_ranges(n):
    return sum(1 for m in gen.nodes(n) if type(m).__name__ in ("Range", "From", "To"))


def convert(n):
    """independent plain conversion: a comparison becomes the range with the same bound and a star on the other side; nothing else changes"""
    from luqum import tree as T
    import copy
    nm = type(n).__name__
    if nm == "From":
        return T.Range(convert(n.a), T.Word("*"), include_low=n.include, include_high=True)
    if nm == "To":
        return T.Range(T.Word("*"), convert(n.a), include_low=True, include_high=n.include)
    c = copy.copy(n)
    c.__dict__ = dict(n.__dict__)
    c.children = [convert(k) for k in n.children]
    return c


def check(q):
    try:
        base = parser.parse(q)
    except Exception:  # noqa: BLE001
        return 0, []
    variants = [("", base)]
    if any(type(m).__name__ == "UnknownOperation" for m in gen.nodes(base)):
        from luqum import tree as T
        from luqum.utils import UnknownOperationResolver
        variants.append((" [implicit operations resolved to BoolOperation]", UnknownOperationResolver(T.BoolOperation)(base)))
    n, fails = 0, []
    for label, t in variants:
        k, f = check_tree(q + label, t)
        n += k
        fails += f
    return n, fails[:2]


def check_tree(q, t):
    fails = []
    f0, l0 = TR.fingerprint(t), TR.layout(t)
    n = 0
    for merge in (False, True):
        n += 1
        try:
            y = OpenRangeTransformer(merge_ranges=merge)(t)
        except Exception as e:  # noqa: BLE001
            fails.append({"input": q, "merge": merge, "observation": "raised %r" % (e,)})
            continue
        if any(type(m).__name__ in ("From", "To") for m in gen.nodes(y)):
            fails.append({"input": q, "merge": merge, "observation": "comparison left in %r" % str(y)})
        for v in DOM:
            if holds(t, v) != holds(y, v):
                fails.append({"input": q, "merge": merge, "observation": "%r differs for value %d" % (str(y), v)})
                break
        if not any(type(m).__name__ == "AndOperation" for m in gen.nodes(t)) and count_ranges(y) != count_ranges(t):
            fails.append({"input": q, "merge": merge, "observation": "ranges combined without an AND: %r" % str(y)})
        if not merge and count_ranges(y) != count_ranges(t):
            fails.append({"input": q, "merge": merge, "observation": "conversion changed the number of ranges"})
        if (not merge or not any(type(m).__name__ == "AndOperation" for m in gen.nodes(t))) and TR.fingerprint(y) != TR.fingerprint(convert(t)):
            fails.append({"input": q, "merge": merge, "signature": "something-else-changed",
                          "observation": "without anything to merge the result is %r, the plain conversion is %r" % (y, convert(t))})
    if TR.fingerprint(t) != f0 or TR.layout(t) != l0:
        fails.append({"input": q, "observation": "input modified"})
    # one transformer used again on the SAME tree object after the tree was edited in place: the answer is that of a fresh transformer
    import copy
    for merge in (False, True):
        tr = OpenRangeTransformer(merge_ranges=merge)
        work = copy.deepcopy(t)
        try:
            tr(work)
            edited = False
            for m in gen.nodes(work):
                if type(m).__name__ in ("From", "To"):
                    m.include = not m.include
                    edited = True
                    break
                if type(m).__name__ == "Range":
                    m.include_low = not m.include_low
                    edited = True
                    break
            if edited:
                n += 1
                again, fresh = tr(work), OpenRangeTransformer(merge_ranges=merge)(work)
                if not (again == fresh) or TR.fingerprint(again) != TR.fingerprint(fresh) or str(again) != str(fresh):
                    fails.append({"input": q, "merge": merge, "signature": "history",
                                  "observation": "after an in-place edit the same transformer gives %r, a fresh one %r" % (str(again), str(fresh))})
        except Exception as e:  # noqa: BLE001
            fails.append({"input": q, "merge": merge, "observation": "second use raised %r" % (e,)})
    return n, fails[:2]


def main():
    p = read_payload()
    N = p["max_operands"]
    qs = []
    for k in range(1, N + 1):
        it = itertools.permutations(ATOMS, k) if k <= 3 else itertools.combinations(ATOMS, k)
        for combo in it:
            qs.append(" AND ".join(combo))
    for k in (2, 3):
        for combo in itertools.combinations(ATOMS[:10], k):
            qs.append(" OR ".join(combo))
            qs.append(" ".join(combo))
            qs.append("(" + " AND ".join(combo) + ") OR (" + " AND ".join(reversed(combo)) + ")")
            qs.append(combo[0] + " AND (" + " OR ".join(combo[1:]) + " OR b)")
    ones = [">a", ">=b", "<c", "<=e", "[a TO *]", "{* TO c]"]
    for a in ones:
        for b in ones:
            for c in ones:
                qs.append("%s AND (b OR %s AND d) AND %s" % (a, b, c))
                qs.append("%s AND f:(%s AND d) AND %s" % (a, b, c))
                qs.append("%s AND NOT (%s AND d) AND %s" % (a, b, c))
    for order in itertools.product(("[a TO *]", "[* TO e]", "{b TO *}", "{* TO c}"), repeat=5):
        qs.append(" AND ".join(order))
    res = pmap(check, qs)
    failures = [f for r in res for f in r[1]]
    rest, hit = classify(failures, p.get("known", []))
    emit({"ok": not rest, "evaluations": sum(r[0] for r in res), "distinct_nontrivial": len(qs),
          "rule": "AND of 1..%d operands from %d atoms (all permutations up to 3, combinations beyond), plus OR / implicit / "
                  "nested mixes; each with merging off and on; evaluated on the ordered domain 0..4; distinct = queries" % (N, len(ATOMS)),
          "bound": "<= %d operands, 5-point domain" % N,
          "samples": [{"query": ">a AND <=e AND [b TO *]", "merged": str(OpenRangeTransformer(merge_ranges=True)(parser.parse(">a AND <=e AND [b TO *]")))}],
          "failures": rest[:30], "known": hit})


if __name__ == "__main__":
    main()
