"""C08-B (bounded safety net): on parsed queries from accepted token sequences of <= N tokens and odd hand-built trees
 - a recording TreeVisitor / PathTrackingVisitor (with and without track_parents, handlers on base classes) reaches every node exactly
   once, parents before children, children in order, with the true chain of ancestors and the true index path, and leaves the
   caller's context untouched; dispatch goes to the most specific handler along the class hierarchy, also when visitors of several
   classes (and method prefixes) are used alternately;
 - TreeTransformer / PathTrackingTransformer default copies are equal to the input, made of fresh nodes, print the same text with
   head / tail and carry the same positions; the input is untouched."""
from common import read_payload, emit, pmap, classify
import gen
import trees as TR

from luqum import tree as T
from luqum.parser import parser
from luqum import visitor as V


def reference(t, parents=(), path=()):
    yield t, parents, path
    for i, c in enumerate(t.children):
        yield from reference(c, parents + (t,), path + (i,))


class Rec(V.TreeVisitor):
    def generic_visit(self, node, context):
        self.seen.append((node, context.get("parents"), context.get("path"), context.get("user")))
        yield from super().generic_visit(node, context)


class RecPath(V.PathTrackingVisitor):
    def generic_visit(self, node, context):
        self.seen.append((node, context.get("parents"), context.get("path"), context.get("user")))
        yield from super().generic_visit(node, context)


def expected_handler(prefix, cls, names):
    for k in cls.mro():
        nm = prefix + V.camel_to_lower(k.__name__) if hasattr(V, "camel_to_lower") else None
        if nm in names:
            return nm
    return "generic_visit"


def make_dispatch_visitor(prefix, handler_classes):
    seen = []
    ns = {"visitor_method_prefix": prefix}
    names = set()
    for k in handler_classes:
        nm = prefix + V.camel_to_lower(k.__name__)
        names.add(nm)

        def h(self, node, context, nm=nm):
            seen.append((node, nm))
            yield from V.TreeVisitor.generic_visit(self, node, context)
        ns[nm] = h

    def g(self, node, context):
        seen.append((node, "generic_visit"))
        yield from V.TreeVisitor.generic_visit(self, node, context)
    ns["generic_visit"] = g
    cls = type("D_" + prefix.strip("_"), (V.TreeVisitor,), ns)
    return cls, seen, names


class Tag(T.Word):
    """a user-defined node class derived from a concrete one"""


class DateRange(T.Range):
    pass


class LangWord(T.Word):
    """a user-defined node class with one more attribute that takes part in equality"""
    _equality_attrs = ["value", "lang"]

    def __init__(self, value, lang="en", **kwargs):
        super().__init__(value, **kwargs)
        self.lang = lang


class Bracket(T.Group):
    _equality_attrs = ["style"]

    def __init__(self, expr=None, style="round", **kwargs):
        super().__init__(expr, **kwargs)
        self.style = style


class XorOperation(T.OrOperation):
    pass


D1 = make_dispatch_visitor("visit_", [T.BaseOperation, T.Term, T.Word, T.BaseGroup, T.UnaryOperator, T.Item])
D4 = make_dispatch_visitor("visit_", [Tag, T.Word, DateRange, T.Range, XorOperation, T.OrOperation, T.Term])
D2 = make_dispatch_visitor("check_", [T.AndOperation, T.Phrase, T.Range, T.BaseApprox])
D3 = make_dispatch_visitor("visit_", [T.OrOperation, T.Group, T.Not, T.Boost])


LONG_LIVED = {}


class RecNew(V.PathTrackingTransformer):
    def generic_visit(self, node, context):
        self.seen.append((context.get("path"), context.get("new_parents"), context.get("parents")))
        yield from super().generic_visit(node, context)


class RecNewPlain(V.TreeTransformer):
    def generic_visit(self, node, context):
        self.seen.append((None, context.get("new_parents"), context.get("parents")))
        yield from super().generic_visit(node, context)


def node_at(t, path):
    for i in path:
        t = t.children[i]
    return t


def check(item):
    label, src = item
    if isinstance(src, str):
        try:
            t = parser.parse(src)
        except Exception:  # noqa: BLE001
            return 0, []
    else:
        t = src
    fails = []
    n = 0
    ref = list(reference(t))
    f0, l0 = TR.fingerprint(t), TR.layout(t)
    for vcls, kw, has_path in ((Rec, {}, False), (Rec, {"track_parents": True}, False), (RecPath, {}, True), (RecPath, {"track_parents": True}, True)):
        n += 1
        v = vcls(**kw)
        v.seen = []
        ctx = {"user": 42}
        snap = dict(ctx)
        try:
            v.visit(t, ctx) if not has_path else v.visit(t, ctx)
        except Exception as e:  # noqa: BLE001
            fails.append({"input": label, "signature": "raised", "observation": "%s(%r).visit raised %r" % (vcls.__name__, kw, e)})
            continue
        ok = len(v.seen) == len(ref)
        why = "visited %d nodes, the tree has %d" % (len(v.seen), len(ref))
        if ok:
            for (node, par, pth, user), (rn, rpar, rpath) in zip(v.seen, ref):
                if node is not rn:
                    ok, why = False, "order of visit differs at %r" % (rn,)
                elif kw.get("track_parents") and not (len(par or ()) == len(rpar) and all(a is b for a, b in zip(par or (), rpar))):
                    ok, why = False, "parents of %r are %r" % (rn, par)
                elif has_path and tuple(pth or ()) != rpath:
                    ok, why = False, "path of %r is %r, expected %r" % (rn, pth, rpath)
                elif user != 42:
                    ok, why = False, "user key lost at %r" % (rn,)
                if not ok:
                    break
        if ok and {k: v_ for k, v_ in ctx.items() if k == "user"} != snap:
            ok, why = False, "caller's context modified: %r" % (ctx,)
        if not ok:
            fails.append({"input": label, "signature": "trace", "observation": "%s(%r): %s" % (vcls.__name__, kw, why)})
    # dispatch with visitors of several classes used alternately
    # one long-lived instance of D4 meets trees with user-defined subclasses of concrete classes first, then the stock tree
    if "D4" not in LONG_LIVED:
        LONG_LIVED["D4"] = D4[0]()
    mixed = T.AndOperation(Tag("tagged"), T.Word("plain"), DateRange(T.Word("1"), T.Word("2")), T.Range(T.Word("3"), T.Word("4")),
                           XorOperation(T.Word("x"), Tag("y")), T.OrOperation(T.Word("p"), T.Word("q")), T.Term("bare"))
    for (cls, seen, names), prefix, inst, tree in ((D1, "visit_", None, t), (D2, "check_", None, t), (D3, "visit_", None, t), (D1, "visit_", None, t),
                                                    (D4, "visit_", LONG_LIVED["D4"], mixed), (D4, "visit_", LONG_LIVED["D4"], t), (D4, "visit_", None, mixed)):
        n += 1
        del seen[:]
        try:
            (inst if inst is not None else cls()).visit(tree)
        except Exception as e:  # noqa: BLE001
            fails.append({"input": label, "signature": "raised", "observation": "dispatch visitor raised %r" % (e,)})
            continue
        for node, nm in seen:
            want = expected_handler(prefix, type(node), names)
            if nm != want:
                fails.append({"input": label, "signature": "dispatch", "observation": "%s handled by %s, most specific existing handler is %s" % (type(node).__name__, nm, want)})
                break
    # chains of NEW ancestors handed to the handlers of a transformer (track_new_parents), by identity against the result
    for tcls, kw in ((RecNew, {"track_new_parents": True}), (RecNew, {"track_new_parents": True, "track_parents": True}),
                     (RecNewPlain, {"track_new_parents": True}), (RecNewPlain, {"track_new_parents": True, "track_parents": True})):
        n += 1
        tr = tcls(**kw)
        tr.seen = []
        try:
            y = tr.visit(t)
        except Exception as e:  # noqa: BLE001
            fails.append({"input": label, "signature": "raised", "observation": "%s(%r).visit raised %r" % (tcls.__name__, kw, e)})
            continue
        if len(tr.seen) != len(ref):
            fails.append({"input": label, "signature": "new-parents", "observation": "%s(%r): %d handler calls for %d nodes" % (tcls.__name__, kw, len(tr.seen), len(ref))})
            continue
        for (pth, newp, par), (rn, rpar, rpath) in zip(tr.seen, ref):
            want_new = [node_at(y, rpath[:i]) for i in range(len(rpath))]
            got_new = list(newp or ())
            if len(got_new) != len(want_new) or any(a is not b for a, b in zip(got_new, want_new)):
                fails.append({"input": label, "signature": "new-parents",
                              "observation": "%s(%r): new_parents of the node at %s are %r, the new ancestors are %r" % (tcls.__name__, kw, rpath, got_new, want_new)})
                break
            if kw.get("track_parents") and (len(par or ()) != len(rpar) or any(a is not b for a, b in zip(par or (), rpar))):
                fails.append({"input": label, "signature": "new-parents", "observation": "%s(%r): parents of the node at %s are %r" % (tcls.__name__, kw, rpath, par)})
                break
    # default copies
    for tcls, kw in ((V.TreeTransformer, {}), (V.TreeTransformer, {"track_parents": True}), (V.PathTrackingTransformer, {}), (V.PathTrackingTransformer, {"track_new_parents": True})):
        n += 1
        try:
            y = tcls(**kw).visit(t)
        except Exception as e:  # noqa: BLE001
            fails.append({"input": label, "signature": "raised", "observation": "%s(%r).visit raised %r" % (tcls.__name__, kw, e)})
            continue
        ids = {id(x) for x in gen.nodes(t) if x is not T.NONE_ITEM}
        pb = None
        if not (y == t) or TR.fingerprint(y) != f0:
            pb = "copy is not equal to the input"
        elif TR.layout(y) != l0:
            pb = "copy has another layout / other positions: %r vs %r" % (TR.layout(y)[:3], l0[:3])
        elif y.__str__(head_tail=True) != t.__str__(head_tail=True):
            pb = "copy prints %r" % (y.__str__(head_tail=True),)
        elif any(id(x) in ids for x in gen.nodes(y) if x is not T.NONE_ITEM):
            pb = "copy shares nodes with the input"
        elif TR.fingerprint(t) != f0 or TR.layout(t) != l0:
            pb = "input modified"
        if pb:
            fails.append({"input": label, "signature": "copy", "observation": "%s(%r): %s" % (tcls.__name__, kw, pb)})
        # ... and, in the same process (after the stock classes have been copied), a tree of user-defined classes with attributes of their own
        n += 1
        own = T.AndOperation(LangWord("bonjour", lang="fr"), T.Word("x"), Bracket(T.OrOperation(LangWord("hola", lang="es"), T.Word("y")), style="square"))
        try:
            y2 = tcls(**kw).visit(own)
            got = [(type(x).__name__, getattr(x, "lang", None), getattr(x, "style", None)) for x in gen.nodes(y2)]
            want = [(type(x).__name__, getattr(x, "lang", None), getattr(x, "style", None)) for x in gen.nodes(own)]
            if got != want or not (y2 == own) or not (own == y2) or any(a is b for a, b in zip(gen.nodes(y2), gen.nodes(own))):
                fails.append({"input": label, "signature": "copy-subclass", "observation": "%s(%r): copy of a tree of user-defined classes is %r, the input %r" % (tcls.__name__, kw, got, want)})
        except Exception as e:  # noqa: BLE001
            fails.append({"input": label, "signature": "raised", "observation": "%s(%r).visit of a tree of user-defined classes raised %r" % (tcls.__name__, kw, e)})
    return n, fails[:3]


def main():
    p = read_payload()
    items = [(q, q) for q in (gen.render(s, i % 3, sep=" ") for i, s in enumerate(gen.sequences(p["max_tokens"])))]
    items += [("odd:%d" % i, t) for i, t in enumerate(TR.odd_trees())]
    same = T.Word("same")
    items += [("repeated equal subtrees", T.AndOperation(T.Group(T.OrOperation(T.Word("a"), T.Word("b"))), T.Group(T.OrOperation(T.Word("a"), T.Word("b"))), T.Word("a"))),
              ("single operand", T.OrOperation(T.Word("x"))), ("no operand", T.AndOperation()), ("position zero", parser.parse("w")),
              ("implicit degrees", parser.parse("a~ \"b c\"~ d^"))]
    res = pmap(check, items)
    failures = [f for r in res for f in r[1]]
    rest, hit = classify(failures, p.get("known", []))
    emit({"ok": not rest, "evaluations": sum(r[0] for r in res), "distinct_nontrivial": len(items),
          "rule": "accepted token sequences of <= %d tokens + odd hand-built trees; 4 recording visitors, 3 dispatch visitor classes with 2 method "
                  "prefixes used alternately, 4 default transformers; distinct = trees" % p["max_tokens"],
          "bound": "token sequences <= %d" % p["max_tokens"], "samples": [{"query": "a AND (b OR c)"}],
          "failures": rest[:40], "known": hit, "known_covered": len(failures) - len(rest)})


if __name__ == "__main__":
    main()
