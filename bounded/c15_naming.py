"""C15-B (bounded safety net): on parsed queries from accepted token sequences of <= N tokens and on hand-built shapes (operations
with more than 52 and more than 104 operands, operations below several non-operations, several operations in different branches,
trees that already carry names, trees named twice, operands reused from separately named trees), after auto_name(tree):
 - exactly the direct operands of all operations carry a name, or the root alone when there is no operation;
 - the names are pairwise distinct;
 - the returned mapping is exactly {name of e: index path of e} and element_from_path(tree, path) is that element;
 - matching_from_names maps names to those paths."""
import copy

from common import read_payload, emit, pmap, classify
import gen

from luqum import tree as T
from luqum.naming import auto_name, get_name, set_name, element_from_path, element_from_name, matching_from_names
from luqum.parser import parser


def paths(n, path=()):
    yield n, path
    for i, c in enumerate(n.children):
        yield from paths(c, path + (i,))


def expected_named(t):
    out = []
    for n, p in paths(t):
        if isinstance(n, T.BaseOperation):
            for i, c in enumerate(n.operands):
                out.append((c, p + (i,)))
    return out or [(t, ())]


def check_tree(label, t):
    problems = []
    try:
        mapping = auto_name(t)
    except Exception as e:  # noqa: BLE001
        return ["auto_name raised %r" % (e,)]
    exp = expected_named(t)
    exp_ids = {id(e) for e, _ in exp}
    names = {}
    for e, p in exp:
        nm = get_name(e)
        if nm is None:
            problems.append("the element at %s has no name" % (p,))
            continue
        if nm in names:
            problems.append("name %r given to the elements at %s and %s" % (nm, names[nm], p))
        names[nm] = p
    for n, p in paths(t):
        if id(n) not in exp_ids and get_name(n) is not None and not PRENAMED.get(label):
            problems.append("the element at %s is named %r but is not an operand of an operation" % (p, get_name(n)))
    if not problems and dict(mapping) != names:
        extra = {k: v for k, v in dict(mapping).items() if names.get(k) != v}
        problems.append("mapping %r differs from the names carried by the tree %r" % (dict(list(extra.items())[:3]), dict(list(names.items())[:3])))
    if not problems:
        for nm, p in names.items():
            try:
                if get_name(element_from_path(t, p)) != nm or element_from_name(t, nm, mapping) is not element_from_path(t, p):
                    problems.append("element_from_path / element_from_name disagree for %r" % nm)
                    break
            except Exception as e:  # noqa: BLE001
                problems.append("element_from_path(%r) raised %r" % (p, e))
                break
        some = sorted(names)[:2]
        try:
            ok_, ko_ = matching_from_names(some[:1], mapping)
            if set(ok_) != {names[n] for n in some[:1]} or set(ko_) != {v for k, v in names.items() if k not in some[:1]}:
                problems.append("matching_from_names(%r) = %r / %r" % (some[:1], sorted(ok_)[:3], sorted(ko_)[:3]))
        except Exception as e:  # noqa: BLE001
            problems.append("matching_from_names raised %r" % (e,))
    return problems[:2]


PRENAMED = {}


def hand_built():
    W = T.Word
    out = []
    for k in (30, 53, 60, 110):
        out.append(("OR of %d words" % k, T.OrOperation(*[W("w%d" % i) for i in range(k)])))
        out.append(("OR of %d words and a group" % k, T.OrOperation(*([W("w%d" % i) for i in range(k)] + [T.Group(T.AndOperation(W("x"), W("y")))]))))
        out.append(("group first, then %d words" % k, T.OrOperation(T.Group(T.AndOperation(W("x"), W("y"))), *[W("w%d" % i) for i in range(k)])))
    out += [("field group", T.SearchField("f", T.FieldGroup(T.OrOperation(W("a"), W("b"))))),
            ("not group", T.Not(T.Group(T.OrOperation(W("a"), W("b"))))),
            ("boosted group", T.Boost(T.Group(T.AndOperation(W("a"), W("b"))), 2)),
            ("double group", T.Group(T.Group(T.OrOperation(W("a"), W("b"))))),
            ("deep", T.AndOperation(T.SearchField("f", T.FieldGroup(T.OrOperation(W("a"), T.Plus(T.Group(T.UnknownOperation(W("b"), W("c"))))))), T.Not(T.Group(T.OrOperation(W("d"), W("e")))))),
            ("single word", W("solo")), ("range", T.Range(W("1"), W("2"))), ("field", T.SearchField("f", W("x")))]
    # every class of operation, also the boolean one that the resolver builds, alone and nested
    from luqum.utils import UnknownOperationResolver
    out += [("boolean operation", T.BoolOperation(T.Plus(W("a")), T.Prohibit(W("b")), W("c"))),
            ("boolean operation from the resolver", UnknownOperationResolver(T.BoolOperation)(parser.parse("a +b -c (d e)"))),
            ("boolean operation below a group below an AND", T.AndOperation(W("x"), T.Group(T.BoolOperation(W("a"), T.Not(W("b")))))),
            ("implicit operation", T.UnknownOperation(W("a"), W("b"), T.Group(T.UnknownOperation(W("c"), W("d")))))]
    # an operation far below the root, under several levels that are not operations
    deep = T.OrOperation(W("a"), W("b"))
    for k in range(120):
        deep = [T.Group, T.Not, lambda x: T.SearchField("f", T.FieldGroup(x)), lambda x: T.Boost(x, 2), T.Plus][k % 5](deep)
    out.append(("an OR under 120 wrappers", deep))
    chain = T.AndOperation(W("a"), W("b"))
    for k in range(110):
        chain = T.AndOperation(W("l%d" % k), T.Group(chain))
    out.append(("110 nested AND groups", chain))
    # trees that already carry names
    t1 = parser.parse("a AND b")
    auto_name(t1)
    t2 = parser.parse("c OR d OR e")
    auto_name(t2)
    out.append(("two separately named trees joined", T.AndOperation(t1, t2)))
    t3 = parser.parse("x AND (y OR z)")
    auto_name(t3)
    out.append(("named twice", t3))
    t4 = parser.parse("p OR q")
    auto_name(t4)
    t4.children = [T.Word("new")] + list(t4.children)
    out.append(("operand inserted in front of a named tree", t4))
    w = T.Word("alone")
    set_name(w, "zz")
    out.append(("pre-named word as second operand", T.AndOperation(T.Word("first"), w)))
    return out


def check(item):
    label, src = item
    if isinstance(src, str):
        try:
            t = parser.parse(src)
        except Exception:  # noqa: BLE001
            return 0, []
    else:
        t = src
    pbs = check_tree(label, t)
    return 1, [{"input": label, "signature": pb.split(" ")[0], "observation": pb} for pb in pbs]


def after_failures():
    """a call that raises (a tree with something that is not an item in it, a visit interrupted half-way) leaves nothing behind: the
    next trees are named as by a fresh interpreter"""
    fails = []
    n = 0
    broken = [T.AndOperation(T.Word("a"), T.OrOperation(T.Word("b"), None)), T.Group(T.UnknownOperation(T.Word("x"), 42, T.Word("y"))),
              T.OrOperation(T.Word("p"), T.Not(T.AndOperation(T.Word("q"), "not an item")))]
    for k, bad in enumerate(broken):
        try:
            auto_name(bad)
            continue            # tolerated: nothing to check
        except Exception:  # noqa: BLE001
            pass
        for label, t in (("a lone word", T.Word("foo")), ("a OR b", parser.parse("a OR b")), ("x AND (y z)", parser.parse("x AND (y z)"))):
            n += 1
            for pb in check_tree("%s, named after a call that raised (%d)" % (label, k), t):
                fails.append({"input": label, "signature": "history", "observation": pb})
    return n, fails[:3]


def main():
    p = read_payload()
    items = [(q, q) for q in (gen.render(s, i % 3, sep=" ") for i, s in enumerate(gen.sequences(p["max_tokens"])))]
    items += [(lab, t) for lab, t in hand_built()]
    res = pmap(check, items)
    res.append(after_failures())
    failures = [f for r in res for f in r[1]]
    rest, hit = classify(failures, p.get("known", []))
    emit({"ok": not rest, "evaluations": sum(r[0] for r in res), "distinct_nontrivial": len(items),
          "rule": "accepted token sequences of <= %d tokens + %d hand-built shapes (30 / 53 / 60 / 110 operands with and without nested operations, "
                  "operations below several non-operations, pre-named / re-named / joined trees); distinct = trees" % (p["max_tokens"], len(hand_built())),
          "bound": "token sequences <= %d" % p["max_tokens"], "samples": [{"query": "a AND (b OR c)", "mapping": {k: list(v) for k, v in auto_name(parser.parse("a AND (b OR c)")).items()}}],
          "failures": rest[:40], "known": hit, "known_covered": len(failures) - len(rest)})


if __name__ == "__main__":
    main()
