"""Independent reference parser written from the STATEMENT of C03 (not from luqum's grammar file):

  juxtaposition (implicit operation) binds loosest, then OR, then AND, then the prefixes + - NOT and `field:`,
  with the suffixes ^ and ~ binding tightest; chains of one operator flatten into a single n-ary node; parentheses
  give a group (a field group when they directly follow `field:`); bracket / brace kind and < <= > >= set range
  inclusiveness; TO is a plain word outside a range.

It works on the token list produced by luqum's own lexer (token types and texts only; the reserved-word and
token-boundary rules of the lexer are covered by the character-level part of the bounded check) and builds
luqum.tree objects so that results can be compared with `==` and by fingerprint."""
from luqum import tree as T


class Reject(Exception):
    pass


STARTS_OPERAND = {"TERM", "PHRASE", "REGEX", "TO", "LPAREN", "LBRACKET", "LESSTHAN", "GREATERTHAN", "PLUS", "MINUS", "NOT"}


class Ref:
    def __init__(self, toks):
        self.toks = toks      # [(type, text)]
        self.i = 0

    def peek(self, k=0):
        return self.toks[self.i + k][0] if self.i + k < len(self.toks) else None

    def take(self, typ=None):
        if self.i >= len(self.toks) or (typ is not None and self.toks[self.i][0] != typ):
            raise Reject()
        t = self.toks[self.i]
        self.i += 1
        return t

    def parse(self):
        e = self.implicit()
        if self.i != len(self.toks):
            raise Reject()
        return e

    @staticmethod
    def nary(cls, items):
        if len(items) == 1:
            return items[0]
        flat = []
        for x in items:
            if type(x) is cls:
                flat.extend(x.operands)      # a chain of one operator is one n-ary node
            else:
                flat.append(x)
        return cls(*flat)

    def implicit(self):
        items = [self.or_()]
        while self.peek() in STARTS_OPERAND:
            items.append(self.or_())
        return self.nary(T.UnknownOperation, items)

    def or_(self):
        items = [self.and_()]
        while self.peek() == "OR_OP":
            self.take()
            items.append(self.and_())
        return self.nary(T.OrOperation, items)

    def and_(self):
        items = [self.unary()]
        while self.peek() == "AND_OP":
            self.take()
            items.append(self.unary())
        return self.nary(T.AndOperation, items)

    def unary(self):
        t = self.peek()
        if t == "PLUS":
            self.take()
            return T.Plus(self.unary())
        if t == "MINUS":
            self.take()
            return T.Prohibit(self.unary())
        if t == "NOT":
            self.take()
            return T.Not(self.unary())
        if t == "TERM" and self.peek(1) == "COLUMN":
            name = self.take()[1]
            self.take()
            directly_group = self.peek() == "LPAREN"
            e = self.unary()
            if directly_group:
                e = self.to_field_group(e)
            return T.SearchField(name, e)
        return self.postfix()

    @staticmethod
    def to_field_group(e):
        """the parentheses that directly follow `field:` are a field group (whatever suffix follows them)"""
        if type(e) is T.Group:
            return T.FieldGroup(e.expr)
        if type(e) is T.Boost:
            return T.Boost(Ref.to_field_group(e.expr), e.force if not e.implicit_force else None)
        return e

    def postfix(self):
        t = self.peek()
        if t == "TERM" and self.peek(1) == "APPROX":
            w = T.Word(self.take()[1])
            e = T.Fuzzy(w, self.num(self.take()[1]))
        elif t == "PHRASE" and self.peek(1) == "APPROX":
            ph = T.Phrase(self.take()[1])
            e = T.Proximity(ph, self.num(self.take()[1]))
        else:
            e = self.primary()
        while self.peek() == "BOOST":
            e = T.Boost(e, self.num(self.take()[1]))
        if self.peek() == "APPROX":
            raise Reject()
        return e

    @staticmethod
    def num(text):
        return text[1:] or None

    def primary(self):
        t = self.peek()
        if t == "TERM":
            return T.Word(self.take()[1])
        if t == "TO":
            return T.Word(self.take()[1])
        if t == "PHRASE":
            return T.Phrase(self.take()[1])
        if t == "REGEX":
            return T.Regex(self.take()[1])
        if t == "LPAREN":
            self.take()
            e = self.implicit()
            self.take("RPAREN")
            return T.Group(e)
        if t == "LBRACKET":
            lo = self.take()[1]
            a = self.bound()
            self.take("TO")
            b = self.bound()
            hi = self.take("RBRACKET")[1]
            return T.Range(a, b, lo == "[", hi == "]")
        if t in ("LESSTHAN", "GREATERTHAN"):
            op = self.take()[1]
            x = self.term_or_phrase()
            return (T.To if op[0] == "<" else T.From)(x, op.endswith("="))
        raise Reject()

    def term_or_phrase(self):
        t = self.peek()
        if t == "TERM":
            return T.Word(self.take()[1])
        if t == "PHRASE":
            return T.Phrase(self.take()[1])
        raise Reject()

    def bound(self):
        if self.peek() == "MINUS":
            self.take()
            return T.Prohibit(self.term_or_phrase())
        return self.term_or_phrase()


def reference_parse(tokens):
    """tokens: [(type, text)].  Returns a tree or raises Reject / a numeric conversion error"""
    return Ref(tokens).parse()
