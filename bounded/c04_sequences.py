"""C04-B (bounded, audit of A8's statefulness clause): every sequence of <= N parse calls over a pool of valid
and invalid inputs, on both entry points; each outcome (tree with layout and positions, or exception type and
message) must equal the outcome of the same input parsed first in a fresh interpreter state."""
import itertools

from common import read_payload, emit, pmap, classify

import luqum.parser as P
import luqum.thread as TH
from luqum.exceptions import ParseError

POOL = ["a", " a  OR b ", "a AND", "(a", "a^2.5 b~ \"c d\"~3", "f:(x y)", "[1 TO", "[1 TO 2]", "a:b:c", "\\", "",
        "  ", "a ^", "'", "a OR", "NOT", "TO", "<=3 >x", "+a -b", "a~1.2.3", "\"unterminated", "/re/ x", "a)b",
        "\t-\tx\n", "~", "x^.", "{a TO b]", "a AND b OR c d", "é　ü", "a\\ b", "[a %d]", "x:[10% 20%]", "TO~2", "TO:x", "price:[10 TO", "{a b", "<TO",
        "a^1234567890123456789012345678901234", "a~0.123456789012345678901234567891", "a\nb AND OR c", "OR"]


DEEP = [("3000 nested parentheses", "(" * 3000 + "a" + ")" * 3000), ("3000 chained NOT", "NOT " * 3000 + "a"), ("2000 nested fields", "f:" * 2000 + "a"),
        ("3000 chained boosts", "a" + "^1" * 3000), ("a field group with 3000 chained boosts", "f:(a)" + "^1" * 3000), ("3000 chained +", "+" * 3000 + "a"),
        ("5000 operands of AND", " AND ".join(["a"] * 5000)), ("5000 implicit operands", "a " * 5000), ("3000 open brackets", "[" * 3000),
        ("1500 nested field groups", "f:(" * 1500 + "a" + ")" * 1500), ("a 5000 digit proximity", '"a b"~' + "1" * 5000), ("a 5000 digit boost", "a^" + "9" * 5000),
        ("a 100000 character word", "w" * 100000), ("3000 unclosed groups", "(a " * 3000),
        # beyond the largest exponent of the decimal context
        ("a 1000001 digit boost", "a^" + "9" * 1000001), ("a 1000001 digit fuzziness", "a~" + "9" * 1000001), ("a 1000001 digit proximity", '"a b"~' + "1" * 1000001),
        ("a field group with a 1000001 digit boost", "f:(a b)^" + "9" * 1000001),
        # texts that libraries behind the parser may choke on: regex bodies that Python's re refuses, a backslash before a line break inside
        # quotes / slashes, format directives, lone surrogates, NUL
        ("regex body with an open class", "/[a/"), ("regex body with an open group", "f:/a(b/"), ("regex body starting with a star", "/*a/"),
        ("regex body with a bad repeat", "name:(/ab{2,1}c/ AND foo)"), ("regex body with a bad escape", "/\\p{x}(?P<n>/"),
        ("phrase with a backslash before a line break", "\"foo\\\nbar\""), ("regex with a backslash before a line break", "/ab+\\\nc/"),
        ("range bound with a backslash before a line break", "f:[a TO \"z\\\n\"]"), ("format directives", "%s %(x)s {0} {x} {} %d"),
        ("format directives in a phrase and a field", "{f}:\"%s {0}\"^2 {"), ("NUL and a lone surrogate", "a\x00b \ud800 c"), ("malformed numerals", "foo~1.2.3 \"a b\"~1.5 c^. f:(x y)^2^1..5"),
        # an error to report about a very deep operand
        ("3000 nested parentheses with a malformed boost", "(" * 3000 + "a b" + ")" * 3000 + "^1.2.3"), ("3000 chained NOT with a malformed fuzziness", "NOT " * 3000 + "a~1.2.3"),
        ("3000 nested field groups with a fractional proximity", "f:(" * 3000 + "\"a b\"~1.5" + ")" * 3000), ("a byte order mark first", "\ufeffa b"), ("blanks then a byte order mark", "   \ufeffa b")]


def dump(t):
    out = []

    def rec(n):
        out.append((type(n).__name__, n.pos, n.size, n.head, n.tail,
                    tuple((k, str(v)) for k, v in sorted(vars(n).items())
                          if k in ("value", "name", "include_low", "include_high", "include", "degree", "force"))))
        for c in n.children:
            rec(c)
    rec(t)
    return tuple(out)


def outcome(fn, q):
    try:
        t = fn(q)
    except ParseError as e:
        return ("ParseError", type(e).__name__, str(e))
    except Exception as e:  # noqa: BLE001
        return ("OTHER", type(e).__name__, str(e))
    if t is None:
        return ("NONE",)
    return ("tree", dump(t), t.__str__(head_tail=True))


ENTRY = {"parser": lambda q: P.parser.parse(q), "thread": lambda q: TH.parse(q)}
REF = {}


def work(item):
    entries, seq = item
    fails = []
    n = 0
    for e, i in zip(entries, seq):
        q = POOL[i]
        o = outcome(ENTRY[e], q)
        n += 1
        if o != REF[q]:
            fails.append({"input": q, "entry": e, "sequence": [POOL[j] for j in seq], "observation": repr(o)[:300],
                          "expected": repr(REF[q])[:300]})
        if o[0] in ("OTHER", "NONE"):
            fails.append({"input": q, "entry": e, "sequence": [POOL[j] for j in seq], "observation": repr(o)[:300]})
    return n, fails


def main():
    p = read_payload()
    N = p["max_calls"]
    import subprocess, sys, json, os
    # reference outcomes: each input parsed first in a fresh interpreter
    code = ("import json,sys\nsys.path.insert(0, %r)\nimport c04_sequences_ref as r\n" % os.path.dirname(__file__))
    for q in POOL:
        r = subprocess.run([sys.executable, os.path.join(os.path.dirname(__file__), "c04_ref.py")], input=json.dumps(q),
                           capture_output=True, text=True, env=os.environ)
        REF[q] = tuple(_tuplify(json.loads(r.stdout)))
    items = []
    for k in range(1, N + 1):
        for seq in itertools.product(range(len(POOL)), repeat=k):
            for entries in itertools.product(("parser", "thread"), repeat=k):
                if k > 1 and len(set(entries)) == 1 and entries[0] == "thread" and k == N and N > 2:
                    pass
                items.append((entries, seq))
    res = pmap(work, items)
    evaluations = sum(r[0] for r in res)
    failures = [f for r in res for f in r[1]]
    # totality on deep / long inputs: nothing but a tree or a ParseError, through both entry points
    from luqum.exceptions import ParseError
    for name, q in DEEP:
        for entry in ("parser", "thread"):
            evaluations += 1
            try:
                ENTRY[entry](q)
            except ParseError:
                pass
            except BaseException as e:  # noqa: BLE001
                failures.append({"sequence": [name], "entries": [entry], "signature": "deep",
                                 "observation": "%s (%d characters) raised %s instead of a tree or a ParseError" % (name, len(q), type(e).__name__)})
    rest, hit = classify(failures, p.get("known", []))
    emit({"ok": not rest, "evaluations": evaluations, "distinct_nontrivial": len(items),
          "rule": "all sequences of 1..%d parse calls over a pool of %d inputs (valid, invalid, illegal characters, "
                  "malformed numerals, unbalanced delimiters) x all assignments of the two entry points; distinct = "
                  "distinct (entry-point, input) sequences; every outcome compared with a fresh-interpreter run; + %d deep / long / library-hostile inputs (thousands of nested or chained constructs, million-digit numerals, regex bodies re refuses, ...) that must give a tree or a ParseError" % (N, len(POOL), len(DEEP)),
          "bound": "sequence length <= %d, pool of %d inputs" % (N, len(POOL)),
          "samples": [{"sequence": ["a AND", " a  OR b "], "entries": ["parser", "thread"]}],
          "failures": rest[:30], "known": hit})


def _tuplify(x):
    if isinstance(x, list):
        return tuple(_tuplify(y) for y in x)
    return x


if __name__ == "__main__":
    main()
