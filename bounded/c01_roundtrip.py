"""C01-B / C02-B (bounded safety net and audit of A8): for every accepted token-type sequence of <= N tokens,
rendered with several whitespace layouts (none, single blanks, mixed Unicode blanks incl. newlines, leading and
trailing runs), printing the parsed tree reproduces the query (C01) and every node's pos/size/head/tail locate
its text, children nested in order, root span = whole input (C02).  No blank is put before a field colon (known
finding KF-D1, decided precisely by the deductive part)."""
import random
import re
from decimal import Decimal, InvalidOperation

from common import read_payload, emit, pmap, classify
import gen

from luqum.parser import parser

BLANKS = [" ", "  ", "\t", "\n", " \n ", "\n  ", "\r\n", "　", "  ", "\x0b", " ", " \t\n"]


def norm(s):
    def rep(m):
        try:
            return m.group(1) + format(Decimal(m.group(2)).normalize(), "f")
        except InvalidOperation:
            return m.group(0)
    return re.sub(r"([~^])([0-9.]+)", rep, s)


def layouts(seq, rnd):
    """query strings for one token sequence"""
    out = [gen.render(seq, 0, sep=""), " " + gen.render(seq, 1, sep=" ") + " "]
    # mixed blanks: a random blank (or none where allowed) in every gap, never before a colon
    for variant in (2, 3):
        parts = []
        prev = None
        toks = []
        for i, t in enumerate(seq):
            toks.append(gen.render((t,), variant + i))
        q = rnd.choice(BLANKS + [""])
        for i, t in enumerate(seq):
            if i > 0:
                gap = rnd.choice(BLANKS + ["", ""])
                if t == "COLUMN":
                    gap = ""
                if not gap and gen.needs_space(seq[i - 1], t):
                    gap = rnd.choice(BLANKS)
                q += gap
            q += toks[i]
        q += rnd.choice(BLANKS + [""])
        out.append(q)
    return out


def check_query(q, want):
    fails = []
    try:
        t = parser.parse(q)
    except Exception:  # noqa: BLE001  not accepted (e.g. a non-integer proximity): outside the property's quantifier
        return []
    if "C01" in want:
        out = t.__str__(head_tail=True)
        if out != q:
            ok = norm(out) == norm(q)
            if ok:      # the re-spelled text must be read by the parser as the same tree
                try:
                    t2 = parser.parse(out)
                    ok = (t2 == t) and t2.__str__(head_tail=True) == out
                except Exception:  # noqa: BLE001
                    ok = False
            if not ok:
                fails.append({"input": q, "property": "C01", "observation": "printed %r" % out})
    if "C02" in want:
        s, e = t.span(head_tail=True)
        if (s, e) != (0, len(q)):
            fails.append({"input": q, "property": "C02", "observation": "root widened span %r != (0, %d)" % ((s, e), len(q))})
        for n in gen.nodes(t):
            if n.pos is None or n.size is None:
                fails.append({"input": q, "property": "C02", "observation": "%r has no pos/size" % n})
                continue
            a, b = n.span()
            if norm(q[a:b]) != norm(n.__str__()):
                fails.append({"input": q, "property": "C02", "observation": "%r: q[%d:%d]=%r but prints %r" % (n, a, b, q[a:b], n.__str__())})
            a2, b2 = n.span(head_tail=True)
            if norm(q[a2:b2]) != norm(n.__str__(head_tail=True)):
                fails.append({"input": q, "property": "C02", "observation": "%r: widened q[%d:%d]=%r but prints %r" % (n, a2, b2, q[a2:b2], n.__str__(head_tail=True))})
            prev = a2
            for c in n.children:
                if c.pos is None:
                    continue
                c0, c1 = c.span(head_tail=True)
                if c0 < prev or c1 > b2:
                    fails.append({"input": q, "property": "C02", "observation": "%r: child span (%d,%d) outside/overlapping (%d,%d)" % (n, c0, c1, a2, b2)})
                prev = c1
    return fails[:3]


WANT = set()
SEED = 0


#: longer constructs the enumerated sequences do not reach (implicit numerals after groups in fields, comparison operators first with
#: leading blanks, mixed leading blanks, signed range bounds followed by blanks, words that look like operators)
CURATED = ["title:(foo bar)^", "title:foo^ bar", "title:(foo bar)^^2", "t:(a b)~", "f:\"p q\"~ x", "(a b)^ c~", " <5", "\t>10 AND foo", "  <5^2 OR bar", " <= \"a b\" c",
           "\n a", " \n a", "\t\n+ a", "\r\n\r\nf:[1 TO 2]", "[-1 TO 5]", "[ 1 TO -2 ]", "[ -1  TO  -2 ] x", "f:[-\"a b\" TO *] ", "a && b", "a || b", "f:(a && b)^2",
           "a &&\tb\n||  c^2 ", "x:(y:(z:(w OR v) AND u)^2 AND t)~ ", "NOT  -  + a ", " ( ( a ) ) ", "a^ ^2", "TO TO TO", "[TO TO TO]", "a:TO",
           # escapes inside field names, a byte order mark, backslash + line break inside a term (refused today: must stay consistent if ever accepted)
           "first\\ name:x", "a\\:b:c", "outer:(in\\(ner\\):z)", "f\\*g:(h i)^2", "\ufeffab cd", "\ufeff f:x AND y", "x:(foo\\\nbar baz) OR c", "[a\\\nb TO c]",
           "foo\\\nbar",
           # keywords in another case are plain words; decomposed / compatibility characters, zero-width characters and escaped blanks are data
           "foo and bar", "not foo", "[a to b]", "a Or b AnD c", "f:(x or y) AND to", "cafe\u0301 \u212b \u2126", "f:\"e\u0301\" /e\u0301+/", "a\u200bb \u1100\u1161",
           "foo\\  bar", "f\\ :x", "a\\\t AND b", "TO ^2 TO~ a", "x^2 ^3 ^ y"]


def work(item):
    i, seq = item
    rnd = random.Random(SEED * 1000003 + i)
    fails = []
    n = 0
    if isinstance(seq, str):
        return 1, check_query(seq, WANT)
    for q in layouts(seq, rnd):
        n += 1
        fails.extend(check_query(q, WANT))
    return n, fails


def main():
    global WANT, SEED
    p = read_payload()
    WANT = set(p["want"])
    SEED = p.get("seed", 0)
    seqs = gen.sequences(p["max_tokens"])
    res = pmap(work, list(enumerate(seqs)) + [(-1 - k, q) for k, q in enumerate(CURATED)])
    failures = [f for r in res for f in r[1]]
    rest, hit = classify(failures, p.get("known", []))
    emit({"ok": not rest, "evaluations": sum(r[0] for r in res), "distinct_nontrivial": len([s for s in seqs if len(s) > 1]),
          "rule": "every accepted token-type sequence of <= %d tokens x 4 whitespace layouts (none / single blanks with leading and "
                  "trailing blank / two seeded mixes of Unicode blanks incl. newlines) + %d curated longer queries; non-trivial = more than one token" % (p["max_tokens"], len(CURATED)),
          "bound": "token sequences of length <= %d, 4 layouts each" % p["max_tokens"],
          "samples": [{"query": layouts(seqs[len(seqs) // 3], random.Random(1))[2]}],
          "failures": rest[:40], "known": hit})


if __name__ == "__main__":
    main()
