"""C06-B (bounded): the multiset of leaf clauses of the generated query equals the multiset predicted from the tree by a
table written from the statement and the class documentation (field, value, kind, modifiers, zero_terms_query, _name, per
field options); the result is plain JSON data; the same builder called twice and a fresh builder give identical results."""
import copy
import json
import re

from common import read_payload, emit, pmap, classify
import es_corpus
import es_ref as R

from luqum import tree as T
from luqum.elasticsearch import ElasticsearchQueryBuilder
from luqum.exceptions import InconsistentQueryException
from luqum.naming import auto_name, get_name, set_name
from luqum.parser import parser



def has_unescaped_wildcard(q):
    """written from the statement ("unescaped * or ?"): a backslash escapes the character that follows it"""
    i = 0
    while i < len(q):
        if q[i] == "\\":
            i += 2
            continue
        if q[i] in "*?":
            return True
        i += 1
    return False


def odd_backslashes_before_wildcard(q):
    """known finding D15: three or more (an odd number of) backslashes directly in front of * or ?"""
    return bool(re.search(r"(?<!\\)(\\\\)+\\[*?]", q))


CONFIGS = []
for default in ("".join(["sho", "uld"]), "".join(["mu", "st"])):      # equal to, but not the same object as, the builder's constants
    for nested in (None, {"n": {"x": None, "y": None, "m": ["z"]}}):
        for na in ([], ["text", "t", "o.x", "n.x", "n.y", "n.m.z"], ["t", "n.x"]):
            for opts, mwp in (({}, False), ({"t": {"match_type": "match_phrase"}, "text": {"analyzer": "english"}, "n.x": {"type": "match_phrase"}}, False),
                              ({}, True)):
                CONFIGS.append({"default_operator": default, "nested_fields": nested, "not_analyzed_fields": na,
                                "field_options": opts, "match_word_as_phrase": mwp})

EXTRA = ["a*", "t:b?c", "*", "t:*", "n.x:*", "t:\\*", "\"p  q\\nr\"", "t:\"u v\"", "t:\"w*\"", "h~", "t:h~0.8", "\"i j\"~", "t:\"i j\"~2", "k^2.5",
         "(a b)^3", "t:[* TO 5]", "t:{1 TO *}", "t:[-1 TO 5]", "t:[ -1  TO  -5 ]", "t:{-2 TO \"a b\" ]", "[-3 TO 4}^2", "t:[* TO *]", "t:[\"a b\" TO c]", "t:x^2~", "+t:y", "-t:z", "NOT t:y", "t:(y z)", "t:(y AND z)",
         "n:(x:d^2)", "n.x:\"e f\"~1", "o.x:g~1",
         # escapes: quotes inside phrases (first / last character), escaped wildcards, escaped backslash before a real wildcard
         "t:\"he said \\\"hello\\\"\"", "\"\\\"q\\\" x\"", "t:\"a\\\"\"", "t:C\\:\\\\*", "t:x\\\\?y", "t:x\\*y", "t:x\\\\\\*", "n.x:v\\\\*", "t:\\?", "t:\\\\"]


def queries(max_leaves):
    out = list(es_corpus.queries(min(max_leaves, 2)))
    for a in EXTRA:
        out += [a, "a AND " + a, a + " OR b", "NOT " + a, "c " + a, "(" + a + " AND d) OR e", "+" + a + " f"]
    return list(dict.fromkeys(out))


def nested_wrapped(full, npaths):
    return any(".".join(full[:i]) in npaths for i in range(1, len(full) + 1))


def predict(t, cfgd, named):
    """expected leaf clauses, as canonical JSON strings"""
    npaths = R.nested_paths(cfgd["nested_fields"])
    default = cfgd["default_operator"]
    na = cfgd["not_analyzed_fields"]
    opts = cfgd["field_options"]
    out = []

    def rec(n, prefix, conj, name, mods):
        nm = type(n).__name__
        own = get_name(n)
        name = own if own else name
        if nm == "SearchField":
            full = prefix + n.name.split(".")
            # a nested wrapper is an operation of its own: the leaf is no longer directly under the conjunction
            if R.nested_paths and any(".".join(full[:i]) in npaths and ".".join(full[:i]) not in entered[0] for i in range(1, len(full) + 1)):
                new = [".".join(full[:i]) for i in range(1, len(full) + 1) if ".".join(full[:i]) in npaths and ".".join(full[:i]) not in entered[0]]
                entered[0] = entered[0] | set(new)
                rec(n.expr, full, False, name, mods)
                entered[0] = entered[0] - set(new)
            else:
                rec(n.expr, full, conj, name, mods)
            return
        if nm in ("Group", "FieldGroup"):
            rec(n.expr, prefix, conj, name, mods)
            return
        if nm == "Boost":
            direct = type(n.expr).__name__ in ("Word", "Phrase", "Range", "Fuzzy", "Proximity", "Regex")
            # the statement ties a boost to the term it is written on; what a boost on a group / field means for the
            # clauses below is not specified: no expectation there (see strip_boost)
            rec(n.expr, prefix, conj, name, dict(mods, boost=float(n.force)) if direct else mods)
            return
        if nm in ("Fuzzy", "Proximity"):
            rec(n.term, prefix, conj, name, dict(mods, approx=(nm, float(n.degree))))
            return
        if nm in ("Not", "Prohibit"):
            rec(n.a, prefix, False, name, mods)
            return
        if nm == "Plus":
            rec(n.a, prefix, True, name, mods)
            return
        if isinstance(n, T.BaseOperation):
            c = nm == "AndOperation" or (nm == "UnknownOperation" and default == "must")
            for ch in n.operands:
                rec(ch, prefix, c, name, mods)
            return
        field = ".".join(prefix) if prefix else "text"
        analysed = field not in na
        fo = dict(opts.get(field, {}))
        mt = fo.pop("match_type", None)
        if not mt:
            ty = fo.pop("type", None)
        else:
            ty = None
        inner = dict(fo)
        if nm == "Range":
            for b, incl, hi in ((n.low, n.include_low, False), (n.high, n.include_high, True)):
                v = bound_value(b)
                if v and v != "*":
                    inner[("lte" if incl else "lt") if hi else ("gte" if incl else "gt")] = v
            clause = {"range": {field: inner}}
            extra(inner, mods, name, None)
            out.append(json.dumps(clause, sort_keys=True))
            return
        if nm == "Phrase":
            if analysed:
                text = re.sub(r"\s+", " ", n.value)[1:-1]
                method = mt or ty or "match_phrase"
                inner["query"] = text
                if method == "match":
                    inner["zero_terms_query"] = "all" if conj else "none"
                ap = mods.get("approx")
                clause = {method: {field: inner}}
                extra(inner, mods, name, "slop" if ap else None)
                out.append(json.dumps(clause, sort_keys=True))
                return
            q = n.value[1:-1]
        else:
            q = n.value
        # word (or phrase on a not analysed field)
        ap = mods.get("approx")
        if q == "*" and nm != "Phrase" or (q == "*" and nm == "Phrase"):
            clause = {"exists": {"field": field}}
            if name is not None:
                clause["exists"]["_name"] = name
            out.append(json.dumps(clause, sort_keys=True))
            return
        wild = has_unescaped_wildcard(q)
        if ap:
            method = "fuzzy"
            if wild:
                method = "wildcard" if not analysed else "query_string"
        elif not analysed:
            method = "wildcard" if wild else "term"
        elif wild:
            method = "query_string"
        else:
            base = "match_phrase" if cfgd["match_word_as_phrase"] else "match"
            method = mt or ty or base
        if method == "query_string":
            inner.update({"query": q, "default_field": field, "analyze_wildcard": True, "allow_leading_wildcard": True})
            extra(inner, mods, name, "fuzziness" if ap else None)
            out.append(json.dumps({"query_string": inner}, sort_keys=True))
            return
        if "match" in method:
            inner["query"] = q
            if method == "match":
                inner["zero_terms_query"] = "all" if conj else "none"
        else:
            inner["value"] = q
        extra(inner, mods, name, "fuzziness" if ap else None)
        out.append(json.dumps({method: {field: inner}}, sort_keys=True))

    entered = [set()]
    rec(t, [], False, None, {})
    return sorted(out)


def bound_value(b):
    if type(b).__name__ == "Prohibit":
        return "-" + bound_value(b.a)
    return b.value


def extra(inner, mods, name, approx_key):
    if "boost" in mods:
        inner["boost"] = mods["boost"]
    if approx_key:
        inner[approx_key] = mods["approx"][1]
    if name is not None:
        inner["_name"] = name


def leaves_of(js, strip_boost=False):
    out = []
    for kind, body, enclosing, _ in R.es_leaves(js):
        c = json.loads(json.dumps({kind: body}))
        if strip_boost:
            for v in c.values():
                if isinstance(v, dict):
                    v.pop("boost", None)
                    for w in v.values():
                        if isinstance(w, dict):
                            w.pop("boost", None)
        out.append(json.dumps(c, sort_keys=True))
    return sorted(out)


def has_indirect_boost(t):
    stack = [t]
    while stack:
        n = stack.pop()
        if type(n).__name__ == "Boost" and type(n.expr).__name__ not in ("Word", "Phrase", "Range", "Fuzzy", "Proximity", "Regex"):
            return True
        stack.extend(n.children)
    return False


def leaves_of_strings(exp):
    out = []
    for x in exp:
        c = json.loads(x)
        for v in c.values():
            if isinstance(v, dict):
                v.pop("boost", None)
                for w in v.values():
                    if isinstance(w, dict):
                        w.pop("boost", None)
        out.append(json.dumps(c, sort_keys=True))
    return out


def plain(x):
    if isinstance(x, dict):
        return all(isinstance(k, str) and plain(v) for k, v in x.items())
    if isinstance(x, list):
        return all(plain(v) for v in x)
    return type(x) in (str, float, int, bool, type(None))


def _all_nodes(n):
    yield n
    for c in n.children:
        yield from _all_nodes(c)


def partial_names(t, how):
    """names on part of the tree only (auto_name names every operand): the first / the last operand of every operation, or only the
    non-leaf constructs (groups, field groups, fields, boosts, fuzzy / proximity)"""
    k = [0]

    def nm(x):
        set_name(x, "p%d" % k[0])
        k[0] += 1
    for x in list(_all_nodes(t)):
        if how == "containers":
            if type(x).__name__ in ("Group", "FieldGroup", "SearchField", "Boost", "Fuzzy", "Proximity") and x is not t:
                nm(x)
        elif isinstance(x, T.BaseOperation) and x.operands:
            nm(x.operands[0] if how == "first" else x.operands[-1])


def check(item):
    q, ci = item
    cfgd = CONFIGS[ci]
    try:
        base = parser.parse(q)
    except Exception:  # noqa: BLE001
        return 0, []
    fails = []
    n = 0
    d15 = any(odd_backslashes_before_wildcard(x.value) for x in _all_nodes(base) if type(x).__name__ == "Word")
    for kind, t0 in es_corpus.trees_for(q):
        for named in ((False, True, "first", "last", "containers") if ci % PARTIAL_EVERY == 0 else (False, True)):
            n += 1
            t = copy.deepcopy(t0) if named else t0
            if named is True:
                auto_name(t)
            elif named:
                partial_names(t, named)
            b = ElasticsearchQueryBuilder(**cfgd)
            try:
                js = b(t)
            except InconsistentQueryException:
                continue
            except Exception as e:  # noqa: BLE001
                fails.append({"input": q, "tree": kind, "config": ci, "signature": "raised", "observation": "raised %r" % (e,)})
                continue
            try:
                exp = predict(t, cfgd, named)
            except Exception as e:  # noqa: BLE001
                fails.append({"input": q, "tree": kind, "config": ci, "signature": "predictor", "observation": "predictor failed %r" % (e,)})
                continue
            got = leaves_of(js, strip_boost=has_indirect_boost(t))
            if has_indirect_boost(t):
                exp = sorted(json.dumps(json.loads(x), sort_keys=True) for x in leaves_of_strings(exp))
            if got != exp:
                fails.append({"input": q, "tree": kind, "config": ci, "named": named, "signature": "leaves", "odd_backslashes_before_wildcard": d15,
                              "observation": "leaf clauses %s, expected %s (config %r)" % (
                                  [x for x in got if x not in exp][:3], [x for x in exp if x not in got][:3], {k: v for k, v in cfgd.items() if v})})
            if not plain(js):
                fails.append({"input": q, "tree": kind, "config": ci, "signature": "plain", "observation": "result is not plain JSON data: %r" % (js,)})
            js2 = b(t)
            js3 = ElasticsearchQueryBuilder(**cfgd)(t)
            if json.dumps(js, sort_keys=True) != json.dumps(js2, sort_keys=True) or json.dumps(js, sort_keys=True) != json.dumps(js3, sort_keys=True):
                fails.append({"input": q, "tree": kind, "config": ci, "signature": "history",
                              "observation": "second call / fresh builder differ: %s vs %s vs %s" % (json.dumps(js)[:200], json.dumps(js2)[:200], json.dumps(js3)[:200])})
    return n, fails[:2]


PARTIAL_EVERY = 1


def main():
    global PARTIAL_EVERY
    p = read_payload()
    PARTIAL_EVERY = p.get("partial_every", 1)
    qs = queries(p["max_leaves"])
    items = [(q, ci) for q in qs for ci in range(len(CONFIGS))]
    res = pmap(check, items)
    failures = [f for r in res for f in r[1]]
    rest, hit = classify(failures, p.get("known", []))
    emit({"ok": not rest, "evaluations": sum(r[0] for r in res), "distinct_nontrivial": len(items),
          "rule": "%d queries (C05 corpus up to 2 leaves + wildcard / exists / phrase / fuzzy / proximity / boost / open range / named "
                  "variants) x %d configurations (default operator x nested x not-analysed sets x field options x match_word_as_phrase), "
                  "unnamed, auto-named and three partial namings (first / last operand of each operation, containers only) on every %d-th configuration; distinct = pairs" % (len(qs), len(CONFIGS), PARTIAL_EVERY),
          "bound": "<= %d leaves per query" % p["max_leaves"], "samples": [{"query": "t:\"u v\"~2", "leaves": leaves_of(ElasticsearchQueryBuilder()(parser.parse("t:\"u v\"~2")))}],
          "failures": rest[:40], "known": hit, "known_covered": len(failures) - len(rest)})


if __name__ == "__main__":
    main()
