"""Reference semantics for the Elasticsearch translation (C05/C06/C07), written from the property statements:

* den(tree): AND all, OR any, implicit the configured default, NOT / - the complement, + the operand, boolean operation
  = Lucene boolean (all `+`, no `-`/NOT, at least one other operand when there is no `+`), boost / group / field group the
  operand, a field path that crosses a declared nested path (not yet entered) = SOME nested object satisfies the
  sub-query.
* esden(json): ES bool (all must, no must_not, at least one should when there is no must), nested(path, q) = some object of
  that path satisfies q; a leaf on a field below a nested path matches only inside a nested clause of that path.
* documents: a root object and, per declared nested path, 0..K nested objects (K given), each with a truth value per atom;
  an atom is (full field name, text of the term).
"""
import itertools

from luqum import tree as T


# ------------------------------------------------------------------------------------------------ configuration
def nested_paths(spec, prefix=()):
    """full dotted paths of the nested CONTAINERS declared by a nested_fields spec: every key whose value lists sub
    fields (a non-empty dict or list), at any depth, and every top-level key ("keys are names of nested fields")"""
    out = set()
    if isinstance(spec, dict):
        for k, v in spec.items():
            p = prefix + tuple(k.split("."))
            if v:
                out.add(".".join(p))
                out |= nested_paths(v, p)
            elif not prefix:
                out.add(".".join(p))          # the keys of the spec itself are nested fields, also when no sub field is listed for them
    return out


def leafless_levels(spec, prefix=()):
    """known finding D16: declared nested containers none of whose direct sub fields is a leaf"""
    out = set()
    if isinstance(spec, dict):
        for k, v in spec.items():
            p = prefix + tuple(k.split("."))
            if v:
                if isinstance(v, dict) and all(v.values()):
                    out.add(".".join(p))
                out |= leafless_levels(v, p)
    return out


def touches_leafless_level(t, spec, prefix=()):
    """the tree names a field at or below a leafless nested level"""
    lv = leafless_levels(spec)
    if not lv:
        return False

    def rec(n, prefix):
        if type(n).__name__ == "SearchField":
            prefix = prefix + tuple(n.name.split("."))
            full = ".".join(prefix)
            if any(full == p or full.startswith(p + ".") for p in lv):
                return True
        return any(rec(c, prefix) for c in n.children)
    return rec(t, ())


def innermost_nested(field, npaths):
    best = None
    parts = field.split(".")
    for i in range(1, len(parts) + 1):
        p = ".".join(parts[:i])
        if p in npaths and i < len(parts):
            best = p
    return best


def crossed(field, npaths):
    """nested containers on the way to `field` (strict prefixes), outermost first"""
    parts = field.split(".")
    out = []
    for i in range(1, len(parts)):
        p = ".".join(parts[:i])
        if p in npaths:
            out.append(p)
    return out


# ------------------------------------------------------------------------------------------------ atoms
def leaf_text(n):
    nm = type(n).__name__
    if nm in ("Word", "Regex", "Term"):
        return n.value
    if nm == "Phrase":
        return " ".join(n.value[1:-1].split())
    if nm in ("Fuzzy", "Proximity"):
        return leaf_text(n.term)
    if nm == "Range":
        return "%s%s TO %s%s" % ("[" if n.include_low else "{", leaf_text(n.low), leaf_text(n.high), "]" if n.include_high else "}")
    raise ValueError(nm)


def tree_atoms(n, prefix, default_field, out):
    nm = type(n).__name__
    if nm == "SearchField":
        tree_atoms(n.expr, prefix + n.name.split("."), default_field, out)
    elif nm in ("Word", "Phrase", "Regex", "Range", "Fuzzy", "Proximity"):
        out.append((".".join(prefix) if prefix else default_field, leaf_text(n)))
    else:
        for c in n.children:
            tree_atoms(c, prefix, default_field, out)


# ------------------------------------------------------------------------------------------------ documents
class Doc:
    """root: {atom: bool}; objs: {nested path: [ (vals {atom: bool}, parent index or None) ]}"""

    def __init__(self, root, objs):
        self.root = root
        self.objs = objs


def documents(atoms, npaths, K=2):
    """every document over the atoms: a truth value per root atom and, per nested path (outermost first), 0..K objects
    per parent object, each with a truth value per atom of that path"""
    atoms = sorted(set(atoms))
    by_path = {}
    for a in atoms:
        by_path.setdefault(innermost_nested(a[0], npaths), []).append(a)
    paths = sorted([p for p in by_path if p is not None] +
                   [q for p in by_path if p for q in crossed(p + ".x", npaths) if q not in by_path], key=lambda p: p.count("."))
    paths = sorted(set(paths), key=lambda p: (p.count("."), p))
    root_atoms = by_path.get(None, [])

    def valuations(ats):
        for bits in itertools.product((False, True), repeat=len(ats)):
            yield dict(zip(ats, bits))

    def objects_for(path, nparents):
        """all ways to give 0..K objects to each of nparents parent objects"""
        ats = by_path.get(path, [])
        per_parent = []
        for k in range(0, K + 1):
            for combo in itertools.product(list(valuations(ats)), repeat=k):
                per_parent.append(list(combo))
        for assign in itertools.product(per_parent, repeat=nparents):
            objs = []
            for pi, lst in enumerate(assign):
                for v in lst:
                    objs.append((v, pi))
            yield objs

    def rec(i, objs):
        if i == len(paths):
            yield dict(objs)
            return
        p = paths[i]
        parent = None
        for q in reversed(crossed(p + ".x", npaths)[:-1] if p in npaths else []):
            parent = q
            break
        anc = [q for q in crossed(p, npaths)]
        parent = anc[-1] if anc else None
        nparents = 1 if parent is None else len(objs.get(parent, []))
        for o in objects_for(p, nparents):
            objs2 = dict(objs)
            objs2[p] = o
            yield from rec(i + 1, objs2)

    for rv in valuations(root_atoms):
        for objs in rec(0, {}):
            yield Doc(rv, objs)


def atom_value(doc, atom, scope, npaths):
    p = innermost_nested(atom[0], npaths)
    if p is None:
        return doc.root.get(atom, False)
    if p not in scope:
        return None       # not reachable from here
    return doc.objs[p][scope[p]][0].get(atom, False)


def objects_under(doc, path, scope, npaths):
    """indices of the objects of `path` visible from the current scope"""
    anc = crossed(path, npaths)
    parent = anc[-1] if anc else None
    out = []
    for i, (vals, pi) in enumerate(doc.objs.get(path, [])):
        if parent is None or (parent in scope and pi == scope[parent]):
            out.append(i)
    return out


# ------------------------------------------------------------------------------------------------ tree semantics
def den(n, doc, cfg, prefix=(), scope=None):
    scope = scope or {}
    npaths = cfg["npaths"]
    nm = type(n).__name__
    if nm == "SearchField":
        full = list(prefix) + n.name.split(".")
        # nested containers newly crossed (or reached) by this field name
        new = []
        for i in range(1, len(full) + 1):
            p = ".".join(full[:i])
            if p in npaths and p not in scope and i <= len(full):
                # the container itself counts when the sub-query continues below it (nested group spelling)
                new.append(p)
        return exists_chain(new, lambda sc: den(n.expr, doc, cfg, tuple(full), sc), doc, scope, npaths)
    if nm in ("Group", "FieldGroup", "Boost", "Plus"):
        return den(n.children[0], doc, cfg, prefix, scope)
    if nm in ("Not", "Prohibit"):
        return not den(n.children[0], doc, cfg, prefix, scope)
    if isinstance(n, T.BaseOperation):
        if nm == "BoolOperation":
            must = [c for c in n.operands if type(c).__name__ == "Plus"]
            mnot = [c for c in n.operands if type(c).__name__ in ("Prohibit", "Not")]
            should = [c for c in n.operands if c not in must and c not in mnot]
            ok = all(den(c, doc, cfg, prefix, scope) for c in must) and all(den(c, doc, cfg, prefix, scope) for c in mnot)
            if should and not must:
                ok = ok and any(den(c, doc, cfg, prefix, scope) for c in should)
            return ok
        vals = [den(c, doc, cfg, prefix, scope) for c in n.operands]
        if nm == "AndOperation" or (nm == "UnknownOperation" and cfg["default"] == "must"):
            return all(vals)
        return any(vals)
    field = ".".join(prefix) if prefix else cfg["default_field"]
    v = atom_value(doc, (field, leaf_text(n)), scope, npaths)
    return bool(v)


def exists_chain(paths, body, doc, scope, npaths):
    if not paths:
        return body(scope)
    p = paths[0]
    for i in objects_under(doc, p, scope, npaths):
        sc = dict(scope)
        sc[p] = i
        if exists_chain(paths[1:], body, doc, sc, npaths):
            return True
    return False


# ------------------------------------------------------------------------------------------------ ES semantics
LEAF_KINDS = ("term", "match", "match_phrase", "fuzzy", "wildcard", "query_string", "multi_match", "range", "exists", "prefix", "regexp")


def es_leaf_atom(kind, body):
    if kind == "exists":
        return (body["field"], "*")
    if kind in ("query_string", "multi_match"):
        return (body.get("default_field"), " ".join(str(body.get("query")).split()))
    (field, inner), = [(k, v) for k, v in body.items() if k not in ("_name", "boost")] or [(None, None)]
    if kind == "range":
        lo = inner.get("gte", inner.get("gt", "*"))
        hi = inner.get("lte", inner.get("lt", "*"))
        il = "gt" not in inner
        ih = "lt" not in inner
        return (field, "%s%s TO %s%s" % ("[" if il else "{", lo, hi, "]" if ih else "}"))
    text = inner.get("value", inner.get("query")) if isinstance(inner, dict) else inner
    return (field, " ".join(str(text).split()))


def esden(q, doc, cfg, scope=None):
    scope = scope or {}
    npaths = cfg["npaths"]
    (kind, body), = q.items()
    if kind == "bool":
        must = body.get("must", []) + body.get("filter", [])
        mnot = body.get("must_not", [])
        should = body.get("should", [])
        ok = all(esden(c, doc, cfg, scope) for c in must) and not any(esden(c, doc, cfg, scope) for c in mnot)
        if should and not must:
            ok = ok and any(esden(c, doc, cfg, scope) for c in should)
        return ok
    if kind == "nested":
        p = body["path"]
        chain = [x for x in crossed(p, npaths) + ([p] if p in npaths else []) if x not in scope]
        if p not in npaths:
            return False
        return exists_chain(chain, lambda sc: esden(body["query"], doc, cfg, sc), doc, scope, npaths)
    if kind in LEAF_KINDS:
        atom = es_leaf_atom(kind, body)
        v = atom_value(doc, atom, scope, npaths)
        return bool(v)       # None (nested field outside its nested clause) matches nothing
    raise ValueError("unknown ES clause %r" % kind)


def es_leaves(q, path=()):
    """(kind, body, enclosing nested paths, parent clause kind) of every leaf clause"""
    (kind, body), = q.items()
    if kind == "bool":
        for sect in ("must", "should", "must_not", "filter"):
            for c in body.get(sect, []):
                yield from ((k, b, np, sect if np2 is None else np2) for k, b, np, np2 in es_leaves(c, path))
    elif kind == "nested":
        yield from es_leaves(body["query"], path + (body["path"],))
    else:
        yield kind, body, path, None


# ------------------------------------------------------------------------------------------------ C07 predicates
def is_must(n, default):
    return type(n).__name__ == "AndOperation" or (type(n).__name__ == "UnknownOperation" and default == "must")


def is_should(n, default):
    return type(n).__name__ == "OrOperation" or (type(n).__name__ == "UnknownOperation" and default == "should")


def flat_operands(n):
    out = []
    for c in n.children:
        if type(c) is type(n):
            out.extend(flat_operands(c))
        else:
            out.append(c)
    return out


def has_mix(n, default):
    """an AND-like operation with an un-parenthesised OR-like direct operand (after flattening chains of the same
    operator), or vice versa; implicit operations count as the configured default"""
    if isinstance(n, T.BaseOperation) or type(n).__name__ in ("Not", "Prohibit", "Plus"):
        ops = flat_operands(n) if isinstance(n, T.BaseOperation) or True else list(n.children)
        for c in ops:
            if (is_must(n, default) and is_should(c, default)) or (is_should(n, default) and is_must(c, default)):
                return True
    return any(has_mix(c, default) for c in n.children)


def spec_paths(spec, prefix=()):
    """dotted leaf paths denoted by a field spec given as nested dicts / lists / dotted names / None"""
    out = set()
    if spec is None:
        return out
    if isinstance(spec, dict):
        for k, v in spec.items():
            p = prefix + (k,)
            if v:
                out |= spec_paths(v, p)
            else:
                out.add(".".join(p))
    else:
        for k in spec:
            out.add(".".join(prefix + (k,)))
    return out


def container_misuse(n, cfg, prefix=()):
    """expected exception name for the first term (document order) attached directly to a declared nested / object
    container, or to an undeclared dotted field while object and sub fields are both declared; None otherwise"""
    nm = type(n).__name__
    if nm == "SearchField":
        return container_misuse(n.expr, cfg, prefix + tuple(n.name.split(".")))
    if nm in ("Word", "Phrase", "Regex", "Term"):
        if not prefix:
            return None
        full = ".".join(prefix)
        nested_leaves = spec_paths(cfg["nested_fields"])
        nested_containers = nested_paths(cfg["nested_fields"])      # every declared nested level, with or without direct leaves
        object_leaves = cfg["object_fields"]
        if full in nested_containers:
            return "NestedSearchFieldException"
        if object_leaves is not None and full in {p.rsplit(".", 1)[0] for p in object_leaves}:
            return "NestedSearchFieldException"
        if len(prefix) > 1 and object_leaves is not None and cfg["sub_fields"] is not None:
            if full not in cfg["sub_fields"] and full not in object_leaves and full not in nested_leaves:
                return "ObjectSearchFieldException"
        return None
    for c in n.children:
        r = container_misuse(c, cfg, prefix)
        if r:
            return r
    return None


# ------------------------------------------------------------------------------------------------ known findings
def etype(n, default, npaths=(), prefix=()):
    nm = type(n).__name__
    if nm == "Plus" or nm == "AndOperation" or (nm == "UnknownOperation" and default == "must"):
        return "must"
    if nm in ("Not", "Prohibit"):
        return "must_not"
    if nm in ("OrOperation", "UnknownOperation"):
        return "should"
    if nm == "BoolOperation":
        return "bool"
    if nm == "SearchField":
        full = list(prefix) + n.name.split(".")
        if any(".".join(full[:i]) in npaths for i in range(1, len(full) + 1)):
            return "nested"
        return etype(n.expr, default, npaths, tuple(full))
    if nm in ("Group", "FieldGroup", "Boost"):
        return etype(n.children[0], default, npaths, prefix)
    return "leaf"


def bool_splices_nonprefix(t, default, npaths=()):
    """known finding D13: a boolean operation with a direct operand that is NOT a + / - / NOT prefix but translates to a
    must / must_not clause (an AND, an implicit operation read as AND, or a group / boost / field around one)"""
    def rec(n, prefix):
        if type(n).__name__ == "BoolOperation":
            for c in n.operands:
                if type(c).__name__ not in ("Plus", "Not", "Prohibit") and etype(c, default, npaths, prefix) in ("must", "must_not"):
                    return True
        pre = prefix + tuple(n.name.split(".")) if type(n).__name__ == "SearchField" else prefix
        return any(rec(c, pre) for c in n.children)
    return rec(t, ())
