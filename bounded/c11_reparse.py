"""C11-B / L-PP (bounded): for every query from accepted token sequences of <= N tokens and every shipped transformer
(default copy, UnknownOperationResolver x 4 targets, OpenRangeTransformer merge off/on, auto_head_tail):
T(parse(q)) printed and parsed again has the same boolean meaning (truth table over terms with their fields and
modifiers, implicit operations of the re-parsed tree read with the transformer's own convention) as T(parse(q))."""
from common import read_payload, emit, pmap, classify
import gen
import meaning
import trees as TR

from luqum import tree as T
from luqum.auto_head_tail import auto_head_tail
from luqum.parser import parser
from luqum.utils import UnknownOperationResolver, OpenRangeTransformer
from luqum.visitor import TreeTransformer


def _operand(t):
    import copy
    t = copy.deepcopy(t)
    return T.Group(t) if isinstance(t, (T.BaseOperation, T.Plus, T.Prohibit, T.Not)) else t


def transformers():
    out = [("copy", lambda t: TreeTransformer().visit(t), None),
           ("auto_head_tail", lambda t: auto_head_tail(gen.strip_layout(t)), None),       # on the tree as built by hand (no layout)
           ("auto_head_tail/parsed", auto_head_tail, None),
           # parsed queries grafted below hand-built nodes (negate a user query, add a filter to it)
           ("auto_head_tail/grafted-not", lambda t: auto_head_tail(T.Not(_operand(t))), None),
           ("auto_head_tail/grafted-and", lambda t: auto_head_tail(T.AndOperation(T.SearchField("status", T.Word("active")), _operand(t))), None),
           ("open_range", OpenRangeTransformer(merge_ranges=False), None),
           ("open_range+merge", OpenRangeTransformer(merge_ranges=True), None)]
    for name, target in (("resolve:AND", T.AndOperation), ("resolve:OR", T.OrOperation), ("resolve:BOOL", T.BoolOperation),
                         ("resolve:lucene", None)):
        r = UnknownOperationResolver(target)
        out.append((name, r, r))
    return out


TRANSFORMERS = transformers()


def mixed_implicit(t, transformer=None):
    """known finding D9: an implicit operation with an un-parenthesised AND/OR operand, or an implicit operation that is
    itself an un-parenthesised operand of an AND/OR - where the explicit operator differs from the one the implicit operation is
    resolved to (resolved to the SAME operator the chain is merely flattened on re-parsing, which keeps the meaning)"""
    same = {"resolve:AND": T.AndOperation, "resolve:OR": T.OrOperation}.get(transformer)
    kinds = tuple(k for k in (T.AndOperation, T.OrOperation) if k is not same)
    for n in gen.nodes(t):
        if isinstance(n, T.UnknownOperation) and any(isinstance(c, kinds) for c in n.operands):
            return True
        if isinstance(n, kinds) and any(isinstance(c, T.UnknownOperation) for c in n.operands):
            return True
    return False


def glued_implicit(t):
    """known finding D14: an implicit operation one of whose operands (but the last) is not followed by a blank, so that
    the operator word written by the resolver touches it ('b(c)' -> 'bAND (c)')"""
    for n in gen.nodes(t):
        if isinstance(n, T.UnknownOperation):
            for c in n.operands[:-1]:
                s = c.__str__(head_tail=True)
                if not s or not s[-1].isspace():
                    return True
    return False


def check(q):
    fails = []
    try:
        t = parser.parse(q)
    except Exception:  # noqa: BLE001
        return 0, []
    n = 0
    f0, l0 = TR.fingerprint(t), TR.layout(t)
    for name, tr, reader in TRANSFORMERS:
        n += 1
        try:
            t2 = tr(t)
        except Exception as e:  # noqa: BLE001
            fails.append({"input": q, "transformer": name, "mixed_implicit": mixed_implicit(t, name), "glued_implicit": glued_implicit(t), "observation": "transformer raised %r" % (e,)})
            continue
        s = t2.__str__(head_tail=True)
        try:
            t3 = parser.parse(s)
        except Exception as e:  # noqa: BLE001
            fails.append({"input": q, "transformer": name, "mixed_implicit": mixed_implicit(t, name), "glued_implicit": glued_implicit(t), "printed": s,
                          "observation": "printed %r is not accepted: %s" % (s, e)})
            continue
        t3r = reader(t3) if reader is not None else t3
        diff = meaning.same_meaning(t2, t3r)
        if diff:
            fails.append({"input": q, "transformer": name, "mixed_implicit": mixed_implicit(t, name), "glued_implicit": glued_implicit(t), "printed": s,
                          "signature": name, "observation": "printed %r re-parses to %r: %s" % (s, t3, diff)})
    if TR.fingerprint(t) != f0 or TR.layout(t) != l0:
        fails.append({"input": q, "transformer": "any", "mixed_implicit": False, "observation": "input tree modified"})
    return n, fails[:3]


# constructs the enumerated token sequences do not reach: open ranges spelled with `*` (the only ones that are merged), negative
# and quoted bounds, merges inside fields / groups, blanks around comparison operators, repeated operands
CURATED = [
    "[* TO 5] AND [1 TO *]", "[1 TO *] AND [* TO 5]", "[* TO 5] AND [-5 TO *]", "[-5 TO *] AND [* TO 5]", "{* TO 5} AND {1 TO *}",
    "f:[* TO 5] AND f:[1 TO *]", "f:([* TO 5] AND [1 TO *])", "[* TO \"k l\"] AND [\"a b\" TO *]", "[* TO 5] AND x AND [1 TO *]",
    "[* TO 5] AND [1 TO *] AND [* TO 9]", "[* TO 5]  AND  [-1 TO *]^2", ">1 AND <5", "> 1 AND < 5", ">=1 AND <=5 AND >3", "a AND >-1 AND <-5",
    "f:(>1 AND <5)", ">\"a b\" AND <\"k l\"", "<5 AND [1 TO *]", "[* TO 5] AND >1", "x OR (>1 AND <5 AND y)", "> 1", "a < 5 b", "f:>= 1",
    "a b a", "a a", "f:x y f:x", "\"x y\" z \"x y\"", "a~2 b a~2", "(a OR b) c (a OR b)", "a OR b OR a", "a AND b AND a", "f:(a b a)",
    "NOT a NOT a", "+a -b +a", "a^2 b^2 a^2", "[1 TO 2] [1 TO 2]",
    "x OR price:foo AND >1 AND <5", "x OR -a AND >1 AND <5", "x OR \"p q\" AND [* TO 5] AND [1 TO *]", "y (a AND >1 AND <5)", "NOT z AND >1 AND <5 OR w",
    "[-10 TO -1]", "f:[-10 TO -1]", "NOT [-5 TO -2]", "a AND [-2 TO -1] OR b",
]


def main():
    p = read_payload()
    qs = list(CURATED)
    for i, seq in enumerate(gen.sequences(p["max_tokens"])):
        qs.append(gen.render(seq, i % 3, sep=" "))
        if i % 5 == 0:
            qs.append(gen.render(seq, 1, sep=""))
        if i % 4 == 1 and any(t in gen.TRICKY for t in seq):
            qs.append(gen.render_tricky(seq, i))
    res = pmap(check, qs)
    failures = [f for r in res for f in r[1]]
    rest, hit = classify(failures, p.get("known", []))
    emit({"ok": not rest, "evaluations": sum(r[0] for r in res), "distinct_nontrivial": len(qs),
          "rule": "queries = accepted token sequences of <= %d tokens (single blanks; every 5th also with minimal blanks; every 4th with texts that probe token boundaries: escapes, reserved words in other case, quotes / operators inside phrases) + the curated list "
                  "(open ranges spelled with *, negative / quoted bounds, blanks after comparison operators, repeated operands) x %d "
                  "transformer configurations; meaning compared by truth table over atoms (term, field path, modifiers); distinct = queries"
                  % (p["max_tokens"], len(TRANSFORMERS)),
          "bound": "token sequences <= %d" % p["max_tokens"],
          "samples": [{"query": "a >b OR c", "transformer": "open_range", "printed": str(OpenRangeTransformer()(parser.parse("a >b OR c")))}],
          "failures": rest[:40], "known": hit, "known_covered": len(failures) - len(rest)})


if __name__ == "__main__":
    main()
