"""C03-P (bounded): differential check of the real parser against the independent reference parser (refparser.py)
on every accepted token-type sequence of <= N tokens (plus sequences one token beyond the accepted frontier that the
reference accepts), each in two whitespace layouts, and once more with texts that probe token boundaries and reserved words (escapes, lower / mixed
case and embedded reserved words, phrases / regexes ending in an escaped backslash): same accept/reject decision, equal trees (== and fingerprint),
and the two layouts give equal trees."""
import random

from common import read_payload, emit, pmap, classify
import gen
import refparser
import trees as TR

from luqum.parser import parser
from luqum.exceptions import ParseError

ACTION = parser.action
PRODS = parser.productions


def pieces(seq, variant):
    return [(t, gen.render((t,), variant + i)) for i, t in enumerate(seq)]


#: texts that probe the token boundaries and the reserved-word rule (the statement: reserved words are operators only as whole
#: unescaped tokens, in their documented upper-case spelling; a backslash escapes the next character, also inside phrases / regexes)
TRICKY = gen.TRICKY


def pieces_tricky(seq, variant):
    out = []
    for i, t in enumerate(seq):
        if t in TRICKY:
            opts = TRICKY[t]
            out.append((t, opts[(variant * 7 + i * 3) % len(opts)]))
        else:
            out.append((t, gen.render((t,), variant + i)))
    return out


def join(toks, layout, rnd):
    out = ""
    for i, (t, txt) in enumerate(toks):
        if i > 0:
            prev = toks[i - 1][0]
            if layout == 0:
                # a numeral directly after ~ or ^ belongs to that token: a following text that starts like a numeral needs a blank
                gap = " " if gen.needs_space(prev, t) or (prev in ("APPROX", "BOOST") and txt[:1] in "0123456789.") else ""
            else:
                gap = rnd.choice([" ", "  ", "\t", "\n ", "  "])
                if t == "COLUMN":
                    gap = ""
            out += gap
        out += txt
    return out


def binary_reduce_states():
    """LALR states that contain a completed item E -> E AND/OR E .  (identified by their item, not by number)"""
    prods = {i for i, p in enumerate(PRODS) if p.len == 3 and p.str.split("->")[1].split()[1] in ("AND_OP", "OR_OP")}
    return {s for s, acts in ACTION.items() if any(-a in prods for a in acts.values() if a < 0)}


BIN_STATES = binary_reduce_states()


def lr_prefers_prefix_over_and_or(types):
    """known finding D4: does the real parser's LR run on this token sequence SHIFT a + - or TO while a completed
    `E AND/OR E` is on the stack?"""
    stack = [0]
    for tok in list(types) + ["$end"]:
        while True:
            a = ACTION[stack[-1]].get(tok)
            if a is None:
                return False
            if a > 0:
                if stack[-1] in BIN_STATES and tok in ("PLUS", "MINUS", "TO"):
                    return True
                stack.append(a)
                break
            if a == 0:
                return False
            p = PRODS[-a]
            del stack[-p.len:]
            stack.append(parser.goto[stack[-1]][p.name])
    return False


def outcome(fn):
    try:
        return ("tree", fn())
    except (ParseError, refparser.Reject):
        return ("reject", None)
    except Exception as e:  # noqa: BLE001  numeric conversion in the reference = reject as well
        return ("reject", None) if type(e).__name__ in ("InvalidOperation", "ValueError") else ("error", repr(e))


SEED = 0


def _t(*texts):
    """token list from texts (types read off the texts)"""
    kinds = {":": "COLUMN", "-": "MINUS", "+": "PLUS", "(": "LPAREN", ")": "RPAREN", "[": "LBRACKET", "{": "LBRACKET", "]": "RBRACKET", "}": "RBRACKET",
             "AND": "AND_OP", "OR": "OR_OP", "NOT": "NOT", "TO": "TO", "<": "LESSTHAN", "<=": "LESSTHAN", ">": "GREATERTHAN", ">=": "GREATERTHAN"}
    out = []
    for x in texts:
        k = kinds.get(x) or ("PHRASE" if x[:1] == '"' else "REGEX" if x[:1] == "/" else "APPROX" if x[:1] == "~" else "BOOST" if x[:1] == "^" else "TERM")
        out.append((k, x))
    return out


#: intended token lists whose texts meet without a blank in the minimal layout: signs, digits and colons next to each other, keywords
#: glued to brackets, signed phrases as range bounds, a time expression next to other colons
PROBES = [_t("x-10", ":", "30"), _t("a+05", ":", "45"), _t("level-10", ":", "20", "OR", "b"), _t("utf-16", ":", "42"), _t("a", "-", "10", ":", "30"),
          _t("NOT", "[", "a", "TO", "b", "]"), _t("x", "AND", "{", "a", "TO", "b", "]"), _t("x", "OR", "[", "1", "TO", "2", "]"), _t("price", ":", "[", "1", "TO", "5", "]", "OR", "[", "7", "TO", "9", "]"),
          _t("[", "-", '"a"', "TO", "b", "]"), _t("[", '"a"', "TO", "-", '"b"', "}"), _t("f", ":", "{", "-", '"1 000"', "TO", "-", '"10"', "]"), _t("x", "AND", "[", "-", '"5"', "TO", "5", "]"),
          _t("2020-01-01T10:30:00"), _t("2020-01-01T10:30:00+02", ":", "00"), _t("d", ":", "2020-01-01T10:30", "OR", "t12", ":", "30"), _t("NOT", "(", "a", ")", "AND", "(", "b", ")"),
          _t("TO", "^2"), _t("TO", ":", "x"), _t("a", "TO", "b"), _t("[", "TO", "TO", "TO", "]"), _t("+", "-", "a"), _t("a", "^2", "^3", "~1"), _t('"p"', "~2", "^3", "x"),
          _t("<", "a"), _t("<=", '"a b"', "OR", ">", "1"), _t("f", ":", "<", "5", "g", ":", ">=", "x")]


def check(item):
    idx, seq = item
    rnd = random.Random(SEED * 104729 + idx)
    if seq and isinstance(seq[0], tuple):
        toks = list(seq)
        seq = tuple(t for t, _ in toks)
    else:
        toks = pieces(seq, idx % 3)
    fails = []
    trees = []
    n = 0
    for layout in (0, 1):
        q = join(toks, layout, rnd)
        n += 1
        real = outcome(lambda: parser.parse(q))
        ref = outcome(lambda: refparser.reference_parse(toks))
        if real[0] == "error" or ref[0] == "error":
            fails.append({"input": q, "types": list(seq), "observation": "unexpected exception %r / %r" % (real[1], ref[1])})
            continue
        if real[0] != ref[0]:
            fails.append({"input": q, "types": list(seq), "signature": "accept-mismatch",
                          "observation": "real parser: %s, reference: %s" % (real[0], ref[0])})
            continue
        if real[0] == "tree":
            trees.append(real[1])
            if not (real[1] == ref[1]) or TR.fingerprint(real[1]) != TR.fingerprint(ref[1]):
                fails.append({"input": q, "types": list(seq), "signature": "structure",
                              "observation": "real %r, expected %r" % (real[1], ref[1])})
    if any(t in TRICKY for t in seq) and toks == pieces(seq, idx % 3):
        tt = pieces_tricky(seq, idx)
        q = join(tt, idx % 2, rnd)
        n += 1
        real = outcome(lambda: parser.parse(q))
        ref = outcome(lambda: refparser.reference_parse(tt))
        if real[0] == "error" or ref[0] == "error":
            fails.append({"input": q, "types": list(seq), "observation": "unexpected exception %r / %r" % (real[1], ref[1])})
        elif real[0] != ref[0]:
            fails.append({"input": q, "types": list(seq), "signature": "accept-mismatch-tricky-texts",
                          "observation": "real parser: %s, reference on the intended tokens %r: %s" % (real[0], [x for _, x in tt], ref[0])})
        elif real[0] == "tree" and (not (real[1] == ref[1]) or TR.fingerprint(real[1]) != TR.fingerprint(ref[1])):
            fails.append({"input": q, "types": list(seq), "signature": "structure-tricky-texts",
                          "observation": "real %r, expected %r" % (real[1], ref[1])})
    if len(trees) == 2 and not (trees[0] == trees[1] and TR.fingerprint(trees[0]) == TR.fingerprint(trees[1])):
        fails.append({"input": join(toks, 0, rnd), "types": list(seq), "signature": "layout-dependence",
                      "observation": "two whitespace layouts give different trees: %r vs %r" % (trees[0], trees[1])})
    return n, fails[:2]


def main():
    global SEED
    p = read_payload()
    SEED = p.get("seed", 0)
    N = p["max_tokens"]
    seqs = gen.sequences(N)
    # one token beyond the accepted frontier: sequences the reference accepts but the automaton rejects
    extra = []
    if p.get("frontier", True):
        accepted = set(seqs)
        types = list(gen.TEXTS)
        for s in [s for s in seqs if len(s) == min(N, 3)]:
            for t in types:
                for pos in range(len(s) + 1):
                    c = s[:pos] + (t,) + s[pos:]
                    if c not in accepted and len(c) <= N + 1:
                        try:
                            refparser.reference_parse(pieces(c, 0))
                            extra.append(c)
                        except Exception:  # noqa: BLE001
                            pass
        extra = sorted(set(extra))[:5000]
    # hand-picked longer sequences: constructs that need three nested levels (field > prefix > group, boosted groups in fields,
    # ranges with signed bounds inside operations)
    deep = [("TERM", "COLUMN", pre, "LPAREN", "TERM", "TERM", "RPAREN") + suf
            for pre in ("MINUS", "PLUS", "NOT") for suf in ((), ("BOOST",))]
    deep += [("TERM", "COLUMN", "PLUS", "MINUS", "LPAREN", "TERM", "OR_OP", "TERM", "RPAREN"),
             ("TERM", "COLUMN", "LPAREN", "MINUS", "LPAREN", "TERM", "TERM", "RPAREN", "RPAREN"),
             ("TERM", "COLUMN", "LPAREN", "TERM", "TERM", "RPAREN", "BOOST", "BOOST"),
             ("MINUS", "TERM", "COLUMN", "LPAREN", "TERM", "TERM", "RPAREN"),
             ("TERM", "COLUMN", "MINUS", "TERM", "COLUMN", "LPAREN", "TERM", "TERM", "RPAREN"),
             ("TERM", "COLUMN", "LBRACKET", "MINUS", "TERM", "TO", "TERM", "RBRACKET", "AND_OP", "NOT", "TERM"),
             ("TERM", "AND_OP", "TERM", "OR_OP", "TERM", "AND_OP", "TERM", "TERM", "OR_OP", "TERM"),
             ("LPAREN", "TERM", "OR_OP", "TERM", "RPAREN", "AND_OP", "NOT", "LPAREN", "TERM", "TERM", "RPAREN", "BOOST")]
    deep = [d for d in deep if d not in set(seqs)]
    allseqs = seqs + extra + deep
    res = pmap(check, list(enumerate(allseqs + [tuple(pr) for pr in PROBES])))
    failures = [f for r in res for f in r[1]]
    rest, hit = classify(failures, p.get("known", []), {"lr_prefers_prefix_over_and_or": lr_prefers_prefix_over_and_or})
    emit({"ok": not rest, "evaluations": sum(r[0] for r in res), "distinct_nontrivial": len([s for s in allseqs if len(s) > 2]),
          "rule": "every token-type sequence of <= %d tokens accepted by the live LALR automaton (DFS over parser configurations) + %d "
                  "sequences one token beyond the frontier that the reference accepts + %d hand-picked longer ones + %d intended token lists whose texts meet without a blank; two whitespace layouts each (minimal / seeded "
                  "mixed blanks); distinct = sequences of more than 2 tokens" % (N, len(extra), len(deep), len(PROBES)),
          "bound": "token sequences of length <= %d" % N,
          "samples": [{"types": list(allseqs[len(allseqs) // 2]), "query": join(pieces(allseqs[len(allseqs) // 2], 0), 0, random.Random(0))}],
          "failures": rest[:40], "known": hit, "known_covered": len(failures) - len(rest)})


if __name__ == "__main__":
    main()
