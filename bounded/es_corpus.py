"""corpus of supported trees and builder configurations for the ES checks (C05/C06/C07)"""
import itertools

from luqum import tree as T
from luqum.parser import parser
from luqum.utils import UnknownOperationResolver

CONFIGS = []
for default in ("".join(["sho", "uld"]), "".join(["mu", "st"])):      # equal to, but not the same object as, the builder's constants
    for nested in (None, {"n": ["x", "y"]}, {"n": {"x": None, "y": None, "m": ["z"]}}, {"n": {"m": ["z"]}},
                   {"n": {"x": None, "y": None, "i.a": ["t"]}}):          # a nested field inside an object inside a nested field
        for analysed in (True, False):
            CONFIGS.append({"default_operator": default, "nested_fields": nested,
                            "not_analyzed_fields": [] if analysed else ["text", "t", "o.x", "n.x", "n.y", "n.m.z"]})

#: leaves with their field spelling: (query text, needs nested config level)
LEAVES = ["a", '"p q"', "t:b", "o.x:c", "n.x:d", "n.y:e", "n.m.z:g", "n:(x:d)", "n:(y:e)", "n:(m:(z:g))", "n.m:(z:g)",
          "[1 TO 5]", "t:{2 TO *]", "n.x:[3 TO 4}", "h~2", '"i j"~3', "k^2", "n.x:l~1"]


#: always included: two values on the same nested leaf (documents with two objects tell `both in one object` from `one in each`),
#: negation inside / outside a nested scope, a group whose operands all live one nested level deeper, field names that extend a
#: nested path without a dot
TARGETED = [
    "n.x:d AND n.x:d2", "n:(x:d AND x:d2)", "n:(x:d x:d2)", "n:(x:d OR x:d2)", "n:(NOT x:d)", "NOT n:(x:d)", "n:(-x:d y:e)", "n:(+x:d -x:d2)",
    "n:(m.z:g AND m.z:g2)", "n:(m:(z:g) AND m:(z:g2))", "n.m:(z:g AND z:g2)", "n:(m.z:g m.z:g2)", "n:(m.z:g OR m.z:g2)", "n:(NOT m.z:g)",
    "n:(-m.z:g)", "n:(NOT m:(z:g))", "n:(m.z:g AND NOT m.z:g2)", "n:(x:d AND m.z:g AND m.z:g2)", "n.m.z:g AND n.m.z:g2", "NOT n.m.z:g",
    "n:(m:(z:g AND z:g2))", "n:(m:(NOT z:g))", "n:((m.z:g AND m.z:g2))", "n:((m.z:g AND m.z:g2)^2)",
    # negated groups around implicit / explicit operations (the default operator decides what the implicit one means)
    "NOT (a b)", "c AND NOT (a b)", "c NOT (a b)", "-(a b) c", "NOT (a AND b)", "NOT (a OR b) c", "n:(NOT (x:d y:e))", "n:(x:d AND m:(NOT (z:g z:g2)))",
    "t:(c NOT (a b))", "NOT (a -b)", "(a -b) AND c", "a (b -c)",
    # negation of a negation, also as operand of an implicit / boolean operation
    "a --b", "a -(-b)", "a NOT NOT b", "+a --b", "a -(NOT b)", "NOT NOT a b", "n:(x:d --y:e)", "--a", "NOT (NOT a)",
    # the same name component below two parents with different answers (history inside one builder)
    "o:(m:(z:g2)) AND n:(m:(z:g))", "n:(m:(z:g)) AND o:(m:(z:g2))", "o:(x:c) AND n:(x:d)", "n:(x:d) AND o:(x:c)", "o.x:c OR n:(x:d AND y:e)",
    # every operand negated, under each kind of operation
    "NOT a OR NOT b", "-a -b", "NOT a NOT b", "-a -b -c", "NOT a AND NOT b", "(NOT a OR NOT b) c", "c AND (NOT a OR NOT b)", "n:(NOT x:d OR NOT y:e)", "n:(-x:d -y:e)",
    "NOT a OR NOT b OR NOT c", "+a -b -c", "NOT n.x:d OR NOT n.y:e", "-t:b -n:(x:d)",
    # + in front of a group / of an operation inside a boolean operation
    "+(a OR b) c", "+(a b) c", "+(a AND b) c", "+t:(a OR b) c", "n:(+(x:d OR x:d2) y:e)", "NOT a OR b c", "+a OR b c", "-a OR b c", "c NOT a OR b",
    # several required / optional / excluded clauses of one boolean operation on the same nested path (one object each may satisfy them)
    "+n.x:d +n.x:d2", "+n.x:d +n.y:e c", "+n.m.z:g +n.m.z:g2", "n.x:d n.x:d2", "+n.x:d -n.x:d2 n.y:e", "-n.x:d -n.x:d2", "+n:(x:d) +n:(x:d2)",
    # a boosted group / field group as one optional clause among others (boolean operations tell required from optional clauses)
    "(a b)^2 c", "(a OR b)^2 c", "c t:(a b)^3", "n:(x:d (y:e y:e2)^2)", "(a -b)^2 c", "a (b -c)", "+a (b -c)", "(a b)^2 (c d)^3",
    # refused inside a nested scope (AND / OR mix): what a long-lived builder does next must not depend on it
    "n:(x:d OR x:d2 AND y:e)", "n:(x:d AND m:(z:g OR z:g2 AND z:g3))", "n.x:d OR n.y:e AND a",
    # nested > object > nested
    "n.i.a.t:v", "n:(i.a:(t:v))", "n.i.a:(t:v) AND n.x:d", "n:(x:d AND i.a.t:v)", "n:(i:(a:(t:v)))", "n.i.a.t:v AND n.i.a.t:v2", "NOT n.i.a.t:v", "n:(x:d OR i.a:(t:v AND t:v2))",
    "nx:q", "nx:q AND n.x:d", "n.mz:p", "n:(mz:p)", "n:(mz:p AND m.z:g)", "n.xy:r OR n.x:d", "n_m:s n.m.z:g",
]


def queries(max_leaves):
    """query strings combining up to max_leaves leaves with AND / OR / implicit / NOT / + / - / groups / field groups"""
    out = []
    L = LEAVES
    for a in L:
        out += [a, "NOT " + a, "-" + a, "+" + a, "(%s)" % a, "(%s)^2" % a]
    for a, b in itertools.permutations(L[:14], 2):
        for op in (" AND ", " OR ", " "):
            out.append(a + op + b)
        out += ["%s AND NOT %s" % (a, b), "%s OR NOT %s" % (a, b), "%s -%s" % (a, b), "+%s %s" % (a, b), "+%s -%s" % (a, b),
                "NOT (%s OR %s)" % (a, b), "NOT NOT %s" % a]
    out += TARGETED
    out += ["(a AND t:b) c", "a (t:b AND n.x:d)", "a AND t:b n.x:d", "+a (t:b OR n.x:d) -e", "n:(x:d AND y:e) OR a", "NOT (a AND n.x:d) t:b"]
    if max_leaves >= 3:
        small = ["a", "t:b", "n.x:d", "n.y:e", "n.m.z:g", "n:(x:d)", "o.x:c", "[1 TO 5]"]
        for a, b, c in itertools.permutations(small, 3):
            out += ["%s AND %s AND %s" % (a, b, c), "%s OR %s OR %s" % (a, b, c), "%s %s %s" % (a, b, c),
                    "%s AND (%s OR %s)" % (a, b, c), "(%s AND %s) OR %s" % (a, b, c), "%s (%s AND %s)" % (a, b, c),
                    "%s AND %s OR %s" % (a, b, c), "%s %s OR %s" % (a, b, c), "%s AND %s %s" % (a, b, c),
                    "%s AND NOT (%s OR %s)" % (a, b, c), "+%s -%s %s" % (a, b, c), "(%s %s) AND %s" % (a, b, c)]
        for a, b, c in itertools.combinations(["x:d", "y:e", "m:(z:g)", "m.z:g"], 3):
            out += ["n:(%s AND %s AND %s)" % (a, b, c), "n:(%s OR %s) AND n:(%s)" % (a, b, c), "n:(%s %s %s)" % (a, b, c),
                    "n:(%s AND NOT %s)" % (a, b), "NOT n:(%s OR %s)" % (a, c)]
    if max_leaves >= 4:
        small = ["a", "n.x:d", "n.y:e", "n.m.z:g", "t:b"]
        for a, b, c, d in itertools.permutations(small, 4):
            out += ["(%s AND %s) OR (%s AND %s)" % (a, b, c, d), "(%s OR %s) AND (%s OR %s)" % (a, b, c, d),
                    "%s AND (%s OR (%s AND %s))" % (a, b, c, d), "(%s %s) (%s %s)" % (a, b, c, d), "%s AND %s AND %s AND %s" % (a, b, c, d)]
    seen = set()
    res = []
    for q in out:
        if q not in seen:
            seen.add(q)
            res.append(q)
    return res


def trees_for(q):
    """the parsed tree and its resolved variants (so that boolean operations are covered)"""
    t = parser.parse(q)
    out = [("parsed", t)]
    if any(isinstance(n, T.UnknownOperation) for n in _nodes(t)):
        out.append(("resolved:BOOL", UnknownOperationResolver(T.BoolOperation)(t)))
    return out


def _nodes(n):
    yield n
    for c in n.children:
        yield from _nodes(c)
