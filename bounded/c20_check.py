"""C20-B (bounded safety net): on parsed queries from accepted token sequences of <= N tokens (all well-formed constructs in every
placement the grammar allows) and on trees obtained from them by planting ONE ill-formed construct at every position reachable
through operations, groups, fields, boosts and prefixes, for zeal 0 and 1, on one long-lived checker and on a fresh one:
 - the checker never raises, errors() is a list of strings, __call__ is True exactly when that list is empty, the tree is untouched,
   and a long-lived checker answers like a fresh one;
 - a well-formed tree (by the independent predicate below, written from the statement) is accepted at zeal 0;
 - a tree with a planted ill-formed construct is rejected at every zeal."""
import copy
import re

from common import read_payload, emit, pmap, classify
import gen
import trees as TR

from luqum import tree as T
from luqum.check import LuceneCheck
from luqum.parser import parser

VALUE_LIKE = (T.Word, T.Phrase, T.Regex, T.Range, T.From, T.To, T.Fuzzy, T.Proximity, T.Boost, T.FieldGroup)


def in_field_position(parents):
    """a field group is in place when it is what the field name applies to; boosts may sit in between (field:(a b)^2)"""
    for q in reversed(parents):
        if not isinstance(q, T.Boost):
            return isinstance(q, T.SearchField)
    return False


def ill_formed_reasons(n, parents=()):
    """independent reading of the statement: the listed ill-formed constructs, anywhere in the tree"""
    out = []
    nm = type(n).__name__
    parent = parents[-1] if parents else None
    if nm == "Word" and re.search(r"\s", n.value):
        out.append("word with whitespace")
    if nm == "Fuzzy":
        if not isinstance(n.term, T.Word):
            out.append("fuzzy on a non-word")
        if n.degree < 0:
            out.append("negative fuzziness")
    if nm == "Proximity" and not isinstance(n.term, T.Phrase):
        out.append("proximity on a non-phrase")
    if nm == "SearchField":
        if not re.fullmatch(r"\w+", n.name):
            out.append("invalid field name")
        if not isinstance(n.expr, VALUE_LIKE):
            out.append("non-value field expression")
    if nm == "Group" and isinstance(parent, T.SearchField):
        out.append("group directly in a field")
    if nm == "FieldGroup" and not in_field_position(parents):
        out.append("field group outside a field")
    for c in n.children:
        out.extend(ill_formed_reasons(c, tuple(parents) + (n,)))
    return out


def plants():
    W = T.Word
    return [("word containing whitespace", lambda: W("two words")), ("word with a leading blank", lambda: W(" foo")), ("word with a trailing blank", lambda: W("foo ")),
            ("word with a leading tab", lambda: W("\tfoo")), ("word with a trailing line break", lambda: W("foo\n")), ("word that is one blank", lambda: W(" ")), ("fuzzy on a phrase", lambda: T.Fuzzy(T.Phrase('"a b"'), 1)),
            ("proximity on a word", lambda: T.Proximity(W("a"), 2)), ("negative fuzziness", lambda: T.Fuzzy(W("a"), -1)),
            ("invalid field name", lambda: T.SearchField("bad name", W("v"))), ("field name with a star in the middle", lambda: T.SearchField("foo*bar", W("v"))),
            ("operation as field expression", lambda: T.SearchField("f", T.AndOperation(W("a"), W("b")))),
            ("prefix as field expression", lambda: T.SearchField("f", T.Prohibit(W("a")))), ("field as field expression", lambda: T.SearchField("f", T.SearchField("g", W("a")))),
            ("group directly in a field", lambda: T.SearchField("f", T.Group(W("a")))), ("stray field group", lambda: T.FieldGroup(W("a"))),
            ("boosted stray field group", lambda: T.Boost(T.FieldGroup(W("a")), 2))]


def positions(t):
    """(parent, attribute index) of every leaf-like position reachable through operations, groups, fields, boosts and prefixes"""
    out = []

    def rec(n):
        if isinstance(n, (T.BaseOperation, T.Group, T.FieldGroup, T.Boost, T.Plus, T.Not, T.Prohibit, T.SearchField)):
            for i, c in enumerate(n.children):
                if isinstance(c, (T.Word, T.Phrase)):
                    out.append((n, i))
                rec(c)
    rec(t)
    return out


SHARED = {}


def verdicts(label, t, expect, fails, how):
    f0, l0 = TR.fingerprint(t), TR.layout(t)
    n = 0
    for zeal in (0, 1):
        n += 1
        res = []
        for kind in ("fresh", "shared"):
            chk = LuceneCheck(zeal=zeal) if kind == "fresh" else SHARED.setdefault(zeal, LuceneCheck(zeal=zeal))
            try:
                errs = chk.errors(t)
                ok = chk(t)
            except Exception as e:  # noqa: BLE001
                fails.append({"input": label, "signature": "raised", "observation": "%s: zeal %d raised %r" % (how, zeal, e)})
                res.append(None)
                continue
            if not isinstance(errs, list) or not all(isinstance(x, str) for x in errs) or (ok is not True and ok is not False) or ok != (not errs):
                fails.append({"input": label, "signature": "verdict", "observation": "%s: zeal %d errors() = %r, __call__ = %r" % (how, zeal, errs, ok)})
            res.append((ok, tuple(errs)))
        if res[0] is not None and res[1] is not None and res[0] != res[1]:
            fails.append({"input": label, "signature": "history", "observation": "%s: zeal %d a long-lived checker says %r, a fresh one %r" % (how, zeal, res[1], res[0])})
        if res[0] is not None:
            if expect == "accept" and zeal == 0 and not res[0][0]:
                fails.append({"input": label, "signature": "accept", "observation": "%s: well formed, but rejected: %r" % (how, res[0][1][:2])})
            if expect == "reject" and res[0][0]:
                fails.append({"input": label, "signature": "reject", "observation": "%s: accepted at zeal %d" % (how, zeal)})
    if TR.fingerprint(t) != f0 or TR.layout(t) != l0:
        fails.append({"input": label, "signature": "modified", "observation": "%s: tree modified" % how})
    return n


def check(item):
    label, src = item
    if isinstance(src, str):
        try:
            t = parser.parse(src)
        except Exception:  # noqa: BLE001
            return 0, []
    else:
        t = src
    fails = []
    n = 0
    reasons = ill_formed_reasons(t)
    abstract = any(type(x) in (T.Term, T.BaseGroup, type(T.NONE_ITEM)) for x in gen.nodes(t))      # not Lucene constructs: only totality is required
    n += verdicts(label, t, None if abstract else ("accept" if not reasons else "reject"), fails, "as parsed (%s)" % (", ".join(sorted(set(reasons))) or "well formed"))
    if not reasons:
        pos = positions(t)
        for k, (name, make) in enumerate(plants()):
            if not pos:
                break
            c = copy.deepcopy(t)
            cpos = positions(c)
            parent, i = cpos[(k * 7 + len(label)) % len(cpos)]
            bad = make()
            kids = list(parent.children)
            kids[i] = bad
            parent.children = kids
            why = ill_formed_reasons(c)       # e.g. a field group planted as the value of a field is well formed again
            n += verdicts(label, c, "reject" if why else "accept", fails, "with a planted %s (%s)" % (name, ", ".join(sorted(set(why))) or "well formed there"))
            if len(fails) > 3:
                break
    return n, fails[:3]


def main():
    p = read_payload()
    items = [(q, q) for q in (gen.render(s, i % 3, sep=" ") for i, s in enumerate(gen.sequences(p["max_tokens"])))]
    W = T.Word
    items += [("hand: group at the root", T.Group(W("a"))), ("hand: prefix alone", T.Not(W("a"))), ("hand: or of prohibits", T.OrOperation(T.Prohibit(W("a")), W("b"))),
              ("hand: deep", T.AndOperation(T.Plus(T.Boost(T.Group(T.OrOperation(T.SearchField("f", T.FieldGroup(T.UnknownOperation(W("a"), T.Not(W("b"))))), W("c"))), 2)), W("d"))),
              ("hand: none item", T.NONE_ITEM), ("hand: term", T.Term("x")), ("hand: base group", T.BaseGroup(W("a"))), ("hand: fuzzy zero", T.Fuzzy(W("a"), 0)), ("hand: fuzzy -inf", T.Fuzzy(W("a"), "-Infinity")),
              ("hand: fuzzy huge", T.Fuzzy(W("a"), "-1e400")), ("hand: boost inf", T.Boost(W("a"), "Infinity")),
              ("hand: open ranges", T.AndOperation(T.From(W("1")), T.To(T.Phrase('"z"'), include=False))), ("hand: field with range", T.SearchField("f", T.Range(W("1"), W("2")))),
              ("hand: field with regex", T.SearchField("f_1", T.Regex("/a+/"))), ("hand: unicode field", T.SearchField("été", W("x"))),
              ("hand: field group under a group under a boost in a field", T.SearchField("f", T.Boost(T.Group(T.FieldGroup(W("a"))), 2))),
              ("hand: field group under boosts in a field", T.SearchField("f", T.Boost(T.Boost(T.Boost(T.FieldGroup(T.OrOperation(W("a"), W("b"))), 1), 2), 3)))]
    fg, wd, gp = T.FieldGroup(W("a")), W("two words"), T.Group(W("a"))
    items += [("hand: the same field group object in a field and outside", T.AndOperation(T.SearchField("f", fg), fg)),
              ("hand: the same ill-formed word object twice", T.OrOperation(T.Group(wd), T.Not(wd))),
              ("hand: the same group object at the root level and in a field", T.UnknownOperation(gp, T.SearchField("f", gp))),
              ("hand: the same well-formed subtree twice", T.AndOperation(gp, T.Plus(gp)))]
    items += [(q, q) for q in ("f:(a b)^2", "f:(a OR b)^2^3 AND c", "(a b)^2", "f:(a AND g:(b c)^2)^3", "-f:(a b)^0.5 +g:\"x y\"~2^3", "f:[1 TO 2]^2 OR f:(x)^1",
                               "NOT f:(a~2 b)^4 c", "f:((a b)^2)", "f:(a)^2^3^4^5")]
    res = pmap(check, items)
    failures = [f for r in res for f in r[1]]
    rest, hit = classify(failures, p.get("known", []))
    emit({"ok": not rest, "evaluations": sum(r[0] for r in res), "distinct_nontrivial": len(items),
          "rule": "accepted token sequences of <= %d tokens + 21 hand-built trees (4 with one object at two positions) + 9 parsed queries with boosted field groups; each well-formed tree also with each of 17 ill-formed constructs planted at a "
                  "position reachable through operations, groups, fields, boosts and prefixes; zeal 0 and 1; fresh and long-lived checker; distinct = trees" % p["max_tokens"],
          "bound": "token sequences <= %d" % p["max_tokens"], "samples": [{"query": "f:(a b) AND c", "planted": "word containing whitespace"}],
          "failures": rest[:40], "known": hit, "known_covered": len(failures) - len(rest)})


if __name__ == "__main__":
    main()
