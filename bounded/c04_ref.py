import json
import sys
import os
sys.path.insert(0, os.path.dirname(__file__))
import c04_sequences as m  # noqa: E402
q = json.load(sys.stdin)
json.dump(m.outcome(m.ENTRY["parser"], q), sys.stdout)
