"""C19-B / C19-S (bounded): for every index mapping of depth <= D and width <= 2 per level built from {text, keyword,
text with a keyword multi-field, object, nested} in both layouts (typed / properties at top), a builder made from
SchemaAnalyzer(M).query_builder_options() translates `F:x` (full dotted path) and the equivalent chain of nested
`field:( )` groups, for every leaf field F, into exactly one leaf clause on F, term-level iff F's mapped type is not analysed
text, directly inside a nested clause on its innermost nested ancestor (clauses on outer nested ancestors may surround it) and in no
nested clause when it has no nested ancestor.  Equivalent spellings of field specs (nested dicts / lists / dotted names) configure identical behaviour."""
import itertools
import json

from common import read_payload, emit, pmap, classify
import es_ref as R

from luqum.elasticsearch import ElasticsearchQueryBuilder, SchemaAnalyzer
from luqum.parser import parser
from luqum import utils

LEAF_KINDS = ["text", "keyword", "text+raw"]
EXT_LEAF_KINDS = LEAF_KINDS + ["string", "string_na", "integer", "keyword+txt"]
ANALYSED = {"text": True, "keyword": False, "string": True, "string_na": False, "integer": False}


def gen_props(depth, names, widths=(2, 2, 2, 2), ext=False):
    """all property dicts with 1..widths[0] fields from `names` at this level"""
    opts_per_name = []
    for nm in names[:widths[0]]:
        opts = [(nm, k) for k in (EXT_LEAF_KINDS if ext else LEAF_KINDS)]
        if depth > 1:
            for sub in gen_props(depth - 1, [nm + "a", nm + "b"], widths[1:], ext):
                opts.append((nm, ("object", sub)))
                opts.append((nm, ("nested", sub)))
                if ext:
                    opts.append((nm, ("implicit", sub)))
        opts_per_name.append(opts)
    out = []
    for o in opts_per_name[0]:
        out.append([o])
    if len(opts_per_name) > 1:
        for o1 in opts_per_name[0]:
            for o2 in opts_per_name[1]:
                out.append([o1, o2])
    return out


def to_mapping(props):
    d = {}
    for nm, k in props:
        if k in ("text", "keyword", "integer", "string"):
            d[nm] = {"type": k}
        elif k == "string_na":
            d[nm] = {"type": "string", "index": "not_analyzed"}
        elif k == "keyword+txt":
            d[nm] = {"type": "keyword", "fields": {"txt": {"type": "text"}}}
        elif k == "text+raw":
            d[nm] = {"type": "text", "fields": {"raw": {"type": "keyword"}}}
        else:
            kind, sub = k
            d[nm] = {"properties": to_mapping(sub)}
            if kind != "implicit":      # an object may be declared by its properties alone
                d[nm]["type"] = kind
    return d


def leaves(props, path=(), nested=()):
    for nm, k in props:
        p = path + (nm,)
        if isinstance(k, str) and k in ANALYSED:
            yield p, ANALYSED[k], nested
        elif k == "keyword+txt":
            yield p, False, nested
            yield p + ("txt",), True, nested
        elif k == "text+raw":
            yield p, True, nested
            yield p + ("raw",), False, nested
        else:
            kind, sub = k
            yield from leaves(sub, p, nested + ((".".join(p),) if kind == "nested" else ()))


def _children(k):
    return k[1] if isinstance(k, tuple) else None


def _gets_entries(k):
    """the derived nested spec hangs something below this direct child of a nested field: it is a nested field with fields, or a
    container with such a nested field somewhere below it"""
    sub = _children(k)
    if sub is None:
        return False
    if k[0] == "nested" and sub:
        return True
    return any(_gets_entries(kk) for _, kk in sub)


def innermost_nested_ancestor_lost(props, path):
    """known finding D16: the innermost nested ancestor of the field has no direct child that stays a leaf of the derived nested spec
    (each of its direct children is a nested field with fields, or an object / nested field containing one) - the builder derives
    its nested paths from the parents of the spec's leaves, so this nested level is not seen"""
    level = props
    innermost = None
    for seg in path:
        k = dict(level).get(seg)
        sub = _children(k) if k is not None else None
        if sub is None:
            break
        if k[0] == "nested":
            innermost = sub
        level = sub
    if innermost is None:
        return False
    return all(_gets_entries(kk) for _, kk in innermost)


def find_leaves(js, enclosing=()):
    (kind, body), = js.items()
    if kind == "bool":
        for sect in ("must", "should", "must_not", "filter"):
            for c in body.get(sect, []):
                yield from find_leaves(c, enclosing)
    elif kind == "nested":
        yield from find_leaves(body["query"], enclosing + (body["path"],))
    else:
        yield kind, body, enclosing


def wrapped_right(enclosing, nested):
    """the statement: wrapped in a nested clause on the innermost nested ancestor exactly when there is one (clauses on outer nested
    ancestors around it are allowed: ES accepts both spellings of multi-level nesting; any other path is wrong)"""
    if not nested:
        return not enclosing
    if not enclosing or enclosing[-1] != nested[-1]:
        return False
    it = iter(nested)
    return all(e in it for e in enclosing)


def split_props(props):
    """the same fields spread over two legacy document types: a container with several children is declared in both types (same
    kind, as ES < 6 requires) with one part of its children each; other fields alternate"""
    a, b = [], []
    for i, (nm, k) in enumerate(props):
        sub = k[1] if isinstance(k, tuple) else None
        if sub is not None and len(sub) >= 2:
            sa, sb = split_props(sub)
            if not sa or not sb:
                sa, sb = sub[: len(sub) // 2], sub[len(sub) // 2:]
            a.append((nm, (k[0], sa)))
            b.append((nm, (k[0], sb)))
        elif i % 2 == 0:
            a.append((nm, k))
        else:
            b.append((nm, k))
    return a, b


def alias(x, memo):
    """the same mapping with equal sub-dicts being ONE shared Python object (as when a mapping is assembled from reusable pieces)"""
    if isinstance(x, dict):
        y = {k: alias(v, memo) for k, v in x.items()}
        key = json.dumps(y, sort_keys=True)
        return memo.setdefault(key, y)
    return x


def check(item):
    idx, props, layout = item
    mp = {"properties": to_mapping(props)}
    if layout == "aliased":
        mp = alias(mp, {})
    if layout == "typed2":
        pa, pb = split_props(props)
        if not pa or not pb:
            return 0, []
        schema = {"mappings": {"type_a": {"properties": to_mapping(pa)}, "type_b": {"properties": to_mapping(pb)}}}
    else:
        schema = {"mappings": mp if layout in ("current", "aliased") else {"doc_type": mp}}
    fails = []
    n = 0
    try:
        options = SchemaAnalyzer(schema).query_builder_options()
    except Exception as e:  # noqa: BLE001
        return 1, [{"input": json.dumps(schema), "observation": "SchemaAnalyzer raised %r" % (e,)}]
    try:
        shared = ElasticsearchQueryBuilder(**options)          # one builder for all the queries on this mapping (no dependence on earlier calls)
    except Exception:  # noqa: BLE001
        shared = None
    for path, analysed, nested in leaves(props):
        full = ".".join(path)
        spellings = [full + ":x"]
        g = path[-1] + ":x"
        for seg in reversed(path[:-1]):
            g = "%s:(%s)" % (seg, g)
        if len(path) > 1:
            spellings.append(g)
            # mixed: dotted prefix + group
            spellings.append("%s:(%s:x)" % (".".join(path[:-1]), path[-1]))
        for q in spellings:
            n += 1
            try:
                js = ElasticsearchQueryBuilder(**options)(parser.parse(q))
                if shared is not None:
                    js2 = shared(parser.parse(q))
                    if json.dumps(js2, sort_keys=True) != json.dumps(js, sort_keys=True):
                        fails.append({"input": q, "schema": json.dumps(schema), "signature": "history",
                                      "observation": "a builder that has translated other queries before gives %s, a fresh one %s" % (json.dumps(js2)[:200], json.dumps(js)[:200])})
            except Exception as e:  # noqa: BLE001
                fails.append({"input": q, "schema": json.dumps(schema), "signature": "raised",
                              "observation": "builder raised %s: %s (options %r)" % (type(e).__name__, e, options)})
                continue
            lv = list(find_leaves(js))
            ok = len(lv) == 1
            why = ""
            if ok:
                kind, body, enclosing = lv[0]
                f = R.es_leaf_atom(kind, body)[0]
                term_level = kind in ("term", "wildcard", "fuzzy", "range", "prefix", "exists")
                if f != full:
                    ok, why = False, "clause on %r instead of %r" % (f, full)
                elif term_level == analysed:
                    ok, why = False, "clause kind %r but the field is %s" % (kind, "analysed text" if analysed else "not analysed")
                elif not wrapped_right(tuple(enclosing), tuple(nested)):
                    ok, why = False, "nested clauses %r, nested ancestors are %r" % (list(enclosing), list(nested))
            else:
                why = "%d leaf clauses" % len(lv)
            if not ok:
                fails.append({"input": q, "schema": json.dumps(schema), "signature": why.split(" ")[0],
                              "innermost_nested_ancestor_lost": innermost_nested_ancestor_lost(props, path),
                              "observation": "%s: %s (options %r)" % (why, json.dumps(js)[:300], options)})
    return n, fails[:3]


L = "keyword"
TXT = "text"
#: hand-picked mappings with leaves at every level of nested > object > nested chains (always included)
HAND = [
    [("author", ("nested", [("name", TXT), ("contact", ("object", [("email", L), ("phones", ("nested", [("kind", L), ("number", TXT)]))]))]))],
    [("a", ("nested", [("x", L), ("o", ("object", [("t", TXT), ("b", ("nested", [("y", L), ("p", ("object", [("q", "text+raw")]))]))]))])),
     ("title", "text+raw")],
    [("o", ("object", [("n", ("nested", [("x", TXT), ("m", ("nested", [("z", L)])), ("oo", ("object", [("w", L)]))])), ("k", L)]))],
    [("n", ("nested", [("x", TXT), ("m", ("nested", [("z", L), ("mm", ("nested", [("u", TXT)]))]))])), ("nx", L), ("n_m", TXT)],
    [("book", ("object", [("title", "text+raw"), ("author", ("object", [("name", TXT), ("born", "integer")]))])),
     ("reviews", ("nested", [("stars", "integer"), ("by", ("object", [("nick", L)]))]))],
    # the same name component in two roles (top-level object and nested below another field)
    [("book", ("object", [("title", TXT)])), ("author", ("nested", [("name", L), ("book", ("nested", [("title", L)]))]))],
    [("author", ("nested", [("name", TXT)])), ("publisher", ("nested", [("city", L), ("author", ("nested", [("name", L)]))]))],
    # sibling fields whose names start alike (no dot in between)
    [("title", TXT), ("title_translations", ("nested", [("en", TXT)]))],
    [("author", ("object", [("name", L), ("name_parts", ("object", [("first", TXT)])), ("tag", L), ("tags", ("nested", [("label", L)]))]))],
    [("shop", ("nested", [("city", L), ("city_area", ("object", [("code", "integer")]))]))],
    # identical sub-structures (shared dict objects in the aliased layout)
    [("billing", ("object", [("street", TXT), ("zip", L)])), ("shipping", ("object", [("street", TXT), ("zip", L)])),
     ("contacts", ("nested", [("street", TXT), ("zip", L)])), ("lines", ("nested", [("qty", "integer"), ("suppliers", ("nested", [("street", TXT), ("zip", L)]))]))],
]


def spellings(tree):
    """every spelling of a field tree {name: subtree-or-None}: leaves as None or {}, a container of leaves also as a list"""
    if not tree:
        return [{}]
    per = []
    for nm, sub in tree.items():
        if sub is None:
            per.append([(nm, None), (nm, {})])
        else:
            per.append([(nm, sp) for sp in spellings(sub)])
    out = [dict(c) for c in itertools.product(*per)]
    if all(sub is None for sub in tree.values()):
        out.append(list(tree))
    return out


def dotted(tree, prefix=""):
    for nm, sub in tree.items():
        if sub is None:
            yield prefix + nm
        else:
            yield from dotted(sub, prefix + nm + ".")


TREES = [{"a": {"x": None, "y": None}}, {"a": {"x": None, "b": {"z": None}}}, {"a": {"b": {"z": None, "w": None}}, "c": {"u": None}},
         {"a": {"x": None}, "a.b": {"z": None}}, {"o.n": {"x": None, "m": {"y": None}}}]


def spelling_cases():
    """equivalent spellings of field specs"""
    fails = []
    n = 0
    groups = [[sp for sp in spellings(t) if isinstance(sp, dict)] for t in TREES]
    # dotted keys: a nested field inside a nested field, hoisted next to its (still declared) parent
    groups += [[{"a": {"x": None, "b": {"z": None}}}, {"a": {"x": None}, "a.b": {"z": None}}, {"a": ["x"], "a.b": ["z"]}, {"a.b": ["z"], "a": ["x"]}],
               [{"o.l": ["p"], "o.q": ["r"]}, {"o.q": {"r": None}, "o.l": {"p": {}}}]]
    # absolute expectations (not only agreement between spellings): the flattened names are the denoted leaf paths, and each leaf
    # is queried inside its innermost declared nested path
    for g in groups:
        for spec in g:
            n += 1
            want = R.spec_paths(spec)
            try:
                got = set(utils.flatten_nested_fields_specs(spec))
            except Exception as e:  # noqa: BLE001
                got = "raised %r" % (e,)
            if got != want:
                fails.append({"input": repr(spec), "signature": "flatten", "observation": "flatten_nested_fields_specs(%r) = %r, the spec denotes %r" % (spec, got, sorted(want))})
                continue
            npaths = R.nested_paths(spec)
            for leaf in sorted(want):
                try:
                    js = ElasticsearchQueryBuilder(nested_fields=spec)(parser.parse(leaf + ":v"))
                    lv = list(find_leaves(js))
                    enc = lv[0][2] if len(lv) == 1 else None
                except Exception as e:  # noqa: BLE001
                    enc = "raised %r" % (e,)
                inner = R.innermost_nested(leaf, npaths)
                if enc is None or isinstance(enc, str) or (enc[-1] if enc else None) != inner:
                    fails.append({"input": leaf + ":v", "signature": "spelling-nesting",
                                  "observation": "with nested_fields=%r the clause for %s sits in nested %r, its innermost declared nested path is %r" % (spec, leaf, enc, inner)})
    for g in groups:
        ref = None
        for spec in g:
            n += 1
            got = (sorted(utils.flatten_nested_fields_specs(spec)), sorted(ElasticsearchQueryBuilder(nested_fields=spec)._nested_prefixes))
            outs = []
            for q in ("a.x:v", "a:(x:v)", "a.b.z:v", "a:(b:(z:v))", "a.x:v AND a.y:w", "t:v", "a.b.z:v AND a.b.w:u", "c.u:v OR a.b.w:k",
                      "o.n.x:v", "o.n.m.y:v AND o.n.x:w", "o:(n:(m:(y:v)))", "a:v", "a.b:v"):
                try:
                    outs.append(json.dumps(ElasticsearchQueryBuilder(nested_fields=spec)(parser.parse(q)), sort_keys=True))
                except Exception as e:  # noqa: BLE001
                    outs.append(type(e).__name__)
            if ref is None:
                ref = (got, outs)
            elif (got, outs) != ref:
                fails.append({"input": repr(spec), "signature": "spelling", "observation": "spec %r behaves differently from %r: %r vs %r" % (spec, g[0], (got, outs)[:1], ref[:1])})
    ogroups = [[["o.x", "o.y", "p.q.r"], {"o": ["x", "y"], "p": {"q": ["r"]}}, {"o": {"x": None, "y": {}}, "p": {"q": {"r": None}}}]]
    ogroups += [[sorted(dotted(t))] + spellings(t) for t in TREES[:3]]
    for g in ogroups:
        ref = None
        for spec in g:
            n += 1
            got = sorted(utils.normalize_object_fields_specs(spec))
            outs = []
            for q in ("o.x:v", "o:v", "o.z:v", "p.q.r:v", "p.q:v", "a.x:v", "a:(x:v)", "a.b.z:v", "a.b:v", "a:(b:(w:v))", "c.u:v", "c:v"):
                try:
                    outs.append(json.dumps(ElasticsearchQueryBuilder(object_fields=spec, sub_fields=[])(parser.parse(q)), sort_keys=True))
                except Exception as e:  # noqa: BLE001
                    outs.append(type(e).__name__)
            if ref is None:
                ref = (got, outs)
            elif (got, outs) != ref:
                fails.append({"input": repr(spec), "signature": "spelling", "observation": "object spec %r behaves differently from %r: %r vs %r" % (spec, g[0], (got, outs), ref)})
    return n, fails


def main():
    p = read_payload()
    items = []
    idx = 0
    allprops = gen_props(2, ["f", "g"])
    for w in p.get("deep", []):
        allprops += gen_props(len(w), ["f", "g"], tuple(w))
    for w in p.get("ext", []):
        allprops += gen_props(len(w), ["f", "g"], tuple(w), True)
    allprops += HAND
    for props in allprops:
        for layout in ("current", "typed", "typed2", "aliased"):
            items.append((idx, props, layout))
            idx += 1
    res = pmap(check, items)
    n2, f2 = spelling_cases()
    failures = [f for r in res for f in r[1]] + f2
    rest, hit = classify(failures, p.get("known", []))
    emit({"ok": not rest, "evaluations": sum(r[0] for r in res) + n2, "distinct_nontrivial": len(items),
          "rule": "all mappings of depth <= 2 with 1-2 fields per level, plus deeper ones with per-level widths %r, plus per-level widths %r with the extended kinds (legacy string / not_analyzed string, integer, keyword with a text multi-field, object declared by properties only); kinds {text, keyword, text with "
                  "keyword multi-field, object, nested}, four layouts (current, one legacy document type, two legacy document types sharing containers, current with equal sub-dicts shared as one object); every leaf field x up to 3 query spellings; + spelling groups of field "
                  "specs; %d hand-picked deeper mappings; distinct = (mapping, layout)" % (p.get("deep", []), p.get("ext", []), len(HAND)),
          "bound": "mapping depth <= 2 width <= 2, deeper: widths %r, extended kinds: widths %r" % (p.get("deep", []), p.get("ext", [])),
          "samples": [{"mapping": to_mapping(gen_props(2, ["f", "g"])[7])}],
          "failures": rest[:40], "known": hit, "known_covered": len(failures) - len(rest)})


if __name__ == "__main__":
    main()
