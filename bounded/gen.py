"""Enumeration of the accepted language by token-type sequences (native, uses the live LALR tables):
DFS over parser configurations; a sequence is kept when the automaton accepts it on $end."""
import itertools

from luqum.parser import parser, lexer, tokens  # noqa: F401

ACTION = parser.action
GOTO = parser.goto
PRODS = parser.productions

TEXTS = {
    "TERM": ["a", "b", "c", "d", "e", "f", "g"], "PHRASE": ['"p q"', '"r"', '"s t"'], "REGEX": ["/x+/", "/y/"],
    "APPROX": ["~", "~2", "~0.50", "~02"], "BOOST": ["^2.0", "^", "^.5", "^007"], "MINUS": ["-"], "PLUS": ["+"], "COLUMN": [":"],
    "LPAREN": ["("], "RPAREN": [")"], "LBRACKET": ["[", "{"], "RBRACKET": ["]", "}"], "LESSTHAN": ["<", "<="],
    "GREATERTHAN": [">", ">="], "AND_OP": ["AND"], "OR_OP": ["OR"], "NOT": ["NOT"], "TO": ["TO"],
}
WORDLIKE = {"TERM", "AND_OP", "OR_OP", "NOT", "TO"}
#: texts that probe token boundaries and the reserved-word rule: escapes, lower / mixed case and embedded reserved words, phrases and
#: regexes that contain operators, quotes or end in an escaped backslash
TRICKY = {"TERM": ["and", "Or", "nOT", "to", "ANDROID", "NOTE", "TOTO", "\\AND", "a\\:b", "te?t*", "x\\ y", "2015-12-19T10:30", "b\\\\", "OR1", "\\-z", "k\\(l\\)", "z\\ ", "C\\:\\\\Program\\ "],
          "PHRASE": ['"a\\\\"', '"x \\" y"', '"AND"', '"a:b (c) OR"', '""', '"\\\\\\""'],
          "REGEX": ["/a\\\\/", "/x\\/y/", "/[a-z]+ OR (b)/", "//"]}


def render_tricky(seq, variant=0):
    """like render(sep=' ') with the tricky texts for terms, phrases and regexes"""
    out = []
    for i, t in enumerate(seq):
        if t in TRICKY:
            txt = TRICKY[t][(variant * 7 + i * 3) % len(TRICKY[t])]
        else:
            txt = TEXTS[t][(i + variant) % len(TEXTS[t])] if t in ("APPROX", "BOOST", "LBRACKET", "RBRACKET", "LESSTHAN", "GREATERTHAN") else TEXTS[t][0]
        if out and t != "COLUMN":
            out.append(" ")
        out.append(txt)
    return "".join(out)


def step(stack, tok):
    """simulate the LR automaton on one token type; returns the new state stack or None on error"""
    stack = list(stack)
    while True:
        a = ACTION[stack[-1]].get(tok)
        if a is None:
            return None
        if a > 0:
            stack.append(a)
            return stack
        if a == 0:
            return stack  # accept
        p = PRODS[-a]
        if p.len:
            del stack[-p.len:]
        stack.append(GOTO[stack[-1]][p.name])


def accepted(stack):
    s = list(stack)
    while True:
        a = ACTION[s[-1]].get("$end")
        if a is None:
            return False
        if a == 0:
            return True
        if a > 0:
            return False
        p = PRODS[-a]
        if p.len:
            del s[-p.len:]
        s.append(GOTO[s[-1]][p.name])


def sequences(max_len, types=None):
    """all accepted token-type sequences of length 1..max_len"""
    types = types or list(TEXTS)
    out = []

    def rec(stack, seq):
        if seq and accepted(stack):
            out.append(tuple(seq))
        if len(seq) == max_len:
            return
        for t in types:
            ns = step(stack, t)
            if ns is not None:
                seq.append(t)
                rec(ns, seq)
                seq.pop()
    rec([0], [])
    return out


def needs_space(a, b):
    """two adjacent tokens that the lexer would glue together without a blank: a term-like token absorbs every
    following character except blanks and : ^ ~ ( ) { } [ ] \\"""
    if a in WORDLIKE:
        return b not in ("COLUMN", "BOOST", "APPROX", "LPAREN", "RPAREN", "LBRACKET", "RBRACKET")
    return False


def render(seq, variant=0, sep=" "):
    """query string of a token-type sequence.  variant selects representative texts deterministically;
    distinct TERMs get distinct words so that operand order is observable."""
    out = []
    counters = {}
    prev = None
    for t in seq:
        opts = TEXTS[t]
        k = counters.get(t, 0)
        counters[t] = k + 1
        if t in ("TERM", "PHRASE", "REGEX"):
            txt = opts[(k + variant) % len(opts)]
        else:
            txt = opts[(k + variant) % len(opts)] if t in ("APPROX", "BOOST", "LBRACKET", "RBRACKET", "LESSTHAN", "GREATERTHAN") else opts[0]
        if prev is not None:
            if sep and t != "COLUMN":       # no blank before a field colon (known finding KF-D1)
                out.append(sep)
            elif needs_space(prev, t):
                out.append(" ")
        out.append(txt)
        prev = t
    return "".join(out)


def strip_layout(t):
    """a copy of the tree without any layout (hand-built look)"""
    from luqum.visitor import TreeTransformer

    class Strip(TreeTransformer):
        def generic_visit(self, node, context):
            new, = super().generic_visit(node, context)
            new.head = new.tail = ""
            new.pos = new.size = None
            yield new
    return Strip().visit(t)


def nodes(n):
    yield n
    for c in n.children:
        yield from nodes(c)
