"""C17-B (bounded safety net): for every tree of a pool (parsed token sequences <= N with blanks, odd shapes) and
marking assignments (exhaustive ok/ko/unmarked for trees of <= 5 nodes, seeded samples otherwise), in both modes:
erasing the inserted elements gives back the query text, elements are properly nested, every character is rendered
with the class of the innermost marked sub-expression containing it (computed independently from the tree), the
input tree is untouched and marking twice gives the same output."""
import itertools
import random
import re

from common import read_payload, emit, pmap, classify
import gen
import trees as TR

from luqum.naming import HTMLMarker
from luqum.parser import parser

TAG = re.compile(r'<span class="(\w+)">|</span>')


def paths_of(n, p=()):
    yield p
    for i, c in enumerate(n.children):
        yield from paths_of(c, p + (i,))


def expected(n, p, cls, ok, ko):
    own = "ok" if p in ok else "ko" if p in ko else None
    cls = own or cls
    txt = n.__str__(head_tail=True)
    out = []
    i = 0
    for j, c in enumerate(n.children):
        k = c.__str__(head_tail=True)
        at = txt.index(k, i)
        out.extend((ch, cls) for ch in txt[i:at])
        out.extend(expected(c, p + (j,), cls, ok, ko))
        i = at + len(k)
    out.extend((ch, cls) for ch in txt[i:])
    return out


def parse_html(s, element="span"):
    out = []
    stack = [None]
    i = 0
    tag = TAG if element == "span" else re.compile(r'<%s class="(\w+)">|</%s>' % (element, element))
    if element != "span" and ("<span" in s or "</span" in s):
        return None          # an element of another marker leaked in
    for m in tag.finditer(s):
        out.extend((ch, stack[-1]) for ch in s[i:m.start()])
        i = m.end()
        if m.group(1):
            stack.append(m.group(1))
        else:
            if len(stack) == 1:
                return None
            stack.pop()
    out.extend((ch, stack[-1]) for ch in s[i:])
    return out if len(stack) == 1 else None


SEED = 0


def work(item):
    idx, q = item
    fails = []
    n = 0
    try:
        t = parser.parse(q)
    except Exception:  # noqa: BLE001
        return 0, []
    allp = list(paths_of(t))
    text = t.__str__(head_tail=True)
    f0, l0 = TR.fingerprint(t), TR.layout(t)
    rnd = random.Random(SEED * 7919 + idx)
    if len(allp) <= 5:
        assigns = list(itertools.product((None, "ok", "ko"), repeat=len(allp)))
    else:
        assigns = [tuple(rnd.choice((None, None, "ok", "ko")) for _ in allp) for _ in range(12)]
        assigns.append(tuple("ok" for _ in allp))
        assigns.append(tuple(None for _ in allp))          # nothing to mark: the text comes out as it is
        assigns.append(tuple("ok" if len(p) % 2 else "ko" for p in allp))
        assigns.append(tuple("ok" if len(p) == 0 or len(p) >= 2 else None for p in allp))
    for a in assigns:
        ok = {p for p, c in zip(allp, a) if c == "ok"}
        ko = {p for p, c in zip(allp, a) if c == "ko"}
        exp = expected(t, (), None, ok, ko)
        for parc in (True, False):
            n += 1
            try:
                html = HTMLMarker()(t, ok, ko, parcimonious=parc)
                html2 = HTMLMarker()(t, set(ok), set(ko), parcimonious=parc)
            except Exception as e:  # noqa: BLE001
                fails.append({"input": q, "ok": sorted(ok), "ko": sorted(ko), "parcimonious": parc, "observation": "raised %r" % (e,)})
                continue
            # a second marker with the same class names but another element, used in the same process (markers share nothing)
            try:
                html_em = HTMLMarker(element="em")(t, ok, ko, parcimonious=parc)
                got_em = parse_html(html_em, "em")
                if got_em is None or got_em != exp:
                    fails.append({"input": q, "ok": sorted(ok), "ko": sorted(ko), "parcimonious": parc, "signature": "second-marker",
                                  "observation": "a marker with element 'em' used after the default one renders %r" % html_em})
            except Exception as e:  # noqa: BLE001
                fails.append({"input": q, "ok": sorted(ok), "ko": sorted(ko), "parcimonious": parc, "observation": "second marker raised %r" % (e,)})
            got = parse_html(html)
            if got is None:
                fails.append({"input": q, "ok": sorted(ok), "ko": sorted(ko), "parcimonious": parc, "observation": "not properly nested: %r" % html})
            elif "".join(ch for ch, _ in got) != text:
                fails.append({"input": q, "ok": sorted(ok), "ko": sorted(ko), "parcimonious": parc,
                              "observation": "erasing the elements gives %r" % "".join(ch for ch, _ in got)})
            elif got != exp:
                fails.append({"input": q, "ok": sorted(ok), "ko": sorted(ko), "parcimonious": parc, "observation": "rendered classes differ: %r" % html})
            if html != html2:
                fails.append({"input": q, "ok": sorted(ok), "ko": sorted(ko), "parcimonious": parc, "observation": "second run differs"})
            # one long-lived marker per worker process sees every query of its share, in order
            try:
                html3 = SHARED_MARKER(t, ok, ko, parcimonious=parc)
            except Exception as e:  # noqa: BLE001
                html3 = "raised %r" % (e,)
            if html3 != html:
                fails.append({"input": q, "ok": sorted(ok), "ko": sorted(ko), "parcimonious": parc, "signature": "history",
                              "observation": "a long-lived marker renders %r, a fresh one %r" % (html3, html)})
        if TR.fingerprint(t) != f0 or TR.layout(t) != l0:
            fails.append({"input": q, "observation": "input tree modified"})
            break
        if len(fails) > 3:
            break
    return n, fails[:3]


SHARED_MARKER = HTMLMarker()


def history():
    """queries that differ only in the blanks kept on the root element, one after the other on one marker"""
    fails = []
    n = 0
    marker = HTMLMarker()
    for base in ("(foo OR bar)", "NOT spam", "f:x", "a", "[1 TO 2]", "a^2", "\"p q\"~2", "x AND y"):
        for q in (base + " ", base, " " + base, "\n" + base + "\t", base):
            t = parser.parse(q)
            for ok, ko in ((set(), set()), ({()}, set()), (set(), {()})):
                for parc in (True, False):
                    n += 1
                    got, want = marker(t, ok, ko, parcimonious=parc), HTMLMarker()(t, ok, ko, parcimonious=parc)
                    if got != want:
                        fails.append({"input": q, "ok": sorted(ok), "ko": sorted(ko), "parcimonious": parc, "signature": "history",
                                      "observation": "after other queries the same marker renders %r, a fresh one %r" % (got, want)})
    return n, fails[:3]


def main():
    global SEED
    p = read_payload()
    SEED = p.get("seed", 0)
    qs = []
    for seq in gen.sequences(p["max_tokens"]):
        qs.append(gen.render(seq, 1, sep=" "))
    qs += ["foo OR bar OR foo", "price:[10 TO 10]", "(a AND b) OR c OR (a AND  b)", "foo~ AND bar^ AND \"x y\"~",
           "(a OR b) AND (c OR d)", "foo AND (bar~2 OR baz)", " a  AND ( b OR ( c AND ( d OR ( e AND f ) ) ) ) ",
           "x:(y:(z:(w))) OR NOT -q", "a b c d e f", "f:[a TO b]^2 \"p q\"~3 /re/",
           # blanks carried by the root element itself
           "  foo ", " (foo OR bar)  ", " f:x ", "\tNOT a ", " [1 TO 2] ", " a^2 ", "  \"p q\"~2\n", " +a ", "  a:foo  AND b:bar ", "(a)AND(b)", "NOT(a)", "\"a\"\"b\" c",
           # layout the tree may or may not keep (compared with the tree's own text), chains of suffixes
           "title :foo", "a :b AND c", " f  :(x y)^2 ", "a^2^3", "a^2 ^3 b", "(a b)^1^2^3 OR c~1^2", "f:(a)^2^3"]
    res = pmap(work, list(enumerate(qs)))
    res.append(history())
    failures = [f for r in res for f in r[1]]
    rest, hit = classify(failures, p.get("known", []))
    emit({"ok": not rest, "evaluations": sum(r[0] for r in res), "distinct_nontrivial": len(qs),
          "rule": "queries = every accepted token sequence of <= %d tokens (single blanks) + 29 hand-picked queries (nesting, blanks on the root element, operators glued to parentheses / quotes); "
                  "markings: all 3^n assignments for trees of <= 5 nodes, 15 seeded/structured assignments otherwise; both modes; "
                  "distinct = queries" % p["max_tokens"],
          "bound": "token sequences <= %d; sampled markings for larger trees" % p["max_tokens"],
          "samples": [{"query": "a AND (b OR c)", "ok": [[0]], "ko": [[1, 0, 1]],
                       "html": HTMLMarker()(parser.parse("a AND (b OR c)"), {(0,)}, {(1, 0, 1)})}],
          "failures": rest[:30], "known": hit})


if __name__ == "__main__":
    main()
