"""C01-N (bounded): the numeral printed after ~ or ^ is a plain decimal literal, numerically equal to the
one that was parsed, and is read back by the parser as the same value.  Scope: every string over [0-9.] of
length <= L, plus long all-digit / many-decimals families (to cross the 28-digit context precision)."""
import itertools
import re
from decimal import Decimal, InvalidOperation

from common import read_payload, emit, pmap, classify

from luqum.parser import parser
from luqum.exceptions import ParseError

PLAIN = re.compile(r"^(?:[0-9]+(?:\.[0-9]*)?|\.[0-9]+)$")
ALPHA = "0123456789."


def sig_digits(n):
    """significant digits of the numeral as written (no rounding)"""
    try:
        d = list(Decimal(n).as_tuple().digits)
    except InvalidOperation:
        return 0
    while len(d) > 1 and d[-1] == 0:
        d.pop()
    return len(d)


def check_one(n):
    out = []
    for prefix in ("a^", "a~", '"a b"~'):
        q = prefix + n
        try:
            t = parser.parse(q)
        except ParseError:
            continue
        except Exception as e:  # noqa: BLE001
            out.append({"input": q, "numeral": n, "observation": "raised %s" % type(e).__name__})
            continue
        printed = t.__str__(head_tail=True)
        if not printed.startswith(prefix):
            out.append({"input": q, "numeral": n, "observation": "printed %r" % printed})
            continue
        s2 = printed[len(prefix):]
        ok = bool(PLAIN.match(s2))
        if ok:
            try:
                ok = Decimal(s2) == Decimal(n)
            except InvalidOperation:
                ok = False
        if ok:
            try:
                t2 = parser.parse(printed)
                ok = (t2 == t) and t2.__str__(head_tail=True) == printed
            except Exception:  # noqa: BLE001
                ok = False
        if not ok:
            out.append({"input": q, "numeral": n, "observation": "printed %r" % printed})
    return out


def chunk(prefix):
    L = prefix[1]
    first = prefix[0]
    res = []
    cnt = 0
    nontriv = 0
    for k in range(0, L):
        for rest in itertools.product(ALPHA, repeat=k):
            n = first + "".join(rest)
            cnt += 1
            if "." in n or n.startswith("0"):
                nontriv += 1
            res.extend(check_one(n))
    return cnt, nontriv, res


def main():
    p = read_payload()
    L = p["max_len"]
    work = [(c, L) for c in ALPHA]
    parts = pmap(chunk, work, chunks=1)
    evaluations = sum(x[0] for x in parts)
    nontrivial = sum(x[1] for x in parts)
    failures = [f for x in parts for f in x[2]]
    fam = []
    for k in range(7, p["long_max"] + 1):
        fam += ["1" + "0" * (k - 1), "9" * k, ("1234567890" * 5)[:k], "0." + "0" * (k - 2) + "1", "1." + "0" * (k - 2) + "1",
                "0" * (k - 1) + "7", ("1234567890" * 5)[:k // 2] + "." + ("1234567890" * 5)[:k - k // 2]]
    for n in fam:
        evaluations += 1
        nontrivial += 1
        failures.extend(check_one(n))
    rest, hit = classify(failures, p.get("known", []), {"sig_digits": sig_digits})
    emit({"ok": not rest, "evaluations": evaluations * 3, "distinct_nontrivial": nontrivial,
          "rule": "every numeral string over [0-9.] of length <= %d after a^ / a~ / \"a b\"~ (3 queries each) plus %d long "
                  "family members of length 7..%d; non-trivial = contains a dot or a leading zero, or is a long family member"
                  % (L, len(fam), p["long_max"]),
          "bound": "numeral length <= %d exhaustive; families up to %d digits" % (L, p["long_max"]),
          "samples": [{"numeral": "007", "printed": parser.parse("a^007").__str__(head_tail=True)},
                      {"numeral": "2.50", "printed": parser.parse("a~2.50").__str__(head_tail=True)},
                      {"numeral": "1" + "0" * 20, "printed": parser.parse("a^1" + "0" * 20).__str__(head_tail=True)}],
          "failures": rest[:50], "known": hit, "known_covered": len(failures) - len(rest)})


if __name__ == "__main__":
    main()
