"""C07-B (bounded): the exception type raised by the builder (or its absence) equals the structural predicate written from
the statement: NestedSearchFieldException / ObjectSearchFieldException when a term is attached directly to a declared
nested or object container, or to an undeclared dotted field while object and sub fields are both declared (checked first,
in document order); otherwise OrAndAndOnSameLevel exactly when an AND-like operation has an un-parenthesised OR-like
direct operand or vice versa (after flattening chains of one operator; implicit = configured default); otherwise no
exception at all (the query is translated)."""
import itertools
import zlib

from common import read_payload, emit, pmap, classify
import es_corpus
import es_ref as R

from luqum.elasticsearch import ElasticsearchQueryBuilder
from luqum.parser import parser

class ONESHOT:
    """a spec given as a one-shot iterable (a generator, as SchemaAnalyzer.object_fields() returns): materialised afresh for every builder"""

    def __init__(self, names):
        self.names = list(names)

    def fresh(self):
        return (n for n in self.names)

    def __iter__(self):
        return iter(self.names)


def materialise(cfgd):
    return {k: (v.fresh() if isinstance(v, ONESHOT) else v) for k, v in cfgd.items()}


CONFIGS = []
for default in ("".join(["sho", "uld"]), "".join(["mu", "st"])):      # equal to, but not the same object as, the builder's constants
    for nested in (None, {"n": ["x", "y"]}, {"n": {"x": None, "y": None, "m": ["z"]}}, {"n": {"m": ["z"]}},
                   {"n": ["x", "y"], "c": {}}):          # a nested field declared without sub fields is a container all the same
        for objs, subs in ((None, None), (["o.x"], None), (["o.x"], ["t.raw"]), ({"o": ["x"]}, ["t.raw", "n.x.raw"]),
                           (["o.x"], []), ([], ["t.raw"]), ([], []), ({}, ()),      # declared but empty is not `undeclared`
                           (ONESHOT(["o.x"]), ONESHOT(["t.raw"])), (ONESHOT(["o.x"]), None),      # any iterable of names is accepted
                           # dict specs with the same top-level names and different contents (several builders live in one process)
                           ({"o": ["y"]}, ["t.raw"]), ({"o": {"x": None, "p": ["q"]}}, ["t.raw"]), ({"o": ["x"], "t": ["k"]}, {"t": ["raw"]}),
                           # leaves given as a set / a dict view instead of a list
                           ({"o": {"x", "y"}}, {"t.raw"}), ({"o": {"x": None, "p": frozenset(["q"])}}, {"t": {"raw": None}.keys()})):
            CONFIGS.append({"default_operator": default, "nested_fields": nested, "object_fields": objs, "sub_fields": subs})

EXTRA = ["o:c", "n:d", "o.y:c", "t.raw:b", "n:(m:g)", "n.m:g", "o:(x:c)", "o:(y:c)", "q.r:s", "n:(x:d OR z)", "n.x.raw:d",
         "o:[1 TO 2]", "n:\"p q\"", "n:(x:[1 TO 2])", "o.x:c~2", "-1", "t:[-1 TO 5]", "n:d^2", "(o:c)", "NOT n:d",
         # texts that mean something to str.format / %: they are data
         "o:\"{x}\"", "n:\"a {} b\"", "n:a\\{1\\}", "o:\"%s %(x)s\"", "n:(m:\"{0}\")", "q.r:\"}\"", "o.p:\"{\"", "o.p.q:x", "o:(p:(q:x))", "t.k:v", "t:(raw:v)",
         "c:foo", "c:(foo OR bar)", "x AND NOT c:spam", "c.d:v",
         # what the term looks like does not matter: wildcards, the lone star, ranges with wildcard bounds
         "n:jo*", "n:*", "o:te?t", "o:*", "n:[a* TO b*]", "q.r:jo*", "o.p:?", "n:(m:*)", "n.x:*", "t:*"]


def queries(max_leaves):
    qs = es_corpus.queries(min(max_leaves, 3))
    out = list(qs)
    for a in EXTRA:
        out += [a, "a AND " + a, a + " OR b", "NOT " + a, "x (" + a + " AND y) OR z"]
    for a, b, c in itertools.permutations(["a", "t:b", "n.x:d", "(e OR f)", "(g AND h)", "NOT i", "+j"], 3):
        out += ["%s AND %s OR %s" % (a, b, c), "%s OR %s AND %s" % (a, b, c), "%s %s AND %s" % (a, b, c), "%s %s OR %s" % (a, b, c),
                "%s AND (%s OR %s)" % (a, b, c), "%s AND %s AND (%s)" % (a, b, c), "(%s %s) AND %s" % (a, b, c), "%s AND %s %s" % (a, b, c)]
    # mixes whose inner operation has three or more operands (operations are n-ary), also behind groups / fields (not refused)
    out += ["x OR a AND b AND c", "a AND b AND c OR x", "x AND (y OR a AND b AND c)", "a OR b OR c d", "a b c OR d", "x OR a AND b AND c AND d",
            "x OR (a AND b AND c)", "t:(a AND b AND c) OR x", "x AND a OR b OR c", "(x OR a AND b AND c)^2", "x OR a AND b AND c AND n.x:d"]
    return list(dict.fromkeys(out))


ALWAYS_LONE = ("a OR b", "a AND b", "a b", "a OR b OR c", "a AND b AND c", "n.x:d OR a", "a OR NOT b", "t:b AND a")
EVERY_LONE = 8


def trees_for(q):
    """the C05 variants, plus the tree as the only operand of a hand-built operation (operations are n-ary, n >= 1 when built by hand
    or left by a transformer): an operation directly inside is then an un-parenthesised operand of the wrapper"""
    from luqum import tree as T
    out = list(es_corpus.trees_for(q))
    base = out[0][1]
    if isinstance(base, T.BaseOperation) and (q in ALWAYS_LONE or EVERY_LONE == 1 or zlib.crc32(q.encode()) % EVERY_LONE == 0):
        for name, cls in (("And", T.AndOperation), ("Or", T.OrOperation), ("Unknown", T.UnknownOperation)):
            out.append(("lone operand of " + name, cls(parser.parse(q))))
        out.append(("lone operand of And of And", T.AndOperation(T.AndOperation(parser.parse(q)))))
        out.append(("lone operand of Or, beside a word", T.AndOperation(T.Word("w"), T.Group(T.OrOperation(parser.parse(q))))))
    return out


def expected(t, cfgd):
    cfgd = {k: (list(v) if isinstance(v, ONESHOT) else v) for k, v in cfgd.items()}
    cfg = {"nested_fields": cfgd["nested_fields"],
           "sub_fields": (R.spec_paths(cfgd["sub_fields"]) if isinstance(cfgd["sub_fields"], dict) else set(cfgd["sub_fields"]))
           if cfgd["sub_fields"] is not None else None,
           "object_fields": (R.spec_paths(cfgd["object_fields"]) if isinstance(cfgd["object_fields"], dict) else set(cfgd["object_fields"]))
           if cfgd["object_fields"] is not None else None}
    m = R.container_misuse(t, cfg)
    if m:
        return m
    if R.has_mix(t, cfgd["default_operator"]):
        return "OrAndAndOnSameLevel"
    return None


def check(item):
    q, ci = item
    cfgd = CONFIGS[ci]
    try:
        base = parser.parse(q)
    except Exception:  # noqa: BLE001
        return 0, []
    fails = []
    n = 0
    for kind, t in trees_for(q):
        n += 1
        exp = expected(t, cfgd)
        try:
            ElasticsearchQueryBuilder(**materialise(cfgd))(t)
            got = None
        except Exception as e:  # noqa: BLE001
            got = type(e).__name__
        if got != exp:
            fails.append({"input": q, "tree": kind, "config": ci, "signature": "%s/%s" % (got, exp),
                          "touches_leafless_nested_level": R.touches_leafless_level(t, cfgd["nested_fields"]),
                          "observation": "builder %s, expected %s for %r with %r" %
                          ("raised " + got if got else "translated", "an " + exp if exp else "a translation", t, cfgd)})
    return n, fails[:2]


def main():
    p = read_payload()
    global EVERY_LONE
    EVERY_LONE = int(p.get("lone_every", 8))
    qs = queries(p["max_leaves"])
    qs += [q for q in ALWAYS_LONE if q not in qs]
    # the dict-spec variants differ from the others only in what they declare below `o` and `t`: paired with the queries that name those
    late = {ci for ci, c in enumerate(CONFIGS) if isinstance(c["object_fields"], dict) and set(c["object_fields"]) != {"o"} or c["object_fields"] in ({"o": ["y"]}, {"o": {"x": None, "p": ["q"]}}, {"o": {"x", "y"}}, {"o": {"x": None, "p": frozenset(["q"])}})}
    childless = {ci for ci, c in enumerate(CONFIGS) if isinstance(c["nested_fields"], dict) and "c" in c["nested_fields"]}
    items = [(q, ci) for q in qs for ci in range(len(CONFIGS))
             if (ci not in late or "o" in q or "t." in q or "t:" in q) and (ci not in childless or "c:" in q or "c." in q or "n" in q)]
    res = pmap(check, items)
    failures = [f for r in res for f in r[1]]
    rest, hit = classify(failures, p.get("known", []))
    emit({"ok": not rest, "evaluations": sum(r[0] for r in res), "distinct_nontrivial": len(items),
          "rule": "%d queries (the C05 corpus + container / undeclared-field misuses + un-parenthesised AND/OR/implicit mixes) x %d "
                  "configurations (default operator x nested spec x object / sub field declarations); distinct = pairs" % (len(qs), len(CONFIGS)),
          "bound": "<= %d leaves" % p["max_leaves"], "samples": [{"query": "a AND b OR c", "expected": "OrAndAndOnSameLevel"}],
          "failures": rest[:40], "known": hit, "known_covered": len(failures) - len(rest)})


if __name__ == "__main__":
    main()
