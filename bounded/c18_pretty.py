"""C18-B (bounded): for every query from accepted token sequences of <= N tokens (short and long term texts, so that
lines fall below and above the width limit) and 18 printer settings (indent 0/1/4 x max_len 1/10/80 x inline_ops):
the pretty-printed text is accepted and parses to a tree equal to the original, two calls give the same text, the
input tree is untouched.  Plus hand-picked queries with deep nesting and with newlines inside phrases / regexes."""
from common import read_payload, emit, pmap, classify
import gen
import trees as TR

from luqum.parser import parser
from luqum.pretty import Prettifier

SETTINGS = [(i, m, o) for i in (0, 1, 4) for m in (1, 10, 80) for o in (False, True)]
LONG = {"TERM": ["alpha_beta_gamma_delta", "epsilonzetaetatheta", "iotakappalambdamu"], "PHRASE": ['"a long phrase with words"', '"two  blanks   inside"', '"another one"']}


def render(seq, long_):
    if not long_:
        return gen.render(seq, 1, sep=" ")
    out = []
    k = 0
    for t in seq:
        if t in LONG:
            out.append(LONG[t][k % len(LONG[t])])
            k += 1
        else:
            out.append(gen.render((t,), 0))
    q = ""
    for i, (t, txt) in enumerate(zip(seq, out)):
        if i and t != "COLUMN":
            q += " "
        q += txt
    return q


def multiline_atom(q):
    """known finding D10: a phrase or a regex that contains a line break"""
    try:
        t = parser.parse(q)
    except Exception:  # noqa: BLE001
        return False
    return any(type(n).__name__ in ("Phrase", "Regex") and "\n" in n.value for n in gen.nodes(t))


#: one long-lived printer per setting and per worker process: it sees a whole history of queries (determinism = the text does not
#: depend on what the same printer printed before)
SHARED = {}


def check(q):
    fails = []
    try:
        t = parser.parse(q)
    except Exception:  # noqa: BLE001
        return 0, []
    f0, l0 = TR.fingerprint(t), TR.layout(t)
    n = 0
    for (indent, max_len, inline) in SETTINGS:
        n += 1
        p = Prettifier(indent=indent, max_len=max_len, inline_ops=inline)
        try:
            s = p(t)
            s2 = Prettifier(indent=indent, max_len=max_len, inline_ops=inline)(t)
        except Exception as e:  # noqa: BLE001
            fails.append({"input": q, "settings": [indent, max_len, inline], "multiline_atom": multiline_atom(q), "observation": "raised %r" % (e,)})
            continue
        if s != s2 or not isinstance(s, str):
            fails.append({"input": q, "settings": [indent, max_len, inline], "multiline_atom": multiline_atom(q), "observation": "not deterministic"})
        key = (indent, max_len, inline)
        if key not in SHARED:
            SHARED[key] = Prettifier(indent=indent, max_len=max_len, inline_ops=inline)
        try:
            s3 = SHARED[key](t)
        except Exception as e:  # noqa: BLE001
            s3 = "raised %r" % (e,)
        if s3 != s:
            fails.append({"input": q, "settings": [indent, max_len, inline], "multiline_atom": multiline_atom(q), "signature": "history",
                          "observation": "a printer that has printed other queries before gives %r, a fresh one %r" % (s3, s)})
        try:
            back = parser.parse(s)
        except Exception as e:  # noqa: BLE001
            fails.append({"input": q, "settings": [indent, max_len, inline], "multiline_atom": multiline_atom(q),
                          "observation": "pretty text %r not accepted: %s" % (s, e)})
            continue
        if not (back == t) or TR.fingerprint(back) != f0:
            fails.append({"input": q, "settings": [indent, max_len, inline], "multiline_atom": multiline_atom(q),
                          "signature": "changed", "observation": "pretty text %r parses to %r, not to %r" % (s, back, t)})
        if len(fails) > 2:
            break
    if TR.fingerprint(t) != f0 or TR.layout(t) != l0:
        fails.append({"input": q, "settings": None, "multiline_atom": False, "observation": "input tree modified"})
    return n, fails[:2]


def main():
    p = read_payload()
    qs = []
    for i, seq in enumerate(gen.sequences(p["max_tokens"])):
        qs.append(render(seq, False))
        if any(t in LONG for t in seq):
            qs.append(render(seq, True))
        if i % 3 == 2 and any(t in gen.TRICKY for t in seq):
            qs.append(gen.render_tricky(seq, i))
    qs += ["a AND (b OR (c AND (d OR (e AND (f OR g)))))", "f:(alpha beta gamma) OR g:(delta AND epsilon AND zeta) OR NOT eta^2",
           "(a OR b) AND (c OR d) AND (e OR f) AND [1 TO 2] AND \"p q\"~3", "\"a\nb\" AND c", "/x\ny/ OR d", "\"line one\nline two\" \"three\"",
           "(NOT \"two\nlines\" OR something) AND other", "-\"x\ny\" zzzzzzzzzz", "[\"a\nb\" TO c] AND dddddddddddd", "NOT (x OR \"a\nb\") AND yyyyyyyyyyyyy",
           "f:(+\"l1\nl2\" -/r\ns/) gggggggggggg", "a AND foo\\ ", "C\\:\\\\Program\\  AND b", "first\\ name OR last\\ ", "NOT a AND b", "+a -b <c >=d",
           "[1 TO 5]", "{1 TO 5}", "[1 TO 5}", "{1 TO 5]", ">=18", ">18", "<=18", "<18", "f:[a TO b] AND g:{a TO b}", "f:{a TO b} AND g:[a TO b]",
           "a~", "a~0.5", "a^1", "a^", "\"p q\"~", "\"p q\"~1",
           "a b c d e f g h i j k l m n o p", "f:\"a  b\" AND c", "/x  y/ OR d", "\"a\tb\" c OR \"  lead\" AND \"trail  \"", "a OR b OR a",
           "k AND l OR k AND l", "a  b AND c d", "f:(aaa bbb AND ccc)", "g:(\"u  v\"~2 w) x",
           "x:(y:(z:(w OR v) AND u) AND t)", "+alpha -beta NOT gamma delta^3 epsilon~2"]
    res = pmap(check, qs)
    failures = [f for r in res for f in r[1]]
    rest, hit = classify(failures, p.get("known", []))
    emit({"ok": not rest, "evaluations": sum(r[0] for r in res), "distinct_nontrivial": len(qs),
          "rule": "queries = accepted token sequences of <= %d tokens with short texts, with long texts when they contain a term or phrase, every third one with texts that probe token boundaries (escapes, quotes / operators inside phrases), "
                  "+ 43 hand-picked (deep nesting, line breaks and runs of blanks inside phrases/regexes, repeated operands, look-alike pairs that differ in inclusiveness / implicit numerals only); also printed by a long-lived printer per setting (history); x 18 settings; distinct = queries" % p["max_tokens"],
          "bound": "token sequences <= %d x 18 settings" % p["max_tokens"],
          "samples": [{"query": "a AND (b OR c)", "settings": [4, 10, False], "pretty": Prettifier(4, 10)(parser.parse("a AND (b OR c)"))}],
          "failures": rest[:40], "known": hit, "known_covered": len(failures) - len(rest)})


if __name__ == "__main__":
    main()
