"""C09-B (bounded safety net): on every tree of a pool (parsed token sequences <= N, odd hand-built shapes) and every
single-point mutation of it, `==` (both directions) agrees with an independent structural fingerprint; layout-only and
name-only variants are equal; every node's clone_item, once given deep copies of the children, is equal to and
prints like the original with the same layout."""
from common import read_payload, emit, pmap, classify
import gen
import trees as TR

from luqum import tree as T


def eq_both(a, b):
    return (a == b), (b == a)


def check(t):
    fails = []
    n = 0
    f0 = TR.fingerprint(t)
    n += 1
    if not (t == t) or not (t == TR.deep(t)):
        fails.append({"input": repr(t), "observation": "not equal to itself / its deep copy"})
    for kind, m, same in TR.mutations(t):
        n += 1
        want = TR.fingerprint(m) == f0
        r1, r2 = eq_both(t, m)
        if bool(r1) != want or bool(r2) != want:
            fails.append({"input": "%r vs %s of it: %r" % (t, kind, m), "signature": kind,
                          "observation": "a==b %s, b==a %s, same content %s" % (r1, r2, want)})
    for node in gen.nodes(t):
        if node is T.NONE_ITEM:
            continue
        n += 1
        c = node.clone_item()
        ok = type(c) is type(node) and all(k is T.NONE_ITEM for k in c.children)
        ok = ok and (c.pos, c.size, c.head, c.tail) == (node.pos, node.size, node.head, node.tail)
        c.children = [TR.deep(k) for k in node.children]
        ok = ok and c == node and node == c and TR.fingerprint(c) == TR.fingerprint(node)
        ok = ok and c.__str__(head_tail=True) == node.__str__(head_tail=True) and str(c) == str(node)
        if not ok:
            fails.append({"input": repr(node), "signature": "clone:" + type(node).__name__,
                          "observation": "clone %r prints %r, original prints %r" % (c, c.__str__(head_tail=True), node.__str__(head_tail=True))})
    return n, fails


def deep_pairs():
    """trees deeper than the interpreter's recursion limit: `==` may give up with RecursionError (resource limit, assumption A9), but an
    answer, if there is one, is the right one - also when the two trees share a node object before the place where they differ"""
    fails = []
    n = 0
    for depth in (700, 3000):
        for wrap_name, wrap in (("groups", lambda x, k: T.Group(x)), ("mixed wrappers", lambda x, k: [T.Group, T.Not, lambda y: T.Boost(y, 2), T.Plus][k % 4](x))):
            shared = T.Word("shared")

            def build(last):
                t = T.AndOperation(shared, T.Word(last), T.NONE_ITEM)
                for k in range(depth):
                    t = wrap(t, k)
                return t
            a, a2, b = build("x"), build("x"), build("y")
            for left, right, same in ((a, b, False), (b, a, False), (a, a2, True)):
                n += 1
                try:
                    r = bool(left == right)
                except RecursionError:
                    continue
                if r is not same:
                    fails.append({"input": "%d %s around AND(shared node, %s)" % (depth, wrap_name, "x / y" if not same else "x / x"), "signature": "deep",
                                  "observation": "== answers %s on two trees of depth %d that %s" % (r, depth, "are equal" if same else "differ in the last word")})
    return n, fails[:3]


def main():
    p = read_payload()
    pool = TR.pool(p["max_tokens"])
    res = pmap(check, pool)
    res.append(deep_pairs())
    failures = [f for r in res for f in r[1]]
    rest, hit = classify(failures, p.get("known", []))
    emit({"ok": not rest, "evaluations": sum(r[0] for r in res), "distinct_nontrivial": len(pool),
          "rule": "pool = parse of every accepted token sequence of <= %d tokens + %d odd hand-built trees; for each tree every "
                  "single-point mutation (attribute, class, operand dropped / added / swapped / moved into or out of the neighbouring operation with the reading order kept, layout only, name only) and "
                  "every node's clone; distinct = trees in the pool" % (p["max_tokens"], len(TR.odd_trees())),
          "bound": "token sequences <= %d; single-point mutations" % p["max_tokens"],
          "samples": [{"tree": repr(pool[len(pool) // 2])}], "failures": rest[:40], "known": hit})


if __name__ == "__main__":
    main()
