"""C13-B (bounded): for every tree obtained by parsing an accepted token sequence of <= N tokens and stripping all
layout (a hand-built look), auto_head_tail(t) is equal to t, prints to an accepted query that parses back to an
equal tree, is idempotent and leaves t untouched; also on partially laid-out trees (every other node keeps its
layout)."""
from common import read_payload, emit, pmap, classify
import gen

from luqum.parser import parser
from luqum.auto_head_tail import auto_head_tail
from luqum import tree as T


def fingerprint(n):
    attrs = {"Word": ["value"], "Phrase": ["value"], "Regex": ["value"], "SearchField": ["name"],
             "Range": ["include_low", "include_high"], "Fuzzy": ["degree"], "Proximity": ["degree"],
             "Boost": ["force"], "From": ["include"], "To": ["include"]}.get(type(n).__name__, [])
    return (type(n).__name__, tuple((a, getattr(n, a)) for a in attrs), tuple(fingerprint(c) for c in n.children))


def layout(n):
    return tuple((m.pos, m.size, m.head, m.tail) for m in gen.nodes(n))


def partial(t, phase):
    """strip the layout of every other node only"""
    c = gen.strip_layout(t)
    for i, (a, b) in enumerate(zip(gen.nodes(t), gen.nodes(c))):
        if i % 2 == phase:
            b.head, b.tail = a.head, a.tail
    return c


def edited(t, phase):
    """a parsed tree (positions kept) in which every other node lost its head and tail, as after replacing operands by hand"""
    import copy
    c = copy.deepcopy(t)
    for i, b in enumerate(gen.nodes(c)):
        if i % 2 == phase:
            b.head = b.tail = ""
    return c


#: constructs the enumerated sequences only reach at 7+ tokens: signed / quoted range bounds, prefixes and suffixes around ranges
CURATED = ["[-10 TO -1]", "f:[-10 TO -1]", "([-3 TO -1])^2", "NOT [-5 TO -2]", "[\"a b\" TO \"c d\"]", "[-\"a b\" TO c]", "{-1 TO \"x\"}",
           "a AND [-2 TO -1] OR b", "f:(a [-2 TO -1])", "+[-2 TO -1] -[3 TO 4]", ">-1 AND <=-5", "f:>=\"a b\" g", "NOT -a", "+-a b", "NOT (a b)^2 c~"]


FRAGMENTS = ["title: foo", "a", "(b)", "f:(x y)", "\"p q\"", "-z", "[1 TO 2]", "k^2", "title:foo", "NOT x", " lead", "trail ", "t: \"u v\"~2 ", "g:[1 TO  2]"]


def check(item):
    fails = []
    seq, tricky = item
    q = seq if isinstance(seq, str) else (gen.render_tricky(seq, len(seq)) if tricky else gen.render(seq))
    try:
        t0 = parser.parse(q)
    except Exception:  # noqa: BLE001  not accepted (e.g. a non-integer proximity): outside the property's quantifier
        return 0, []
    cands = [("layout-free", gen.strip_layout(t0)), ("partial0", partial(t0, 0)), ("partial1", partial(t0, 1)),
             ("parsed-edited0", edited(t0, 0)), ("parsed-edited1", edited(t0, 1))]
    extras = len(seq) <= 5 or isinstance(seq, str) or (sum(len(x) for x in seq) % 3 == 0)      # longer sequences: every third one
    # the parsed tree itself, with blanks other than a single space: nothing may be altered
    try:
        if not extras:
            raise LookupError
        cands.append(("parsed-exotic-blanks", parser.parse(q.replace(" ", "\t ").replace("\t \t ", " \n"))))
    except Exception:  # noqa: BLE001
        pass
    # parsed fragments grafted below hand-built nodes (the documented use: add a filter to / negate a user query)
    import copy
    k = sum(len(x) for x in q) % len(FRAGMENTS)
    try:
        if not extras:
            raise LookupError
        frag = parser.parse(FRAGMENTS[k])

        def operand(x):
            # a shape the grammar can express: an operation (or a prefixed expression, which would swallow what follows) as operand sits in parentheses
            x = copy.deepcopy(x)
            return T.Group(x) if isinstance(x, (T.BaseOperation, T.Plus, T.Prohibit, T.Not)) else x
        cands += [("grafted-and", T.AndOperation(operand(t0), operand(frag))), ("grafted-or-first", T.OrOperation(T.Word("hand"), operand(t0))),
                  ("grafted-not", T.Not(operand(frag))), ("grafted-implicit", T.UnknownOperation(operand(frag), operand(t0), T.Word("w")))]
    except Exception:  # noqa: BLE001
        pass
    n = 0
    for kind, t in cands:
        n += 1
        f0, l0 = fingerprint(t), layout(t)
        try:
            y = auto_head_tail(t)
        except Exception as e:  # noqa: BLE001
            fails.append({"input": q, "kind": kind, "observation": "auto_head_tail raised %r" % (e,)})
            continue
        if not (y == t) or fingerprint(y) != f0:
            fails.append({"input": q, "kind": kind, "observation": "result not equal to the input"})
        if fingerprint(t) != f0 or layout(t) != l0:
            fails.append({"input": q, "kind": kind, "observation": "input modified"})
        for (a, b) in zip(gen.nodes(t), gen.nodes(y)):
            for attr in ("head", "tail"):
                va, vb = getattr(a, attr), getattr(b, attr)
                if va != "" and vb != va:
                    fails.append({"input": q, "kind": kind, "observation": "non-empty %s %r altered to %r" % (attr, va, vb)})
                if va == "" and vb not in ("", " "):
                    fails.append({"input": q, "kind": kind, "observation": "%s became %r" % (attr, vb)})
        z = auto_head_tail(y)
        if layout(z) != layout(y) or z != y:
            fails.append({"input": q, "kind": kind, "observation": "not idempotent"})
        if True:      # every kind: what was kept came from a valid layout, what was missing is filled in
            s = y.__str__(head_tail=True)
            try:
                back = parser.parse(s)
                if not (back == t):
                    fails.append({"input": q, "kind": kind, "printed": s,
                                  "observation": "printed %r parses to %r, not to %r" % (s, back, t)})
            except Exception as e:  # noqa: BLE001
                fails.append({"input": q, "kind": kind, "printed": s, "observation": "printed %r not accepted: %s" % (s, e)})
    return n, fails


def main():
    p = read_payload()
    seqs = gen.sequences(p["max_tokens"])
    items = [(s, False) for s in seqs] + [(s, True) for i, s in enumerate(seqs) if i % 3 == 0 and any(t in gen.TRICKY for t in s)]
    items += [(q, False) for q in CURATED]
    res = pmap(check, items)
    failures = [f for r in res for f in r[1]]
    rest, hit = classify(failures, p.get("known", []))
    emit({"ok": not rest, "evaluations": sum(r[0] for r in res), "distinct_nontrivial": len([s for s in seqs if len(s) > 1]) + len(CURATED),
          "rule": "every accepted token-type sequence of <= %d tokens (enumerated by DFS over the live LALR automaton), rendered "
                  "with distinct words (every third one also with texts that probe token boundaries: escapes, quotes inside phrases, reserved words in other case), + %d curated queries (signed / quoted range bounds, prefixes and suffixes around ranges); parsed, stripped of layout (fully / every other node / parsed and then edited / parsed with tabs and line breaks / parsed fragments grafted below hand-built operations and NOT); non-trivial = more than one token"
                  % (p["max_tokens"], len(CURATED)),
          "bound": "token sequences of length <= %d" % p["max_tokens"],
          "samples": [{"tokens": list(seqs[len(seqs) // 2]), "query": gen.render(seqs[len(seqs) // 2])}],
          "failures": rest[:40], "known": hit})


if __name__ == "__main__":
    main()
