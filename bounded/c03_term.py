"""C03-W (bounded): the term rule of the lexer matches, at the start of every enumerated string, exactly the prefix that the
documented token shape describes, stated here as a hand-written scanner instead of a regular expression:

  a term starts with a backslash-escaped character (any but a line break) or with a character that is neither white space nor one
  of  : ^ ~ ( ) { } [ ] / " ' + - \\ < > ; it continues with escaped characters, with characters that are neither white space nor
  one of  : ^ \\ ~ ( ) { } [ ] , and with time expressions: a colon that follows `T` and two digits, then two digits, then
  optionally a colon and two digits (several per term: date ranges and date math).

The rule's pattern has a look-behind that the exact regular-language prover does not translate (C03-K covers the other 13 rules
exactly); this enumeration is the bounded stand-in for it.  Strings: all strings of length <= L1 over an alphabet of one letter, `T`,
a digit, colon, backslash, plus, minus, star, blank; all strings of length <= L2 over {T, digit, colon} (two time expressions need
twelve characters); a list of hand-picked terms."""
import itertools
import re

from common import read_payload, emit, pmap, classify

import luqum.parser as P

FIRST_NO = set(":^~(){}[]/\"'+-\\<>")
NEXT_NO = set(":^\\~(){}[]")


def scan(s):
    """end of the term at the start of s, or None"""
    n = len(s)
    if n == 0:
        return None
    if s[0] == "\\":
        if n < 2 or s[1] == "\n":
            return None
        i = 2
    elif s[0].isspace() or s[0] in FIRST_NO:
        return None
    else:
        i = 1
    while i < n:
        c = s[i]
        if c == "\\":
            if i + 1 < n and s[i + 1] != "\n":
                i += 2
                continue
            break
        if not c.isspace() and c not in NEXT_NO:
            i += 1
            continue
        if c == ":" and i >= 3 and s[i - 3] == "T" and s[i - 2].isdecimal() and s[i - 1].isdecimal() \
                and len(s[i + 1:i + 3]) == 2 and s[i + 1:i + 3].isdecimal():
            i += 3
            if i < n and s[i] == ":" and len(s[i + 1:i + 3]) == 2 and s[i + 1:i + 3].isdecimal():
                i += 3
            continue
        break
    return i


LIVE = None


def live_end(s):
    global LIVE
    if LIVE is None:
        fn = P.t_TERM
        LIVE = re.compile(getattr(fn, "regex", None) or fn.__doc__, re.VERBOSE)
    m = LIVE.match(s)
    return m.end() if m else None


def check(chunk):
    fails = []
    n = 0
    for s in chunk:
        n += 1
        a, b = live_end(s), scan(s)
        if a != b:
            fails.append({"input": s, "signature": "term-extent",
                          "observation": "the term rule matches %r at the start of %r, the documented shape gives %r"
                          % (None if a is None else s[:a], s, None if b is None else s[:b])})
            if len(fails) >= 3:
                break
    return n, fails


HAND = ["2015-12-19T10:30", "2015-12-19T10:30:45Z", "2007-03-01T13:00:00Z/2008-05-11T15:30:00Z", "2015-01-01T08:30-2015-01-01T17:45 x", "now-1d/d", "T12:30", "t12:30",
        "aT1:30", "T123:45", "x-10:30", "a+05:45", "2020-01-01T10:30:00+02:00", "T12:3", "T12:30:4", "T12:30:45:50", "\\T12:30", "T1\\2:30", "a\\:b:c", "a\\", "a\\\nb",
        "\\\nb", "C\\:\\\\x y", "te?t*", "*", "?a", "é x", "a　b", "a​b", "١٢T١٢:٣٤", "T١٢:٣٤", "a/b", "a\"b", "a'b", "a<b>", "a+b-c",
        "/a", "'a", "<a", "a^2", "a~2", "a(b", "a)b", "a[b", "a]b", "a{b", "a}b", "AND", "a:b", ":a", "a\tb", "a\x1fb", "a\x85b"]


def main():
    p = read_payload()
    L1, L2 = p.get("len_mixed", 6), p.get("len_time", 12)
    strings = list(HAND)
    alpha1 = "aT1:\\+-* "
    for k in range(0, L1 + 1):
        strings.extend("".join(t) for t in itertools.product(alpha1, repeat=k))
    for k in range(L1 + 1, L2 + 1):
        strings.extend("".join(t) for t in itertools.product("T1:", repeat=k))
    size = 20000
    chunks = [strings[i:i + size] for i in range(0, len(strings), size)]
    res = pmap(check, chunks)
    failures = [f for r in res for f in r[1]]
    rest, hit = classify(failures, p.get("known", []))
    emit({"ok": not rest, "evaluations": sum(r[0] for r in res), "distinct_nontrivial": len(strings),
          "rule": "all strings of length <= %d over %r, all strings of length %d..%d over 'T1:', %d hand-picked terms; extent of the match of the live "
                  "t_TERM pattern at the start of the string vs a hand-written scanner of the documented token shape; distinct = strings" % (L1, alpha1, L1 + 1, L2, len(HAND)),
          "bound": "strings <= %d characters (9-letter alphabet) / <= %d characters (3-letter alphabet)" % (L1, L2),
          "samples": [{"string": "2015-01-01T08:30-2015-01-01T17:45 x", "term": "2015-01-01T08:30-2015-01-01T17:45"}],
          "failures": rest[:20], "known": hit, "known_covered": len(failures) - len(rest)})


if __name__ == "__main__":
    main()
