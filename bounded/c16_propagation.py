"""C16-B (bounded cross-check of the spec and safety net): every parsed query from accepted token sequences of <= N
tokens whose named elements are not separated from their terms by a negation (the statement's precondition), all truth
assignments to the named elements, both default operations: every sub-expression other than range bounds and the term
inside a fuzzy/proximity is classified exactly once, as matching exactly when it evaluates to true."""
import itertools

from common import read_payload, emit, pmap, classify
import gen
import trees as TR

from luqum import tree as T
from luqum.naming import MatchingPropagator, auto_name, matching_from_names
from luqum.parser import parser


def paths_of(n, p=()):
    yield p, n
    for i, c in enumerate(n.children):
        yield from paths_of(c, p + (i,))


def evaluate(n, p, named, default_or):
    """direct boolean evaluation: a TERMINAL named element (no named element below it) is the reported truth of the
    term(s) it covers; everything above is computed"""
    nm = type(n).__name__
    if p in named:
        # the reported status is that of the covered term; a named negation is the negation of that term
        return (not named[p]) if nm in ("Not", "Prohibit") else named[p]
    if not n.children or nm in ("Range", "Fuzzy", "Proximity"):
        q = p
        while q not in named and q:
            q = q[:-1]
        return named.get(q, False)
    vals = [evaluate(c, p + (i,), named, default_or) for i, c in enumerate(n.children)]
    if nm == "OrOperation" or (nm == "UnknownOperation" and default_or):
        v = any(vals)
    elif isinstance(n, T.BaseOperation):
        v = all(vals)
    else:
        v = vals[0]
    if nm in ("Not", "Prohibit"):
        v = not v
    return v


def precondition(t, names):
    """the statement's precondition: no negation lies strictly between a named element and a term it covers.  A term (a leaf, or a range /
    fuzzy / proximity taken as a whole) is covered by its nearest named ancestor-or-self; the nodes strictly between the two must not be
    negations (the named element itself may be one: its reported status is that of the negated term, luqum's convention)."""
    named = set(names.values())
    nodes = dict(paths_of(t))
    for p, n in nodes.items():
        is_term = not n.children or type(n).__name__ in ("Range", "Fuzzy", "Proximity")
        if not is_term:
            continue
        if any(type(nodes[p[:k]]).__name__ in ("Range", "Fuzzy", "Proximity") for k in range(len(p))):
            continue                                  # inside a range / fuzzy / proximity: not a term of its own
        q = p
        while q not in named and q:
            q = q[:-1]
        if q not in named:
            continue                                  # not covered by any named element
        for k in range(len(q) + 1, len(p)):
            if isinstance(nodes[p[:k]], (T.Not, T.Prohibit)):
                return False
    return True


def check(q):
    try:
        t = parser.parse(q)
    except Exception:  # noqa: BLE001
        return 0, []
    f0 = TR.fingerprint(t)
    names = auto_name(t)
    if not precondition(t, names) or len(names) > 6:
        return 0, []
    allpaths = set(names.values())
    # the truth assignment is to the terms: free bits only for named elements without a named element below them
    keys = sorted(k for k, pth in names.items() if not any(q != pth and q[:len(pth)] == pth for q in allpaths))
    fails = []
    n = 0
    skip = set()
    for p, node in paths_of(t):
        if type(node).__name__ in ("Range", "Fuzzy", "Proximity"):
            skip |= {p2 for p2, _ in paths_of(node, p) if p2 != p}
    want = {p for p, _ in paths_of(t) if p not in skip}
    for bits in itertools.product((True, False), repeat=len(keys)):
        named = {names[k]: b for k, b in zip(keys, bits)}
        for cls, default_or in ((T.OrOperation, True), (T.AndOperation, False)):
            n += 1
            # named inner elements are reported as matching iff they evaluate to true
            truth = {pth: evaluate(node, pth, named, default_or) for pth, node in paths_of(t)}
            neg = {pth for pth, node in paths_of(t) if isinstance(node, (T.Not, T.Prohibit))}
            # a named negation reports the status of the term it negates
            matching, other = matching_from_names([k for k, pth in names.items() if (truth[pth] != (pth in neg))], names)
            try:
                ok, ko = MatchingPropagator(cls)(t, matching, other)
            except Exception as e:  # noqa: BLE001
                fails.append({"input": q, "observation": "raised %r" % (e,)})
                continue
            if ok & ko or (ok | ko) != want:
                fails.append({"input": q, "matching": sorted(matching), "observation": "classified %r / %r, expected exactly %r once"
                              % (sorted(ok), sorted(ko), sorted(want))})
                continue
            for p, node in paths_of(t):
                if p in skip:
                    continue
                v = evaluate(node, p, named, default_or)
                if (p in ok) != v:
                    fails.append({"input": q, "matching": sorted(matching), "default_or": default_or,
                                  "observation": "%r marked %s but evaluates to %s" % (p, p in ok, v)})
                    break
        if fails:
            break
    if TR.fingerprint(t) != f0:
        fails.append({"input": q, "observation": "tree modified"})
    return n, fails[:2]


def main():
    p = read_payload()
    qs = [gen.render(s, 1) for s in gen.sequences(p["max_tokens"])]
    qs += ["a AND (b OR c) AND d", "(a b) OR (c AND d) OR e", "f:(a OR b) AND g:c^2", "a OR b OR c OR d OR e", "(a AND b) (c OR d)",
           "x:[1 TO 2] AND y~2 OR \"p q\"~3", "((a OR b) AND (c OR d)) OR e",
           # compound elements that are true only through the negations below them (every negation is itself a named operand)
           "x AND (a OR NOT b)", "x OR (NOT a AND -b)", "x AND NOT (NOT a AND NOT b)", "(a -b) OR c", "f:(NOT a OR b) AND c", "(NOT a OR NOT b) AND (c OR -d)",
           "x (NOT a NOT b)", "NOT a OR (b AND NOT c)", "a AND (b OR (c AND NOT d))", "-a OR (-b AND (-c OR d))"]
    res = pmap(check, qs)
    failures = [f for r in res for f in r[1]]
    rest, hit = classify(failures, p.get("known", []))
    emit({"ok": not rest, "evaluations": sum(r[0] for r in res), "distinct_nontrivial": sum(1 for r in res if r[0] > 2),
          "rule": "queries = accepted token sequences of <= %d tokens + 17 nested ones (10 with negated operands) satisfying the precondition, named by auto_name; "
                  "all 2^k truth assignments (k <= 6 named elements) x both default operations; distinct = queries with > 1 named element"
                  % p["max_tokens"],
          "bound": "token sequences <= %d, <= 6 named elements" % p["max_tokens"],
          "samples": [{"query": "a AND (b OR c)", "matching": [[1, 0, 1]],
                       "result": [sorted(x) for x in MatchingPropagator()(parser.parse("a AND (b OR c)"), {(1, 0, 1)}, {(0,), (1, 0, 0)})]}],
          "failures": rest[:30], "known": hit})


if __name__ == "__main__":
    main()
