"""helpers shared by the native bounded scripts (run under the repository's interpreter)"""
import json
import multiprocessing as mp
import os
import sys


def read_payload():
    return json.load(sys.stdin)


def emit(result):
    json.dump(result, sys.stdout, default=str)


def procs():
    return int(os.environ.get("VF_PROCS", "0")) or min(16, os.cpu_count() or 4)


def pmap(fn, items, chunks=None):
    n = procs()
    if n <= 1 or len(items) <= 1:
        return [fn(x) for x in items]
    with mp.get_context("fork").Pool(n) as pool:
        return pool.map(fn, items, chunksize=chunks or max(1, len(items) // (n * 8)))


def classify(failures, known, helpers=None):
    """split failures into those covered by a known finding (input predicate) and the rest.
    known: entries with 'input_predicate' (python expression over the failure's fields)."""
    rest, hit = [], set()
    for f in failures:
        covered = False
        for e in known:
            ns = dict(helpers or {})
            ns.update(f)
            try:
                if eval(e["input_predicate"], {"__builtins__": {"len": len, "any": any, "all": all, "str": str, "int": int}}, ns):
                    covered = True
                    hit.add(e["id"])
                    break
            except Exception:
                pass
        if not covered:
            rest.append(f)
    return rest, sorted(hit)
