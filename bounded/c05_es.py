"""C05-B (bounded in trees / configurations / nested objects per path): the builder either raises one of its documented
inconsistency exceptions or returns a query that matches exactly the documents the tree denotes, for EVERY document
with at most K nested objects per nested path (all truth values of the terms per object).  Also: each nested clause
sits on the innermost nested path of the fields it contains."""
import json

from common import read_payload, emit, pmap, classify
import es_corpus
import es_ref as R

from luqum.elasticsearch import ElasticsearchQueryBuilder
from luqum.exceptions import InconsistentQueryException


SHARED = {}


def check(item):
    q, ci = item
    cfgd = es_corpus.CONFIGS[ci]
    npaths = R.nested_paths(cfgd["nested_fields"])
    cfg = {"npaths": npaths, "default": cfgd["default_operator"], "default_field": "text"}
    fails = []
    n = 0
    for kind, t in es_corpus.trees_for(q):
        n += 1
        b = ElasticsearchQueryBuilder(**cfgd)
        # one long-lived builder per configuration and worker process sees every query of its share, accepted or refused, in order
        shared = SHARED.setdefault(ci, ElasticsearchQueryBuilder(**cfgd))
        try:
            js_shared = shared(t)
        except Exception as e:  # noqa: BLE001
            js_shared = "raised %s" % type(e).__name__
        try:
            js = b(t)
        except Exception as e:  # noqa: BLE001
            js = "raised %s" % type(e).__name__
        if json.dumps(js_shared, sort_keys=True, default=str) != json.dumps(js, sort_keys=True, default=str):
            fails.append({"input": q, "tree": kind, "config": ci, "signature": "history",
                          "observation": "a builder that translated / refused other queries before gives %s, a fresh one %s" % (json.dumps(js_shared, default=str)[:200], json.dumps(js, default=str)[:200])})
        if isinstance(js, str):
            continue            # refused (C07 decides whether rightly)
        # the same nested fields spelled as a flat list of dotted names / as dotted keys: the same query, to the letter
        if cfgd["nested_fields"] and not R.leafless_levels(cfgd["nested_fields"]):
            flat = sorted(R.spec_paths(cfgd["nested_fields"]))
            levels = {}
            for leaf in flat:
                levels.setdefault(leaf.rsplit(".", 1)[0], []).append(leaf.rsplit(".", 1)[1])
            deepest_first = {k: levels[k] for k in sorted(levels, key=lambda k: (-k.count("."), k))}
            for how, spelling in (("a list of dotted names", flat), ("dotted keys", {k: None for k in reversed(flat)}),
                                  ("one dotted key per level, deepest first", deepest_first),
                                  ("one dotted key per level, deepest last", {k: deepest_first[k] for k in reversed(list(deepest_first))})):
                n += 1
                try:
                    js2 = ElasticsearchQueryBuilder(**dict(cfgd, nested_fields=spelling))(t)
                except Exception as e:  # noqa: BLE001
                    js2 = "raised %s" % type(e).__name__
                if json.dumps(js2, sort_keys=True) != json.dumps(js, sort_keys=True):
                    fails.append({"input": q, "tree": kind, "config": ci, "signature": "spec-spelling",
                                  "observation": "nested fields given as %s %r: %s, as %r: %s" % (how, spelling, json.dumps(js2)[:200], cfgd["nested_fields"], json.dumps(js)[:200])})
                    break
        atoms = []
        R.tree_atoms(t, [], "text", atoms)
        try:
            for doc in R.documents(atoms, npaths, K=2):
                a = R.den(t, doc, cfg)
                bb = R.esden(js, doc, cfg)
                if a != bb:
                    fails.append({"input": q, "tree": kind, "config": ci, "signature": "meaning",
                                  "bool_splices_nonprefix": R.bool_splices_nonprefix(t, cfg["default"], npaths),
                                  "touches_leafless_nested_level": R.touches_leafless_level(t, cfgd["nested_fields"]),
                                  "observation": "tree %r denotes %s but the ES query %s matches %s on document root=%r nested=%r"
                                  % (t, a, json.dumps(js)[:300], bb, {k[1]: v for k, v in doc.root.items()},
                                     {p: [({k[1]: v for k, v in o.items()}, pi) for o, pi in objs] for p, objs in doc.objs.items()})})
                    break
        except Exception as e:  # noqa: BLE001
            fails.append({"input": q, "tree": kind, "config": ci, "observation": "reference evaluation failed: %r on %s" % (e, json.dumps(js)[:200])})
        # nested clauses sit on the innermost nested path of the fields below them
        for kind_, body, enclosing, _ in R.es_leaves(js):
            f = R.es_leaf_atom(kind_, body)[0]
            want = R.innermost_nested(f, npaths) if f else None
            if (enclosing[-1] if enclosing else None) != want:
                fails.append({"input": q, "tree": kind, "config": ci, "signature": "nesting",
                              "touches_leafless_nested_level": R.touches_leafless_level(t, cfgd["nested_fields"]),
                              "observation": "leaf on %r sits in nested %r, innermost nested path is %r: %s" % (f, enclosing, want, json.dumps(js)[:300])})
                break
    return n, fails[:2]


def main():
    p = read_payload()
    qs = es_corpus.queries(p["max_leaves"])
    inner_dotted = {ci for ci, c in enumerate(es_corpus.CONFIGS) if c["nested_fields"] and "i.a" in c["nested_fields"].get("n", {})}
    items = [(q, ci) for q in qs for ci in range(len(es_corpus.CONFIGS)) if ci not in inner_dotted or "n" in q]
    res = pmap(check, items)
    failures = [f for r in res for f in r[1]]
    rest, hit = classify(failures, p.get("known", []))
    emit({"ok": not rest, "evaluations": sum(r[0] for r in res), "distinct_nontrivial": len(items),
          "rule": "%d queries (<= %d leaves from 18 leaf spellings incl. object / nested / doubly nested fields in dotted and nested-group "
                  "form, combined with AND / OR / implicit / NOT / + / - / groups; resolved variant with boolean operations) x %d "
                  "configurations (default operator x nested spec x analysed); every document with <= 2 objects per nested path; distinct "
                  "= (query, configuration) pairs" % (len(qs), p["max_leaves"], len(es_corpus.CONFIGS)),
          "bound": "<= %d leaves; <= 2 nested objects per path" % p["max_leaves"],
          "samples": [{"query": "n.x:d AND NOT t:b", "config": es_corpus.CONFIGS[2]}],
          "failures": rest[:40], "known": hit, "known_covered": len(failures) - len(rest)})


if __name__ == "__main__":
    main()
