"""C10-B (bounded safety net): on every parsed query from accepted token sequences of <= N tokens (two spacings) and every
resolver configuration (targets AND / OR / boolean operation / Lucene-like, separators ' ', '' and tab), the resolved tree
 - has no implicit operation left; every other node keeps its type, content, position, size and tail, in the same order;
 - differs in layout only by the separator in front of the 2nd and following operands of each resolved operation;
 - in the Lucene-like mode uses AND throughout when the query has no explicit operator;
 - is a fixed point of the resolver, the input tree is untouched;
 - is the same from a fresh resolver and from one long-lived resolver per configuration (no dependence on earlier calls)."""
from common import read_payload, emit, pmap, classify
import gen
import trees as TR

from luqum import tree as T
from luqum.parser import parser
from luqum.utils import UnknownOperationResolver

TARGETS = [("AND", T.AndOperation), ("OR", T.OrOperation), ("BOOL", T.BoolOperation), ("lucene", None)]
HEADS = [" ", "", "\t"]
SHARED = {}


def node_content(n):
    return (tuple((a, getattr(n, a)) for a in TR.ATTRS.get(type(n).__name__, [])),)


def compare(a, b, target, add_head, sep, problems, path=()):
    """a: input node, b: resolved node; sep: this node is a 2nd.. operand of a resolved operation"""
    if isinstance(a, T.UnknownOperation):
        ok_type = (type(b) is target) if target is not None else type(b) in (T.AndOperation, T.OrOperation)
    else:
        ok_type = type(b) is type(a)
    if not ok_type:
        problems.append("at %s: %s became %s" % (path, type(a).__name__, type(b).__name__))
        return
    if node_content(a) != node_content(b):
        problems.append("at %s: content changed %r -> %r" % (path, a, b))
    if (a.pos, a.size, a.tail) != (b.pos, b.size, b.tail):
        problems.append("at %s: pos / size / tail (%r, %r, %r) became (%r, %r, %r)" % (path, a.pos, a.size, a.tail, b.pos, b.size, b.tail))
    want_head = (add_head + a.head) if sep else a.head
    if b.head != want_head:
        problems.append("at %s: head %r became %r, expected %r" % (path, a.head, b.head, want_head))
    if len(a.children) != len(b.children):
        problems.append("at %s: %d children became %d" % (path, len(a.children), len(b.children)))
        return
    resolved_here = isinstance(a, T.UnknownOperation)
    for i, (x, y) in enumerate(zip(a.children, b.children)):
        compare(x, y, target, add_head, resolved_here and i >= 1, problems, path + (i,))


def check(q):
    try:
        t = parser.parse(q)
    except Exception:  # noqa: BLE001
        return 0, []
    fails = []
    n = 0
    f0, l0 = TR.fingerprint(t), TR.layout(t)
    has_explicit = any(isinstance(x, (T.AndOperation, T.OrOperation)) for x in gen.nodes(t))
    for tname, target in TARGETS:
        for add_head in HEADS:
            n += 1
            try:
                r = UnknownOperationResolver(target, add_head=add_head)(t)
            except Exception as e:  # noqa: BLE001
                fails.append({"input": q, "config": [tname, add_head], "observation": "resolver raised %r" % (e,)})
                continue
            problems = []
            compare(t, r, target, add_head, False, problems)
            if any(isinstance(x, T.UnknownOperation) for x in gen.nodes(r)):
                problems.append("an implicit operation is left")
            if target is None and not has_explicit and any(isinstance(x, T.OrOperation) for x in gen.nodes(r)):
                problems.append("Lucene-like mode used OR although the query has no explicit operator")
            if TR.fingerprint(t) != f0 or TR.layout(t) != l0:
                problems.append("input tree modified")
            r2 = UnknownOperationResolver(target, add_head=add_head)(r)
            if not (r2 == r) or TR.layout(r2) != TR.layout(r):
                problems.append("not a fixed point: resolving again changes the tree")
            key = (tname, add_head)
            if key not in SHARED:
                SHARED[key] = UnknownOperationResolver(target, add_head=add_head)
            r3 = SHARED[key](t)
            if not (r3 == r) or TR.layout(r3) != TR.layout(r) or TR.fingerprint(r3) != TR.fingerprint(r):
                problems.append("a resolver that has resolved other trees before gives %r / %r instead of %r" % (r3, r3.__str__(head_tail=True), r))
            for pb in problems[:2]:
                fails.append({"input": q, "config": [tname, add_head], "signature": pb.split(":")[0][:30], "observation": pb})
    return n, fails[:3]


def main():
    p = read_payload()
    qs = ["(a)(b)", "\"p\"\"q\" r", "-(c)(d)^2", "x OR y", "a b", "a b c", "f:(a b) c", "(a b) OR c d", "a AND b c OR d e", "a (b (c d))", "+a -b c", "a OR b (c d) AND e",
          "x:(a b)^2 c", "title:(foo bar)^3 OR body:(foo bar)", "x:-(a b)", "x:+(a b) y:NOT (c d)", "((a OR b) (c d))", "(a OR b (c d))", "x:(a AND b (c d) e)", "-(p OR q (r s) t)",
          "(a)OR(b)", "NOT(a)", "(p q)OR(r)", "x:((a)AND(b)) y z", "a OR b c"]
    for i, seq in enumerate(gen.sequences(p["max_tokens"])):
        qs.append(gen.render(seq, i % 3, sep=" "))
        if i % 4 == 0:
            qs.append(gen.render(seq, 1, sep=""))
    res = pmap(check, qs)
    failures = [f for r in res for f in r[1]]
    rest, hit = classify(failures, p.get("known", []))
    emit({"ok": not rest, "evaluations": sum(r[0] for r in res), "distinct_nontrivial": len(qs),
          "rule": "queries = accepted token sequences of <= %d tokens (single blanks; every 4th with minimal blanks) + 25 hand-picked (abutting operands, implicit operations below boosted / prefixed field groups, "
                  "explicit operators at several levels) x 4 targets x 3 separators; node-by-node comparison with the input; fixed point; fresh vs "
                  "long-lived resolver; distinct = queries" % p["max_tokens"],
          "bound": "token sequences <= %d" % p["max_tokens"],
          "samples": [{"query": "a b OR c", "resolved": UnknownOperationResolver(T.AndOperation)(parser.parse("a b OR c")).__str__(head_tail=True)}],
          "failures": rest[:40], "known": hit, "known_covered": len(failures) - len(rest)})


if __name__ == "__main__":
    main()
