"""C14-B (bounded, native threads):

(1) SYSTEMATIC: for every ordered pair of inputs from a pool of valid and invalid queries, luqum.thread.parse runs in two
    threads under a deterministic scheduler that owns the only preemption points that matter for luqum's state - every call of
    the lexer's token() (i.e. between any two lexer steps) - and EVERY interleaving of the two token streams is executed
    (capped per pair, then sampled with the seed).  Each call must return exactly the tree (structure, values, head / tail,
    positions) or raise exactly the error (type and message) of a sequential luqum.parser.parse of the same input.
(2) a third thread joins on a subset (three-way interleavings, sampled).
(3) STRESS: 8 free-running threads with a 1 microsecond switch interval over the whole pool, repeated.

The scheduler wraps ply.lex.Lexer.token (whatever lexer object the code under test hands to the parser), so a version of
thread.parse that shares a lexer is exercised exactly where it breaks."""
import itertools
import random
import sys
import threading

from common import read_payload, emit, classify
import trees as TR

import ply.lex as lex
from luqum import parser as P
from luqum import thread as TH

POOL = ["a b", "f:(x OR y)^2", "\"p q\"~3 AND z", "[1 TO 5] c", "NOT k -m +n", "a AND", "(b", "x:", "y~2 /r+/", "u:v w:\"s t\" >=4",
        "  lead  trail  ", "a OR b OR c d", "g^", ")", "h AND (i OR j", "t:[a TO", "e:{1 TO 2} l<=3"]


def outcome(fn, q):
    try:
        t = fn(q)
    except Exception as e:  # noqa: BLE001
        return ("raised", type(e).__name__, str(e))
    return ("tree", repr(t), TR.fingerprint(t), TR.layout(t), str(t))


def ntokens(q):
    lx = P.lexer.clone()
    lx.input(q)
    n = 0
    try:
        while lx.token() is not None:
            n += 1
    except Exception:  # noqa: BLE001
        n += 1
    return n + 1        # the final call that returns None


class Scheduler:
    """runs `order` (a sequence of thread indices): thread i may perform its k-th token() call only when it is its turn; once
    the order is exhausted, or a thread has finished, the remaining threads run freely"""

    def __init__(self, n, order):
        self.order = list(order)
        self.pos = 0
        self.cv = threading.Condition()
        self.done = [False] * n
        self.ident = {}

    def me(self):
        return self.ident.get(threading.get_ident())

    def turn(self):
        i = self.me()
        if i is None:
            return
        with self.cv:
            while True:
                # skip turns of finished threads
                while self.pos < len(self.order) and self.done[self.order[self.pos]]:
                    self.pos += 1
                if self.pos >= len(self.order) or self.order[self.pos] == i:
                    if self.pos < len(self.order):
                        self.pos += 1
                    self.cv.notify_all()
                    return
                if not self.cv.wait(timeout=5.0):
                    raise RuntimeError("scheduler stalled")

    def finish(self):
        i = self.me()
        with self.cv:
            self.done[i] = True
            self.cv.notify_all()


SCHEDULE_NO = [0]


def run_schedule(queries, order):
    sched = Scheduler(len(queries), order)
    SCHEDULE_NO[0] += 1
    copy_ctx = SCHEDULE_NO[0] % 2 == 0       # as asyncio.to_thread / context-propagating executors start their workers
    real = lex.Lexer.token

    def token(self):
        sched.turn()
        return real(self)
    results = [None] * len(queries)

    # every fourth schedule: the callers pass the (documented as unused) lexer argument, as luqum.parser.parse's signature allows
    extra = {"lexer": P.lexer} if SCHEDULE_NO[0] % 4 == 1 else {}

    def work(i):
        sched.ident[threading.get_ident()] = i
        try:
            results[i] = outcome(lambda q: TH.parse(q, **extra), queries[i])
        finally:
            sched.finish()
    lex.Lexer.token = token
    try:
        import contextvars
        # every third schedule: the application gives all its workers the same name
        same_name = {"name": "worker"} if SCHEDULE_NO[0] % 3 == 0 else {}
        ths = [threading.Thread(target=(contextvars.copy_context().run if copy_ctx else (lambda f, i: f(i))), args=(work, i), **same_name) for i in range(len(queries))]
        for t in ths:
            t.start()
        for t in ths:
            t.join(30)
    finally:
        lex.Lexer.token = real
    return results


def line_level(a, b, seq, limit):
    """finer than lexer steps: thread A is stopped before each line it executes inside luqum's own source, thread B then performs one whole
    parse, then A goes on (one schedule per line event, at most `limit` evenly spread ones); both outcomes must be the sequential ones"""
    import os
    root = os.path.dirname(os.path.abspath(P.__file__)) + os.sep
    # count A's line events
    count = [0]

    def counter(frame, event, arg):
        if frame.f_code.co_filename.startswith(root):
            if event == "line":
                count[0] += 1
            return counter
        return None
    def run_count():
        sys.settrace(counter)
        try:
            outcome(TH.parse, a)
        finally:
            sys.settrace(None)
    t = threading.Thread(target=run_count)
    t.start()
    t.join()
    total = count[0]
    stops = sorted(set(range(1, total + 1)) if total <= limit else {1 + (k * (total - 1)) // (limit - 1) for k in range(limit)})
    fails = []
    n = 0
    for stop in stops:
        n += 2
        seen = [0]
        res = {}
        go_b, b_done = threading.Event(), threading.Event()

        def tracer(frame, event, arg, seen=seen, go_b=go_b, b_done=b_done):
            if frame.f_code.co_filename.startswith(root):
                if event == "line":
                    seen[0] += 1
                    if seen[0] == stop:
                        go_b.set()
                        b_done.wait(20)
                return tracer
            return None

        def run_a(res=res, tracer=tracer, go_b=go_b):
            sys.settrace(tracer)
            try:
                res["a"] = outcome(TH.parse, a)
            finally:
                sys.settrace(None)
                go_b.set()

        def run_b(res=res, go_b=go_b, b_done=b_done):
            go_b.wait(20)
            try:
                res["b"] = outcome(TH.parse, b)
            finally:
                b_done.set()
        ta, tb = threading.Thread(target=run_a, name="worker"), threading.Thread(target=run_b, name="worker")
        ta.start()
        tb.start()
        ta.join(30)
        tb.join(30)
        for which, q in (("a", a), ("b", b)):
            if res.get(which) != seq[q]:
                fails.append({"input": [a[:60], b[:60]], "schedule": "A stopped before its line event %d of %d, B parses, A resumes" % (stop, total), "signature": "line-level",
                              "observation": "line-level preemption (A stopped before line event %d of %d while B parses): the call on %r gave %r, sequentially %r" %
                              (stop, total, q[:60], (res.get(which) or ("nothing",))[:2], seq[q][:2])})
                return n, fails
    return n, fails


def interleavings(counts, cap, rng):
    """all merges of the token streams (as sequences of thread indices); sampled when there are more than cap"""
    total = 1
    rem = sum(counts)
    for c in counts:
        total *= _binom(rem, c)
        rem -= c
    if total <= cap:
        def rec(left, acc):
            if not any(left):
                yield list(acc)
                return
            for i, c in enumerate(left):
                if c:
                    left[i] -= 1
                    acc.append(i)
                    yield from rec(left, acc)
                    acc.pop()
                    left[i] += 1
        yield from rec(list(counts), [])
    else:
        base = [i for i, c in enumerate(counts) for _ in range(c)]
        seen = set()
        # the two extreme schedules and the strict alternation are always included
        for o in (sorted(base), sorted(base, reverse=True), [i for tup in itertools.zip_longest(*[[i] * c for i, c in enumerate(counts)]) for i in tup if i is not None]):
            seen.add(tuple(o))
            yield list(o)
        while len(seen) < cap:
            o = base[:]
            rng.shuffle(o)
            if tuple(o) not in seen:
                seen.add(tuple(o))
                yield o


def _binom(n, k):
    r = 1
    for i in range(k):
        r = r * (n - i) // (i + 1)
    return r


def main():
    p = read_payload()
    rng = random.Random(p.get("seed", 0))
    pool = POOL[: p.get("pool", len(POOL))]
    seq = {q: outcome(P.parse, q) for q in pool}
    seq_thread = {q: outcome(TH.parse, q) for q in pool}
    fails = []
    n = 0
    for q in pool:
        if seq[q] != seq_thread[q]:
            fails.append({"input": q, "signature": "sequential", "observation": "thread.parse alone gives %r, parser.parse %r" % (seq_thread[q][:2], seq[q][:2])})
    counts = {q: ntokens(q) for q in pool}
    pairs = [(a, b) for a in pool for b in pool if a != b]
    schedules = 0
    for a, b in pairs:
        if len(fails) > 10:
            break
        for order in interleavings([counts[a], counts[b]], p.get("cap", 200), rng):
            schedules += 1
            res = run_schedule([a, b], order)
            n += 2
            for q, r in zip((a, b), res):
                if r != seq[q]:
                    fails.append({"input": [a, b], "schedule": "".join(map(str, order)), "signature": "interleaving",
                                  "observation": "under schedule %s (token steps of thread 0 / 1) the call on %r gave %r, sequentially %r" %
                                  ("".join(map(str, order)), q, r[:2] + r[4:], seq[q][:2] + seq[q][4:])})
                    break
            else:
                continue
            break
    triples = [tuple(rng.sample(pool, 3)) for _ in range(p.get("triples", 20))]
    for tr in triples:
        for order in interleavings([counts[q] for q in tr], p.get("cap3", 30), rng):
            schedules += 1
            res = run_schedule(list(tr), order)
            n += 3
            for q, r in zip(tr, res):
                if r != seq[q]:
                    fails.append({"input": list(tr), "schedule": "".join(map(str, order)), "signature": "interleaving3",
                                  "observation": "three threads, schedule %s: the call on %r gave %r, sequentially %r" % ("".join(map(str, order)), q, r[:2], seq[q][:2])})
    # line-level preemption inside luqum's own code (finer than lexer steps)
    many_numbers = " ".join("w%d^%d.%d x%d~%d" % (i, i + 2, i % 7, i, i % 3 + 1) for i in range(140))
    seq[many_numbers] = outcome(P.parse, many_numbers)
    ll_pairs = [("x^7 AND  y~0.25", many_numbers), ("a  OR\tb", "c:(d   e)^2.50 "), ("f:[1 TO  2] g", "(h"), ("i AND", " j  k~3 ")][: p.get("line_pairs", 2)]
    for a, b in ll_pairs:
        for q in (a, b):
            if q not in seq:
                seq[q] = outcome(P.parse, q)
        k, ff = line_level(a, b, seq, p.get("line_stops", 120))
        n += k
        schedules += k // 2
        fails.extend(ff)
    # free-running stress
    old = sys.getswitchinterval()
    sys.setswitchinterval(1e-6)
    try:
        bad = []

        def worker(k):
            r = random.Random(k)
            for _ in range(p.get("stress_calls", 300)):
                q = r.choice(pool)
                o = outcome(TH.parse, q)
                if o != seq[q]:
                    bad.append((q, o[:2], seq[q][:2]))
        ths = [threading.Thread(target=worker, args=(k,)) for k in range(8)]
        for t in ths:
            t.start()
        for t in ths:
            t.join()
        n += 8 * p.get("stress_calls", 300)
        for q, o, s in bad[:3]:
            fails.append({"input": q, "signature": "stress", "observation": "8 free-running threads: the call on %r gave %r, sequentially %r" % (q, o, s)})
    finally:
        sys.setswitchinterval(old)
    rest, hit = classify(fails, p.get("known", []))
    emit({"ok": not rest, "evaluations": n, "distinct_nontrivial": schedules,
          "rule": "%d inputs (valid and invalid); every ordered pair x every interleaving of their lexer steps (<= %d per pair, beyond that the "
                  "two serial orders, strict alternation and seeded samples); %d random triples x <= %d schedules; 8 free-running threads x %d "
                  "calls with a 1 us switch interval; %d pairs with line-level preemption inside luqum's code (<= %d stops each); workers of every second schedule start in a copy of the caller's context; outcome compared with sequential luqum.parser.parse (repr, fingerprint, layout, text / "
                  "exception type and message); distinct = schedules executed" % (len(pool), p.get("cap", 200), len(triples), p.get("cap3", 30), p.get("stress_calls", 300), p.get("line_pairs", 2), p.get("line_stops", 120)),
          "bound": "2-3 threads under the deterministic scheduler at lexer-step granularity; pool of %d inputs" % len(pool),
          "samples": [{"pair": ["a b", "(b"], "schedule": "0101100", "result": [seq["a b"][1], seq["(b"][1:3]]}],
          "failures": rest[:20], "known": hit, "known_covered": len(fails) - len(rest)})


if __name__ == "__main__":
    main()
