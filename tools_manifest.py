#!/usr/bin/env python3
"""regenerates MANIFEST.json from the table below (keeps it valid at all times)"""
import json

CHECKS = {
 "C01": ("proof", "3.C01",
   "Every grammar action (25 productions x operand shapes), every lexer rule (x 3 tracker states) and every __str__ is run symbolically under CPython on the real source and its contract (text preservation, stack invariant, typing, frame, tiling invariant, print contract) is discharged by z3 for all values of its symbolic inputs and for n-ary operations of any length (runs + Lean list lemma); composition to print(parse(q)) == q is the paper lemma L-LR/L-LEX. The numeral re-spelling clause is a BOUNDED stand-in and is not counted as proved.",
   "A1-A10 of DESIGN 2.10: PLY 3.11 lexer/parser contracts (A8), re/decimal contracts (A3/A4), engine hooks agree with native operations (A2), paper composition lemmas (A6), closed node-class universe (A7). Known findings KF-D1 (blank before a field colon) and KF-D3 (numerals with > 28 significant digits) are excluded by recorded predicates.",
   "contract-based deductive verification: symbolic execution of the real functions under CPython with z3 proxies, per-production / per-rule / per-class obligations discharged by z3 (cvc5 second opinion); bounded stand-in for numeral spelling"),
 "C02": ("proof", "3.C02",
   "Relative geometry of pos/size/head/tail (start and end of the widened span, size = length of the printed body, children nested in order) is proved per production and per lexer rule by z3 (strings + linear integers) for all layouts, under the handle-contiguity hypothesis established by the lexer-step contract; the table fact that an OR/AND right operand is never of the same class is checked exhaustively on the live LALR table; composition to slices of the original string is the paper lemma L-TILE together with C01.",
   "A1-A10; L-TILE and the LR-run induction are paper proofs; numerals compared in their original spelling (the statement's permitted re-spelling). Known finding KF-D1 (size counts the dropped blank before a field colon).",
   "contract-based deductive verification (same engine as C01): per-production geometry obligations in linear integer arithmetic over string lengths, z3"),
 "C04": ("proof", "3.C04",
   "Exception sets (every lexer rule, grammar action, t_error, p_error returns or raises a ParseError on every path; numeric conversions modelled by documented contracts of Decimal/int and decided as regular-language inclusions), write frames (no module, class or singleton state is written on any path), the tracker reset (the first token never reads the previous tracker) and the forwarding of both entry points are proved for all symbolic inputs; PLY's own statefulness is assumed and audited by a BOUNDED call-sequence check.",
   "A1-A10, in particular A8 (PLY never returns partial values once p_error/t_error raise; parser stacks are locals) and A4 (Decimal/int accept exactly the documented numeric strings).",
   "contract-based deductive verification: exception-set, frame and read-frame obligations on the real functions (z3, regex inclusions); bounded call sequences as audit of the PLY assumption"),
 "C08": ("proof", "3.C08",
   "Dispatch is decided exhaustively on the finite table (every node class x every subset of handler names along its MRO, two instances, cache hits, interleaved visitor classes); the traversal trace (node first, each child once in order, fresh child contexts carrying the true ancestor chain and index path, caller's context untouched) and the Copy relation of the default transformers (same type, equal, same text and positions, fresh nodes, input untouched) are proved per node class with abstract children, for all attribute values and any number of operands (runs), by running the real generic_visit / clone_children / child_context under CPython; structural induction (L-IND) lifts them to all trees.",
   "A1-A10; L-IND is a paper lemma; loops over operand runs are shown stateless syntactically (uniform-loop obligation); user-defined node classes are out of scope (A7).",
   "contract-based deductive verification: per-class trace / Copy contracts on the real visitor code with stubbed sub-term visits (modular induction), exhaustive finite dispatch table"),
 "C09": ("proof", "3.C09",
   "For every ordered pair of node classes (operand shapes 0, 1, 2, 2+run; implicit/explicit numerals) the real Item.__eq__ is run with layout and names poisoned and returns, on every path, exactly FP(self) = FP(other) where FP is an algebraic-datatype fingerprint built from the meaning-bearing attributes listed in the property statement (independent of _equality_attrs); reflexivity, symmetry and transitivity follow from term equality. clone_item is proved per class (type, content, layout, placeholder children, equal to and printing like the original once given the children's copies).",
   "A1-A10; numeric attributes compared as real numbers (Decimal/int equality is numeric); L-IND / L-Z paper and Lean lemmas.",
   "contract-based deductive verification: per-class-pair equality obligations against an ADT fingerprint in z3 (datatypes + sequences), read-frame by poisoning"),
 "C10": ("proof", "3.C10",
   "Per node class x 6 resolver configurations (targets AND / OR / boolean operation; Lucene-like mode with empty, OR or AND memory) the real UnknownOperationResolver visit is run with abstract children stubbed by the contract Res and must return a fresh node of the same type (the target for an implicit operation), with the input's position and layout, the resolved children in the same order and number, a fingerprint equal to the input's with implicit nodes relabelled, add_head inserted in front of exactly the 2nd.. operands of a resolved node, the input and the caller's context untouched (except the documented last_operation entry); a tree without implicit operations is copied (idempotence). Any add_head string, any attribute values, any number of operands.",
   "A1-A10; boolean-meaning preservation is the paper consequence 'the result is the input relabelled'; the Lucene-mode statement 'AND throughout without explicit operators' follows on paper from the per-visit bookkeeping obligations.",
   "contract-based deductive verification: per-class Res contract on the real transformer code with stubbed sub-term visits, ADT fingerprints with an uninterpreted relabelling function, z3"),
 "C13": ("exploration", "3.C13",
   "Structural clauses are PROVED per node class on the real AutoHeadTail code with stubbed sub-term visits: the result is a fresh tree equal to the input, the input and the context are untouched, exactly the empty heads/tails at separator positions (operands of operations, operand of NOT, range bounds) become one blank, non-empty ones are identical, separator positions are non-empty afterwards (idempotence) - for all layouts and any number of operands (generic member of an operand run). The clause 'its printed form is accepted and parses back to an equal tree' needs the LR parser on a constructed string and is decided by a BOUNDED stand-in (all layout-free / partially laid-out trees from token sequences of <= 5 (quick) / 6 tokens), hence level exploration.",
   "A1-A10 for the proved clauses; the parse-back clause is bounded by token-sequence length and not proved.",
   "contract-based deductive verification of the structural contract (per class, z3) + bounded parse-back stand-in (native, exhaustive over token sequences)"),
 "C17": ("proof", "3.C17",
   "mark_node is proved for index paths of any depth with a cut-point invariant on its while loop (init / preserved / decreases / exit): a node is left untouched or wrapped with its own class, wrapped whenever its class differs from the class inherited from the nearest marked ancestor, never when unmarked; css_class and the tag format proved for arbitrary class and element names; ExpressionMarker.generic_visit proved per node class (marks a fresh equal copy that prints like the input, once, with its own index path, children in order, input untouched). The statement about rendered classes, nesting and erasure follows by the lemma L-MARK whose induction step is discharged by z3.",
   "A1-A10; L-MARK composition is a paper argument over the print contract C01-T; sets of paths are z3 sets over integer sequences.",
   "contract-based deductive verification: loop invariant + per-class marking contract on the real code, z3 (sequences, sets, ADT option type)"),
 "C20": ("proof", "3.C20",
   "Per node class x parent class x zeal in {0, 1} the real LuceneCheck.check is run with the checks of sub-terms stubbed (clean / one-or-more messages): it never raises, yields strings only, leaves tree, checker, parents and module state untouched, checks every child once with the true parent chain; a node that is well formed by the spec predicate written from the statement (word without whitespace, fuzzy on a word with non-negative degree, proximity on a phrase, field name of word characters, value-like field expression, group / field group placement; with zeal also the two documented pitfalls) with clean children yields nothing; each listed ill-formed construct yields a message at its own node; a message below is propagated by operations, groups, fields, boosts and prefixes; __call__ is True iff errors() is empty. Unicode-sized regex classes are decided exactly by a derivative-based prover.",
   "A1-A10; math.copysign modelled as 'x < 0' (negative zero not modelled); L-IND is a paper lemma; Term / BaseGroup / NoneItem are not Lucene constructs and only totality is required of them.",
   "contract-based deductive verification: per-class acceptance / completeness / totality obligations on the real checker code with stubbed sub-term checks (z3 + exact regular-language reasoning)"),
 "C15": ("proof", "3.C15",
   "next_name is proved for names of ANY length (an arbitrary word over the alphabet followed by each letter of the live look-up table): it never raises on issued names, only the last position changes or one letter is appended, and the rank (length, rank of the last letter in the live table) strictly increases - hence the chain of issued names is injective for any number of operands. The naming loop is proved per operation class for a generic iteration with a symbolic operand index and current name (operand i gets the successor, name_to_path gains exactly that name -> path + (i,), the current name is written back, nothing else is written); non-operations name nothing and visit their children with index paths; TreeAutoNamer.visit names the root alone iff nothing was named; element_from_path is proved with a cut-point on its while loop; matching_from_names exhaustively on a finite table.",
   "A1-A10; the induction over operands / tree nodes and 'strictly increasing => distinct' are paper steps; precondition: the tree carries no names yet.",
   "contract-based deductive verification: successor strictness and generic-iteration (loop cut) obligations on the real naming code, z3 strings + integer sequences"),
 "C12": ("proof", "3.C12",
   "Conversion is proved per node class (with merging off, and with merging on for every class but AND): a comparison becomes a fresh range with the same bound and inclusiveness, a fresh '*' word on the open side, the node's position and layout, add_head around TO only, no comparison left; every other node is copied; input and the shared wildcard word untouched. Merging is proved with a cut-point invariant on the loop of visit_and_operation over an UNBOUNDED number of operands, semantically for one arbitrary field value with uninterpreted bound atoms (hence for every value and every ordering): init, one iteration from an arbitrary state (empty / one-element / longer queue, either side) on a generic converted operand (one-sided same side, opposite side, anything else), exit - the conjunction of the kept operands is equivalent to the conjunction of the consumed ones. _get_node_bound_side is proved against its specification; locality (only direct operands of one AND) follows from the per-class obligations. A bounded sweep on a 5-point ordered domain cross-checks the invariant.",
   "A1-A10; the composition (L-IND, induction over the operands) is on paper; values are abstract (the code never compares bounds, as documented).",
   "contract-based deductive verification: per-class conversion contract + loop invariant (cut-point) for the merging loop on the real code, z3 with uninterpreted value atoms; bounded cross-check"),
 "C16": ("proof", "3.C16",
   "Per node class x default operation the real _propagate is run on a symbolic index path with uninterpreted sets of matching / other paths (i.e. for all truth assignments), the recursive calls stubbed by the same contract: the returned status equals the spec value (own report, else any / all of the children by operation kind and default, else the status of the nearest named ancestor-or-self; negations flipped afterwards), the two returned sets are exactly the children's sets plus this node's path on the side of its status, disjoint and complete, children are propagated with their index paths exactly when the construct propagates (not for ranges and fuzzy / proximity), the tree is untouched. _status_from_parent is proved with its recursive call on the strict prefix stubbed by its contract. __init__ / __call__ proved. A bounded sweep cross-checks the spec value against direct boolean evaluation under the statement's precondition.",
   "A1-A10; 'val is the boolean value under the precondition' and L-IND are paper steps; any / all / set union over an operand run by the list lemmas (A5).",
   "contract-based deductive verification: per-class propagation contract with z3 sets of integer sequences and uninterpreted membership, recursion stubbed by contract; bounded cross-check of the spec"),
 "C03": ("exploration", "3.C03",
   "PROVED per production / lexer rule (all values, operand counts and layouts): each action builds the documented node from its right-hand-side values in order (spec keyed by the grammar symbols of the statement), same-class operands are spliced and others kept (n-ary flattening), range / comparison inclusiveness and field names come from the token texts, numerals keep their value, a reserved word is an operator iff it is the whole token text; the result's fingerprint depends on texts and children only (layout independence). FINITE, exhaustive: loaded LALR tables equal an in-memory regeneration; conflict resolution in every state holding a completed AND/OR item is the mandated one (the + - TO entries are the recorded finding KF-D4). BOUNDED: precedence end to end is decided by a differential check against an independent reference parser written from the statement, over every accepted token sequence of <= 5 (quick) / 6 tokens in two whitespace layouts - hence level exploration.",
   "A1-A10 for the proved clauses; no mechanised LR meta-theory: the end-to-end clause is bounded by token-sequence length. Known finding KF-D4 identified by the LALR table entries its runs use.",
   "contract-based deductive verification of every grammar action and of the reserved-word rule (z3) + exhaustive finite audit of the live LALR tables + bounded differential testing against a reference parser"),
 "C11": ("exploration", "3.C11",
   "The statement needs the parser on a CONSTRUCTED string (parse of print); no contract within reach decides the LR automaton's behaviour on all strings, so it is decided by a BOUNDED stand-in: for every query from accepted token sequences of <= 4 (quick) / 6 tokens and each of 8 transformer configurations (copy, resolver x 4 targets, open ranges with / without merging, auto_head_tail), the transformed tree printed and parsed again has the same truth table over the same atoms (term, field path, modifiers), implicit operations of the re-parsed tree being read with the transformer's own convention. The output contracts of the transformers (Copy, Res, Res12 + merge invariant, Aht) are PROVED for all trees (same obligations as C08-T, C10-R, C12, C13-A) and are re-run here.",
   "bounded by token-sequence length; truth-table semantics of trees in bounded/meaning.py. Known findings KF-D9 (resolver output needs groups) and KF-D14 (operator word glued to an operand without a following blank).",
   "bounded exhaustive re-parse check (native) on top of the deductively proved transformer output contracts"),
 "C18": ("exploration", "3.C18",
   "PROVED per node class (inline / new-line operators, each parent kind, operand runs): the chunk sequence produced by _get_chains is exactly the printed pieces of the node in print order (atoms by their own __str__, field name with its colon, parentheses, operator words, one new level for a group's content and for an operation nested in an operation of another operator), nothing dropped or duplicated; tree, printer and module state untouched. BOUNDED: _count_chars / _apply_stick / _concatenates emit every chunk unchanged, in order, separated by blanks only (1500 seeded nested chunk lists x 18 settings); the pretty text is accepted and parses to an equal tree, deterministically, input untouched (every accepted token sequence of <= 4 (quick) / 5 tokens with short and long texts x 18 settings + hand-picked deep / multi-line queries). Level exploration because the parse-back clause needs the parser on a constructed string.",
   "A1-A10 for the chunk contract; the re-join functions and the parse-back clause are bounded.",
   "contract-based deductive verification of the chunking function (per class, z3) + bounded stand-ins for re-joining and parse-back"),
}
PENDING = {
}
ALL = ["C%02d" % i for i in range(1, 21)]


def main():
    checks = []
    for pid, (cat, ref, text, note, tech) in sorted(CHECKS.items()):
        checks.append({
            "property_id": pid,
            "quick_cmd": "./vf check %s --tier quick" % pid,
            "thorough_cmd": "./vf check %s --tier thorough" % pid,
            "evidence_file": "evidence/%s.json" % pid,
            "replay_cmd_template": "./vf replay {path}",
            "engine": "symx",
            "level_claimed": {"category": cat, "text": text, "design_ref": "DESIGN.md section " + ref},
            "level_note": note,
            "technique": tech,
        })
    na = []
    for pid in ALL:
        if pid not in CHECKS:
            na.append({"property_id": pid, "reason": PENDING.get(pid, "contract-based check not built yet in this session (engine exists; see DESIGN.md section 3 for the planned obligations); not claimed until it passes on the unchanged tree and refutes its mutants")})
    m = {
        "version": 1,
        "setup_cmd": "./setup.sh",
        "hooks": {"guard": "LUQUM_VERIF", "enable": "none needed: the loader reads /repo's working tree and instruments it in memory; no source hooks exist in /repo",
                  "baseline_off_cmd": "cd /repo && /venv/bin/python -m pytest -ra -q -p no:cacheprovider",
                  "source_commits": ["b51bf59", "eaf23e2", "9e0facc", "370da04", "2908544", "c938184"], "add_only": True},
        "engines": [{"name": "symx", "path": "vfkit/", "serves_properties": sorted(CHECKS),
                     "kind_free_text": "verification-condition generator: shadow symbolic execution of the real luqum functions under CPython with z3-term proxies (AST redirects listed in every evidence file), sidecar contracts in contracts/, obligations discharged by z3 5.1 with cvc5 as second opinion; bounded stand-ins run the unmodified code natively"}],
        "checks": checks,
        "not_applicable": na,
        "notes": "Exit codes of every check: 0 held (KNOWN-FINDING lines only), 1 VIOLATION, 2 undecided (unsupported construct / solver unknown; never reported as a violation), 3 checker failure. VF_REPO selects the tree under verification (default /repo). source_commits lists the unguarded fix: commits made in /repo (no hooks).",
    }
    with open("MANIFEST.json", "w") as f:
        json.dump(m, f, indent=1)
    print("MANIFEST.json: %d checks, %d not_applicable" % (len(checks), len(na)))


main()
