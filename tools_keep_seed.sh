#!/bin/sh
# usage: tools_keep_seed.sh <seed dir> <name e.g. C01-1> <property> <checks...>  : verify + store under /verif/seeded/<name>/
SEED="$1"; NAME="$2"; PROP="$3"; shift 3
OUT=/verif/seeded/$NAME
mkdir -p $OUT
cp "$SEED/patch.diff" "$SEED/demo.py" $OUT/
[ -f "$SEED/notes.md" ] && cp "$SEED/notes.md" $OUT/notes.md
RES=$(/verif/tools_seed.sh "$SEED" "$@" 2>&1 | grep -v conda)
echo "$RES" | head -4
python3 - "$OUT" "$NAME" "$PROP" "$RES" "$@" <<'PY'
import json, sys, re
out, name, prop, res = sys.argv[1:5]
checks = sys.argv[5:]
first = res.splitlines()[0]
m = re.search(r"tests_exit=(\d+) demo_unpatched=(\d+) demo_patched=(\d+)", first)
det = {}
cur = None
for line in res.splitlines()[1:]:
    mm = re.match(r"\s+check (\w+) exit=(\d+) violations=(\d+) confirmed=(\d+) undecided=(\d+) failures=(\d+)", line)
    if mm:
        cur = mm.group(1)
        det[cur] = {"exit": int(mm.group(2)), "violations": int(mm.group(3)), "natively_confirmed": int(mm.group(4)),
                    "undecided": int(mm.group(5)), "checker_failures": int(mm.group(6)), "first_lines": []}
    elif cur and line.startswith(("VIOLATION", "UNDECIDED", "CHECKER")):
        det[cur]["first_lines"].append(line[:200])
notes = ""
try:
    notes = open(out + "/notes.md").read()
except Exception:
    pass
meta = {
    "id": name, "breaks_property": prop, "origin": "independent sub-agent given only the property text and a scratch worktree",
    "what_it_needs_to_manifest": notes[:1500],
    "verified_by_me": {"existing_test_suite_exit": int(m.group(1)), "demo_exit_unpatched": int(m.group(2)),
                       "demo_exit_patched": int(m.group(3)),
                       "commands": ["git worktree add /tmp/vfseed HEAD; git apply patch.diff",
                                    "cd /tmp/vfseed && /venv/bin/python -m pytest -q -p no:cacheprovider -x",
                                    "cd /tmp/vfseed && /venv/bin/python demo.py",
                                    "VF_REPO=/tmp/vfseed ./vf check <id>"]},
    "checks_run": det,
    "detected": any(d["exit"] == 1 for d in det.values()),
}
json.dump(meta, open(out + "/meta.json", "w"), indent=1)
print("kept", name, "detected" if meta["detected"] else "MISSED")
PY
