#!/bin/sh
# usage: tools_mut.sh <file> <old> <new>  -- scratch copy of /repo/luqum in /tmp/vfmut with one replacement
rm -rf /tmp/vfmut/luqum; mkdir -p /tmp/vfmut; cp -r /repo/luqum /tmp/vfmut/luqum
cd /tmp/vfmut && python3 - "$@" <<'PY'
import sys
f, old, new = sys.argv[1:4]
s = open(f).read()
assert old in s, "pattern not found"
s = s.replace(old, new, 1)
open(f, "w").write(s)
PY
