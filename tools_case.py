#!/usr/bin/env python3
"""run single deductive cases of a property: tools_case.py C06 <substring of case key> [...]  (debugging aid)"""
import sys, time
sys.path.insert(0, "/verif")
from vfkit import loader  # noqa
from vfkit import core
import importlib
pid = sys.argv[1]
mod = importlib.import_module("contracts." + pid.lower())
core.load_known_findings()
pl = mod.plan("quick", 0)
for c in pl.cases:
    if any(s in c.key for s in sys.argv[2:]):
        t = time.time()
        r = core.run_case(c)
        bad = [(x["obligation"], x["status"], x.get("model")) for x in r["records"] if x["status"] != "proved"]
        print("%-70s paths=%d secs=%.1f err=%s notproved=%s" % (c.key, r["paths"], time.time() - t, (r["error"] or "")[:300], bad[:3]))
