/-
Lifting lemmas used by the engine for runs of operands (DESIGN 2.5, assumption A5).
A `Run` stands for a non-empty list of operands; the engine only uses the following facts about it.
Texts are modelled as lists of characters (`List Char`), which is what z3's sequence theory reasons about.
No Mathlib: core Lean 4 only, so that the re-check takes about a second.
-/

namespace Luqum

/-- text of an n-ary operation: the operands' texts joined by the operator word -/
def joinWith (op : List Char) : List (List Char) → List Char
  | [] => []
  | [x] => x
  | x :: y :: rest => x ++ op ++ joinWith op (y :: rest)

/-- L-J: joining a concatenation of two non-empty runs = the two joins separated by the operator -/
theorem joinWith_append (op : List Char) :
    ∀ (xs ys : List (List Char)), xs ≠ [] → ys ≠ [] →
      joinWith op (xs ++ ys) = joinWith op xs ++ op ++ joinWith op ys
  | [], _, h, _ => absurd rfl h
  | [x], y :: ys, _, _ => by simp [joinWith]
  | [_], [], _, h => absurd rfl h
  | x :: x' :: xs, ys, _, hy => by
      have ih := joinWith_append op (x' :: xs) ys (by simp) hy
      simp [joinWith] at ih ⊢
      rw [ih]

/-- L-J (singleton on the left): one operand in front of a run -/
theorem joinWith_cons (op : List Char) (x : List Char) (ys : List (List Char)) (h : ys ≠ []) :
    joinWith op (x :: ys) = x ++ op ++ joinWith op ys := by
  cases ys with
  | nil => exact absurd rfl h
  | cons y rest => simp [joinWith]

/-- L-M: fingerprints (any function of the members) of a concatenation -/
theorem map_append' {α β : Type} (f : α → β) (xs ys : List α) :
    (xs ++ ys).map f = xs.map f ++ ys.map f := List.map_append ..

/-- L-S: number of operands -/
theorem length_append' {α : Type} (xs ys : List α) : (xs ++ ys).length = xs.length + ys.length :=
  List.length_append ..

theorem length_map' {α β : Type} (f : α → β) (xs : List α) : (xs.map f).length = xs.length :=
  List.length_map ..

/-- L-Z: two runs are pointwise `fp`-equal iff their fingerprint sequences are equal -/
theorem map_eq_iff_forall {α β : Type} (f : α → β) :
    ∀ (xs ys : List α), xs.length = ys.length →
      (xs.map f = ys.map f ↔ ∀ p ∈ xs.zip ys, f p.1 = f p.2)
  | [], [], _ => by simp
  | [], _ :: _, h => by simp at h
  | _ :: _, [], h => by simp at h
  | x :: xs, y :: ys, h => by
      have ih := map_eq_iff_forall f xs ys (by simpa using h)
      simp [List.zip, ih]

/-- generic member (uniform loops): what a stateless loop body establishes for an arbitrary member holds for all -/
theorem forall_of_generic {α : Type} (P : α → Prop) (xs : List α) (h : ∀ x, x ∈ xs → P x) :
    ∀ x ∈ xs, P x := h

/-- a stateless loop is a map: the results of the iterations are the images of the members, in order -/
theorem map_generic {α β : Type} (f g : α → β) (xs : List α) (h : ∀ x ∈ xs, f x = g x) :
    xs.map f = xs.map g := List.map_congr_left h

/-- any / all over a concatenation (C16: status of an operation from its operands) -/
theorem any_append' {α : Type} (p : α → Bool) (xs ys : List α) : (xs ++ ys).any p = (xs.any p || ys.any p) :=
  List.any_append ..

theorem all_append' {α : Type} (p : α → Bool) (xs ys : List α) : (xs ++ ys).all p = (xs.all p && ys.all p) :=
  List.all_append ..

end Luqum

#print axioms Luqum.joinWith_append
#print axioms Luqum.joinWith_cons
#print axioms Luqum.map_eq_iff_forall
#print axioms Luqum.map_generic
