/-
Composition lemmas (DESIGN 2.10, assumption A6): how the per-function contracts discharged by the engine
compose into statements about whole runs / whole trees.  Each lemma is about a small explicit model
(lists, rose trees, labelled transition steps); what stays assumed is that the model is the right reading of
the Python run (stated next to each lemma), not the inductive argument itself.
Core Lean 4 only (no Mathlib).
-/

namespace Luqum

/-! ### L-TILE — consecutive segments of known lengths that tile `q` are the corresponding slices (C02) -/

theorem tile_slice {α : Type} (a b c : List α) :
    ((a ++ b ++ c).drop a.length).take b.length = b := by
  simp [List.append_assoc]

theorem tile_prefix {α : Type} (a b : List α) : (a ++ b).take a.length = a := by simp

/-! ### L-LEX / run invariant — an observation that grows by exactly the consumed match at every step
equals the whole input at the end (C01-L: `pending ++ Σ text(tokᵢ) = consumed`).
Model link: PLY's lexer loop calls the rule functions on contiguous matches, left to right (A8). -/

inductive RunOver {σ : Type} (step : σ → List Char → σ → Prop) : σ → List (List Char) → σ → Prop
  | done (s : σ) : RunOver step s [] s
  | next {s s' s'' : σ} {m : List Char} {ms : List (List Char)} :
      step s m s' → RunOver step s' ms s'' → RunOver step s (m :: ms) s''

theorem run_observation {σ : Type} (step : σ → List Char → σ → Prop) (obs : σ → List Char)
    (hstep : ∀ s m s', step s m s' → obs s' = obs s ++ m) :
    ∀ s ms s', RunOver step s ms s' → obs s' = obs s ++ ms.flatten := by
  intro s ms s' h
  induction h with
  | done s => simp
  | next hs _ ih => rw [ih, hstep _ _ _ hs]; simp [List.append_assoc]

/-! ### L-LR — invariant of an LR run (C01): the texts of the stack values followed by the texts of the
tokens not yet shifted spell the input.  `shift` pushes a value with the token's text (C01-L), `reduce` replaces a
handle by a value whose text is the concatenation of the handle's texts taken before the action ran (C01-G).
Model link (A8): PLY's driver only shifts and reduces, the handle is the top of the stack, values below the
handle are not written by the action (frame obligation of C01-G). The tables play no role. -/

structure Config (V T : Type) where
  stack : List V
  rest : List T

def ctext {V T : Type} (tv : V → List Char) (tt : T → List Char) (c : Config V T) : List Char :=
  (c.stack.map tv).flatten ++ (c.rest.map tt).flatten

inductive LRStep {V T : Type} (tv : V → List Char) (tt : T → List Char) : Config V T → Config V T → Prop
  | shift (st : List V) (t : T) (rest : List T) (v : V) :
      tv v = tt t → LRStep tv tt ⟨st, t :: rest⟩ ⟨st ++ [v], rest⟩
  | reduce (st handle : List V) (rest : List T) (v : V) :
      tv v = (handle.map tv).flatten → LRStep tv tt ⟨st ++ handle, rest⟩ ⟨st ++ [v], rest⟩

inductive LRRun {V T : Type} (tv : V → List Char) (tt : T → List Char) : Config V T → Config V T → Prop
  | refl (c : Config V T) : LRRun tv tt c c
  | step {c c' c'' : Config V T} : LRStep tv tt c c' → LRRun tv tt c' c'' → LRRun tv tt c c''

theorem lr_step_text {V T : Type} (tv : V → List Char) (tt : T → List Char) (c c' : Config V T)
    (h : LRStep tv tt c c') : ctext tv tt c' = ctext tv tt c := by
  cases h with
  | shift st t rest v hv => simp [ctext, hv, List.append_assoc]
  | reduce st handle rest v hv => simp [ctext, hv, List.append_assoc]

theorem lr_run_text {V T : Type} (tv : V → List Char) (tt : T → List Char) (c c' : Config V T)
    (h : LRRun tv tt c c') : ctext tv tt c' = ctext tv tt c := by
  induction h with
  | refl c => rfl
  | step hs _ ih => rw [ih, lr_step_text tv tt _ _ hs]

/-- on acceptance the single stack value prints as the concatenation of all token texts -/
theorem lr_accept {V T : Type} (tv : V → List Char) (tt : T → List Char) (toks : List T) (v : V)
    (h : LRRun tv tt ⟨[], toks⟩ ⟨[v], []⟩) : tv v = (toks.map tt).flatten := by
  have := lr_run_text tv tt _ _ h
  simpa [ctext] using this

/-! ### L-IND — a traversal whose step establishes the contract relation for a node from the relation on its
children establishes it on every finite tree (2.4).  Model link (A7): trees are finite, every node is an instance of
one of the enumerated classes (the label), children are the node's `children` list. -/

inductive Tree (L : Type) where
  | node : L → List (Tree L) → Tree L

theorem tree_ind {L : Type} (R : Tree L → Prop)
    (step : ∀ l cs, (∀ c, c ∈ cs → R c) → R (Tree.node l cs)) : ∀ t, R t
  | .node l cs => step l cs (fun c _ => tree_ind R step c)
termination_by t => sizeOf t
decreasing_by
  simp_wf
  have := List.sizeOf_lt_of_mem ‹c ∈ cs›
  omega

/-- a recursive traversal `T (node l cs) = F l cs (cs.map T)` -/
def fold {L β : Type} (F : L → List (Tree L) → List β → β) : Tree L → β
  | .node l cs => F l cs (cs.attach.map (fun ⟨c, _⟩ => fold F c))
termination_by t => sizeOf t
decreasing_by
  simp_wf
  have := List.sizeOf_lt_of_mem ‹c ∈ cs›
  omega

/-- pointwise relation between the children and the results the recursive calls returned for them -/
inductive Pointwise {α β : Type} (R : α → β → Prop) : List α → List β → Prop
  | nil : Pointwise R [] []
  | cons {a : α} {b : β} {as : List α} {bs : List β} : R a b → Pointwise R as bs → Pointwise R (a :: as) (b :: bs)

theorem pointwise_map {α β : Type} (R : α → β → Prop) (f : α → β) :
    ∀ (xs : List α), (∀ x, x ∈ xs → R x (f x)) → Pointwise R xs (xs.map f)
  | [], _ => Pointwise.nil
  | x :: xs, h => Pointwise.cons (h x (by simp)) (pointwise_map R f xs (fun y hy => h y (by simp [hy])))

theorem fold_eq {L β : Type} (F : L → List (Tree L) → List β → β) (l : L) (cs : List (Tree L)) :
    fold F (Tree.node l cs) = F l cs (cs.map (fold F)) := by
  rw [fold]
  congr 1
  have h : cs.map (fold F) = (cs.attach.map Subtype.val).map (fold F) := by rw [List.attach_map_subtype_val]
  rw [h, List.map_map]
  rfl

/-- L-IND for transformers / visitors: if the step is correct for arbitrary results of the recursive calls that
satisfy the relation (that is what the engine proves per class, children being stubs), the traversal is correct -/
theorem fold_ind {L β : Type} (F : L → List (Tree L) → List β → β) (R : Tree L → β → Prop)
    (step : ∀ l cs rs, Pointwise R cs rs → R (Tree.node l cs) (F l cs rs)) : ∀ t, R t (fold F t) := by
  apply tree_ind
  intro l cs ih
  rw [fold_eq]
  exact step l cs _ (pointwise_map R (fold F) cs ih)

/-! ### L-CONF — confinement gives schedule independence (C14).  Every step of thread `i` reads and writes only the
component owned by `i` (C14-O / C14-W: own lexer clone, own tracker, fresh nodes) and shared state that nobody
writes (a parameter of `prog`).  Then after any schedule the state owned by `i` is what `i` running alone produces.
Model link: steps are atomic at the granularity of the contracts' write frames; PLY's own state is per parse call (A8). -/

def upd {S : Type} (st : Nat → S) (i : Nat) (v : S) : Nat → S := fun j => if j = i then v else st j

def runSched {S : Type} (prog : Nat → S → S) : List Nat → (Nat → S) → (Nat → S)
  | [], st => st
  | i :: sched, st => runSched prog sched (upd st i (prog i (st i)))

def iter {S : Type} (f : S → S) : Nat → S → S
  | 0, s => s
  | n + 1, s => iter f n (f s)

theorem confinement {S : Type} (prog : Nat → S → S) :
    ∀ (sched : List Nat) (st : Nat → S) (i : Nat),
      runSched prog sched st i = iter (prog i) (sched.count i) (st i)
  | [], st, i => by simp [runSched, iter]
  | j :: sched, st, i => by
      rw [runSched, confinement prog sched]
      by_cases h : j = i
      · subst h; simp [upd, iter]
      · have h' : ¬ i = j := fun e => h e.symm
        simp [upd, h, h']

/-- two schedules with the same steps per thread end in the same state -/
theorem schedule_independent {S : Type} (prog : Nat → S → S) (s1 s2 : List Nat) (st : Nat → S)
    (h : ∀ i, s1.count i = s2.count i) : runSched prog s1 st = runSched prog s2 st := by
  funext i
  rw [confinement, confinement, h]

/-! ### L-MARK — marking writes an opening element in front of a node's head and a closing one after its tail;
since printing is `head ++ body ++ tail` recursively (C01-T), (1) erasing the inserted elements gives back the text,
(2) the elements are properly nested (C17).  A label carries the literal text printed before the node inside its
parent (`pre`), its head and tail, the literal closing its body (`post`), and whether it is marked. -/

inductive Out where
  | ch : Char → Out
  | op : Nat → Out
  | cl : Nat → Out

def Out.isCh : Out → Bool
  | .ch _ => true
  | _ => false

def erase (xs : List Out) : List Out := xs.filter Out.isCh

theorem erase_append (a b : List Out) : erase (a ++ b) = erase a ++ erase b := by simp [erase]

structure Lab where
  pre : List Out
  head : List Out
  post : List Out
  tail : List Out
  tag : Option Nat

def Lab.marked (l : Lab) : Lab :=
  match l.tag with
  | none => l
  | some t => { l with head := Out.op t :: l.head, tail := l.tail ++ [Out.cl t] }

def pre : Tree Lab → List Out
  | .node l _ => l.pre

/-- printing: head, then each child preceded by its literal, then the closing literal, then tail -/
def text (m : Lab → Lab) : Tree Lab → List Out :=
  fold (fun l cs rs => (m l).head ++ ((cs.zip rs).map (fun p => pre p.1 ++ p.2)).flatten ++ l.post ++ (m l).tail)

inductive Bal : List Out → Prop
  | nil : Bal []
  | ch (c : Char) : Bal [Out.ch c]
  | wrap (t : Nat) {a : List Out} : Bal a → Bal (Out.op t :: a ++ [Out.cl t])
  | app {a b : List Out} : Bal a → Bal b → Bal (a ++ b)

def plain (xs : List Out) : Prop := ∀ x, x ∈ xs → x.isCh = true

theorem bal_of_plain : ∀ xs, plain xs → Bal xs
  | [], _ => Bal.nil
  | x :: xs, h => by
      have hx := h x (by simp)
      have : Bal [x] := by
        cases x with
        | ch c => exact Bal.ch c
        | op t => simp [Out.isCh] at hx
        | cl t => simp [Out.isCh] at hx
      exact Bal.app this (bal_of_plain xs (fun y hy => h y (by simp [hy])))

theorem erase_plain (xs : List Out) (h : plain xs) : erase xs = xs := by
  simp only [erase, List.filter_eq_self]
  exact h

def plainLab (l : Lab) : Prop := plain l.pre ∧ plain l.head ∧ plain l.post ∧ plain l.tail

inductive AllPlain : Tree Lab → Prop
  | node (l : Lab) (cs : List (Tree Lab)) : plainLab l → (∀ c, c ∈ cs → AllPlain c) → AllPlain (Tree.node l cs)

theorem allPlain_pre : ∀ c, AllPlain c → plain (pre c)
  | .node _ _, .node _ _ hl _ => hl.1

def piece (p : Tree Lab × List Out) : List Out := pre p.1 ++ p.2

theorem text_eq (m : Lab → Lab) (l : Lab) (cs : List (Tree Lab)) :
    text m (Tree.node l cs) = (m l).head ++ ((cs.zip (cs.map (text m))).map piece).flatten ++ l.post ++ (m l).tail := by
  unfold text
  rw [fold_eq]
  rfl

/-- what marking guarantees for one printed subtree -/
def MarkOK (t : Tree Lab) (r : List Out) : Prop := AllPlain t → erase r = text id t ∧ Bal r

theorem body_ok : ∀ (cs : List (Tree Lab)) (rs : List (List Out)), Pointwise MarkOK cs rs → (∀ c, c ∈ cs → AllPlain c) →
    erase ((cs.zip rs).map piece).flatten = ((cs.zip (cs.map (text id))).map piece).flatten ∧ Bal ((cs.zip rs).map piece).flatten
  | [], [], .nil, _ => by simp [erase]; exact Bal.nil
  | c :: cs, r :: rs, .cons hr hrest, hp => by
      have hc := hp c (by simp)
      have ⟨e1, b1⟩ := hr hc
      have ⟨e2, b2⟩ := body_ok cs rs hrest (fun d hd => hp d (by simp [hd]))
      have hpre := allPlain_pre c hc
      constructor
      · simp only [List.zip_cons_cons, List.map_cons, List.flatten_cons, piece, erase_append]
        rw [e1, erase_plain _ hpre]
        rw [e2]
      · simp only [List.zip_cons_cons, List.map_cons, List.flatten_cons, piece]
        exact Bal.app (Bal.app (bal_of_plain _ hpre) b1) b2

theorem marked_head_tail (l : Lab) (hl : plainLab l) (mid : List Out) (e : List Out) (he : erase mid = e) (hb : Bal mid) :
    erase (l.marked.head ++ mid ++ l.post ++ l.marked.tail) = l.head ++ e ++ l.post ++ l.tail ∧
    Bal (l.marked.head ++ mid ++ l.post ++ l.marked.tail) := by
  obtain ⟨_, hh, hpo, ht⟩ := hl
  have core : Bal (l.head ++ mid ++ l.post ++ l.tail) :=
    Bal.app (Bal.app (Bal.app (bal_of_plain _ hh) hb) (bal_of_plain _ hpo)) (bal_of_plain _ ht)
  cases htag : l.tag with
  | none =>
      simp only [Lab.marked, htag, erase_append, erase_plain _ hh, erase_plain _ hpo, erase_plain _ ht, he]
      exact ⟨trivial, core⟩
  | some t =>
      simp only [Lab.marked, htag]
      constructor
      · simp only [erase_append, erase_plain _ hpo, erase_plain _ ht, he]
        have h1 : erase (Out.op t :: l.head) = l.head := by
          have := erase_plain _ hh
          simpa [erase, List.filter_cons, Out.isCh] using this
        have h2 : erase [Out.cl t] = [] := by simp [erase, Out.isCh]
        rw [h1, h2]
        simp
      · have : Out.op t :: l.head ++ mid ++ l.post ++ (l.tail ++ [Out.cl t]) = Out.op t :: (l.head ++ mid ++ l.post ++ l.tail) ++ [Out.cl t] := by
          simp [List.append_assoc]
        rw [this]
        exact Bal.wrap t core

/-- L-MARK (1) and (2): on a tree whose texts contain no element, printing after marking erases to the
original print and is properly nested -/
theorem mark_ok : ∀ t, MarkOK t (text Lab.marked t) := by
  unfold text
  apply fold_ind
  intro l cs rs hpw hall
  cases hall with
  | node _ _ hl hcs =>
    have ⟨e, b⟩ := body_ok cs rs hpw hcs
    have := marked_head_tail l hl _ _ e b
    rw [text_eq]
    exact this

end Luqum

#print axioms Luqum.tile_slice
#print axioms Luqum.run_observation
#print axioms Luqum.lr_accept
#print axioms Luqum.tree_ind
#print axioms Luqum.fold_ind
#print axioms Luqum.confinement
#print axioms Luqum.schedule_independent
#print axioms Luqum.mark_ok
